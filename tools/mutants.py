"""Sensitivity trials: apply one small breakage at a time to a scratch worktree of /repo and
run the named checks against it (VP_REPO); a check must exit 1. Usage:
  python3 tools/mutants.py <mutant-file.json> [name-filter]
mutant file: [{"name":..., "file":..., "old":..., "new":..., "checks":["C05",...]}]
"""
import json, os, subprocess, sys, shutil, time

WT = "/var/tmp/ioflo-mut-%d" % os.getpid()


def sh(cmd, **kw):
    return subprocess.run(cmd, shell=True, capture_output=True, text=True, **kw)


def main():
    muts = json.load(open(sys.argv[1]))
    flt = sys.argv[2] if len(sys.argv) > 2 else ""
    r = sh("git -C /repo worktree add --detach %s HEAD" % WT)
    if r.returncode:
        print(r.stderr); sys.exit(2)
    results = []
    try:
        for m in muts:
            if flt and flt not in m["name"] and flt not in ",".join(m["checks"]):
                continue
            path = os.path.join(WT, m["file"])
            src = open(path).read()
            if m["old"] not in src:
                print("MUTANT %s: pattern not found in %s" % (m["name"], m["file"])); results.append((m["name"], "n/a", "pattern-missing")); continue
            open(path, "w").write(src.replace(m["old"], m["new"], 1))
            try:
                for c in m["checks"]:
                    t0 = time.time()
                    env = dict(os.environ, VP_REPO=WT, VERIF_SEED=os.environ.get("VERIF_SEED", "1"))
                    r = subprocess.run(["./check", c, "--tier", "quick"], cwd="/verif", env=env, capture_output=True, text=True)
                    sigs = [l for l in r.stdout.splitlines() if l.startswith("violation sig=")][:3]
                    verdict = {0: "MISSED", 1: "caught", 2: "HARNESS-ERROR"}.get(r.returncode, str(r.returncode))
                    print("MUTANT %-40s %s %-8s %5.1fs %s" % (m["name"], c, verdict, time.time() - t0, " | ".join(s[:110] for s in sigs)))
                    if r.returncode == 2:
                        print(r.stderr[-600:])
                    results.append((m["name"], c, verdict))
                    sys.stdout.flush()
            finally:
                open(path, "w").write(src)
    finally:
        sh("git -C /repo worktree remove --force %s" % WT)
        shutil.rmtree(WT, ignore_errors=True)
    missed = [r for r in results if r[2] != "caught"]
    print("\n%d trials, %d not caught" % (len(results), len(missed)))
    for r in missed:
        print("  ", r)


if __name__ == "__main__":
    main()
