"""print the prompt for a fresh mutation-seeding sub-agent: python3 tools/seed_prompt.py C05"""
import json, sys
pid = sys.argv[1]
ROUND = int(sys.argv[2]) if len(sys.argv) > 2 else 1
ROUND2 = ROUND >= 2
for l in open("/verif/properties.jsonl"):
    p = json.loads(l)
    if p["id"] == pid:
        break
wt = "/tmp/seed-%s" % pid
prevs = []
if ROUND2:
    wt = "/tmp/seed%d-%s" % (ROUND, pid)
    prevs = [json.load(open("/verif/seeded/%s%s/meta.json" % (pid, "" if r == 1 else "-%d" % r))) for r in range(1, ROUND)]
print(f"""You are testing a verification effort by injecting a realistic bug. Work ONLY inside the git worktree {wt} (a scratch checkout of the Python project "ioflo": flow-based automation framework with a FloScript DSL builder, hierarchical frame state machines, a generator based scheduler and its own non-blocking TCP/HTTP/UDP stack). Do NOT read or touch /verif or /repo, and do not look at other /tmp directories. No network.

The project is supposed to satisfy this property:

  Title: {p['title']}
  Statement: {p['statement']}
  Quantified over: {p['quantifier']['text']}
  Code the property is anchored in: {', '.join(p['anchors']['files'])}

Your task: make ONE small source change to ioflo (in {wt}/ioflo/..., not in tests) that BREAKS this property while the code still imports/compiles and the existing test suite still passes. The change should look like a plausible regression a developer could introduce (an off-by-one, a wrong condition, a dropped call, a swapped order, a stale variable, a missed case), and it must need something SPECIFIC to manifest: a particular interleaving, a fault or crash at a particular point, a multi-step sequence of operations, an unusual input, or two cooperating sites that each look fine alone. It must NOT be something that ordinary simple use exposes at once (e.g. do not break the common path of every call), and it must not be a crash on import.

Deliverables, all written into {wt}/OUT/ (create the directory):
  1. patch.diff  - `git -C {wt} diff` of your source change (source files only; unified diff that applies with `git apply` to a clean checkout of the same commit).
  2. demo.py     - a small self-contained program (run as `/venv/bin/python demo.py` with cwd={wt}, it must do `import sys; sys.path.insert(0, '{wt}')` first and `import collections.abc` before importing ioflo) that exits 0 and prints PASS when the property holds on its scenario and exits 1 and prints FAIL with an explanation when it is violated. It must FAIL with your change applied and PASS on the unchanged code (verify both; do NOT use `git stash` - the stash is shared with other worktrees of this repository - instead save your change with `git diff > OUT/patch.diff` and toggle it with `git apply -R OUT/patch.diff` and `git apply OUT/patch.diff`).
  3. meta.json   - {{"property": "{pid}", "summary": "<one sentence: what the change does>", "needs": "<what specific input / sequence / interleaving / fault is needed for it to manifest>", "files": ["<changed files>"], "tests_run": "<the exact test command(s) you ran and the result>"}}

Rules:
  * Use /venv/bin/python. Run the relevant part of the existing tests with your change applied, e.g. `cd {wt} && /venv/bin/python -m pytest -q -p no:cacheprovider --timeout=300 <package dir such as ioflo/base or ioflo/aio/http>` (other people run the same suite on this machine and the network tests use fixed ports, so run only the package(s) your change touches, one at a time, and if you see 'Address already in use' run the tests inside a private network namespace: `unshare -n sh -c 'ip link set lo up; cd {wt} && /venv/bin/python -m pytest ...'`; in ioflo/aio/tcp five tests fail on the unchanged code already: testTLSConnectionVerifyBothTLSv1, testTLSConnectionVerifyNeither, testTcpClientServer, testTcpClientServerService, testTcpClientServerServiceCat). All tests that pass on the unchanged code must still pass with your change.
  * Read the anchored code carefully first so the bug is subtle and really violates the statement as written (not merely some other behaviour).
  * Leave your source change APPLIED (uncommitted) in the worktree when you finish, do not commit.""" + ("".join("""
  * Another tester already produced this change for the same property: "%s" (files %s). Yours must be DIFFERENT: another function / another mechanism / another clause of the statement, not a variation of that one.""" % (prev["summary"].replace('"', "'"), ", ".join(prev.get("files", []))) for prev in prevs)) + f"""
  * Final message: the summary, the 'needs', and the exact output of demo.py with and without the change.""")
