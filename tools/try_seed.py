"""Validate a seeded change produced by a fresh sub-agent and run our checks against it.
  python3 tools/try_seed.py <ID> [extra check ids...]   (reads /tmp/seed-<ID>/OUT, writes /verif/seeded/<ID>/)
Steps: fresh detached worktree of /repo HEAD; demo passes there; apply patch; demo fails; pinned suite
(whole, sequential) still has exactly the baseline outcome; then `VP_REPO=<wt> ./check <ID> --tier quick`.
Nothing is ever applied to /repo itself."""
import json, os, shutil, subprocess, sys, time

# the pinned suite binds fixed ports: run it in a private network namespace so that suites running elsewhere
# on this machine (seeding agents) cannot collide with it
NETNS = "unshare -n sh -c 'ip link set lo up; %s'"

pid = sys.argv[1]
extra = sys.argv[2:]
ROUND = os.environ.get("SEED_ROUND", "1")
base = "/tmp/seed-%s" % pid if ROUND == "1" else "/tmp/seed%s-%s" % (ROUND, pid)
src = base + "/OUT"
wt = "/var/tmp/ioflo-seedtry-%s-%d" % (pid, os.getpid())
out = "/verif/seeded/%s" % pid if ROUND == "1" else "/verif/seeded/%s-%s" % (pid, ROUND)
BASE_FAIL = {"testTLSConnectionVerifyBothTLSv1", "testTLSConnectionVerifyNeither", "testTcpClientServer",
             "testTcpClientServerService", "testTcpClientServerServiceCat"}


def sh(cmd, **kw):
    return subprocess.run(cmd, shell=True, capture_output=True, text=True, **kw)


def demo(where):
    d = open(os.path.join(src, "demo.py")).read().replace(base, where)
    p = os.path.join(where, "_demo_try.py")
    open(p, "w").write(d)
    r = sh("cd %s && /venv/bin/python -B -W ignore _demo_try.py" % where, timeout=600)
    os.remove(p)
    return r.returncode, (r.stdout + r.stderr)[-1500:]


res = {"property": pid}
r = sh("git -C /repo worktree add --detach %s HEAD" % wt)
assert r.returncode == 0, r.stderr
try:
    res["repo_head"] = sh("git -C /repo rev-parse --short HEAD").stdout.strip()
    rc, o = demo(wt)
    res["demo_unchanged"] = {"rc": rc, "out": o[-400:]}
    r = sh("git -C %s apply %s/patch.diff" % (wt, src))
    res["patch_applies"] = r.returncode == 0
    if r.returncode:
        res["apply_err"] = r.stderr[-400:]
    else:
        rc, o = demo(wt)
        res["demo_changed"] = {"rc": rc, "out": o[-600:]}
        t0 = time.time()
        r = sh(NETNS % ("cd %s && /venv/bin/python -m pytest -q -p no:cacheprovider --timeout=900 --continue-on-collection-errors 2>&1 | tail -15" % wt), timeout=2400)
        failed = set()
        for line in r.stdout.splitlines():
            if line.startswith("FAILED") or line.startswith("ERROR"):
                failed.add(line.split("::")[-1].split(" ")[0])
        res["suite_tail"] = r.stdout.splitlines()[-1] if r.stdout else ""
        new = sorted(failed - BASE_FAIL)
        # tests with fixed ports collide with other suites running on this machine: retry them alone
        still = []
        for name in new:
            okk = False
            for attempt in range(3):
                r2 = sh(NETNS % ("cd %s && /venv/bin/python -m pytest -q -p no:cacheprovider --timeout=600 -k %s ioflo 2>&1 | tail -3" % (wt, name)), timeout=1200)
                if " passed" in r2.stdout and " failed" not in r2.stdout:
                    okk = True
                    break
                time.sleep(5)
            if not okk:
                still.append(name)
        res["suite_first_run_new_failures_retried"] = new
        res["suite_new_failures"] = still
        checks = {}
        for c in [pid] + extra:
            t0 = time.time()
            env = dict(os.environ, VP_REPO=wt)
            r = subprocess.run(["./check", c, "--tier", "quick"], cwd="/verif", env=env, capture_output=True, text=True)
            sigs = [l[:300] for l in r.stdout.splitlines() if l.startswith("violation sig=")][:4]
            checks[c] = {"exit": r.returncode, "wall_s": round(time.time() - t0, 1), "signatures": sigs}
            if r.returncode == 2:
                checks[c]["stderr"] = r.stderr[-500:]
        res["checks"] = checks
finally:
    sh("git -C /repo worktree remove --force %s" % wt)
    shutil.rmtree(wt, ignore_errors=True)
ok = res.get("patch_applies") and res["demo_unchanged"]["rc"] == 0 and res.get("demo_changed", {}).get("rc") == 1 and not res.get("suite_new_failures")
res["valid_seed"] = bool(ok)
print(json.dumps(res, indent=1))
if ok:
    os.makedirs(out, exist_ok=True)
    shutil.copy(os.path.join(src, "patch.diff"), os.path.join(out, "patch.diff"))
    shutil.copy(os.path.join(src, "demo.py"), os.path.join(out, "demo.py"))
    meta = json.load(open(os.path.join(src, "meta.json")))
    meta["validated"] = {"repo_head": res["repo_head"], "demo_unchanged_rc": 0, "demo_changed_rc": 1,
                         "pinned_suite": res["suite_tail"], "checks_run": res["checks"],
                         "how": "python3 tools/try_seed.py %s (fresh worktree of /repo HEAD, patch applied there, never in /repo)" % pid}
    json.dump(meta, open(os.path.join(out, "meta.json"), "w"), indent=1)
