#!/usr/bin/env python3
"""Print the markdown tables of DESIGN.md section 8.2 from seeded/<ID>[-2]/meta.json.
   python3 tools/seed_table.py 1|2
"""
import glob
import json
import os
import re
import sys

rnd = sys.argv[1] if len(sys.argv) > 1 else "1"
rows = []
for d in sorted(glob.glob("/verif/seeded/C??" + ("" if rnd == "1" else "-" + rnd))):
    m = json.load(open(os.path.join(d, "meta.json")))
    pid = m["property"]
    checks = m.get("validated", {}).get("checks_run", {})
    own = checks.get(pid, {})
    sig = ""
    if own.get("signatures"):
        mm = re.match(r"violation sig=([^:@\s]+(?:@[^:\s]+)?)", own["signatures"][0])
        sig = mm.group(1) if mm else ""
    verdict = ("caught (`%s`)" % sig) if own.get("exit") == 1 else "MISSED"
    if own.get("exit") != 1:
        for other, res in sorted(checks.items()):
            if other != pid and res.get("exit") == 1:
                mm = re.match(r"violation sig=([^:@\s]+(?:@[^:\s]+)?)", (res.get("signatures") or [""])[0])
                verdict = "caught by %s (`%s`), whose subject it is; not by %s" % (other, mm.group(1) if mm else "", pid)
                break
    if m.get("first_attempt"):
        verdict += " - after strengthening"
    if m.get("not_caught_note") and own.get("exit") != 1:
        verdict = "MISSED (open: see notes)"
    if m.get("out_of_domain"):
        verdict = "not caught: outside the documented input domain (see notes)"

    def cell(t):
        return " ".join(str(t).split()).replace("|", "/")[:230]
    rows.append("| %s%s | %s | %s | %s |" % (pid, "" if rnd == "1" else " (round %s)" % rnd, cell(m["summary"]), cell(m["needs"]), verdict))
print("| property | seeded change | needs | quick check |")
print("|---|---|---|---|")
print("\n".join(rows))
