#!/bin/sh
# integrate.sh <branch>: cherry-pick the fix commits of a scratch branch into /repo main and
# rewrite their SHAs in /verif/known_findings.d/*.txt (coordinator helper, not used by checks)
br="$1"
cd /repo || exit 1
for c in $(git rev-list --reverse main.."$br"); do
  subj=$(git log -1 --format=%s "$c")
  case "$subj" in fix:*) ;; *) echo "skip non-fix commit $c $subj"; continue;; esac
  if git cherry-pick "$c" >/tmp/cp.out 2>&1; then
    new=$(git rev-parse --short HEAD); old=$(git rev-parse --short "$c")
    echo "picked $old -> $new $subj"
    sed -i "s/\b$old\b/$new/g" /verif/known_findings.d/*.txt 2>/dev/null
  else
    if git diff --cached --quiet && git diff --quiet; then git cherry-pick --skip; echo "empty (already applied) $c $subj"; else echo "CONFLICT on $c $subj"; cat /tmp/cp.out; git cherry-pick --abort; exit 1; fi
  fi
done
