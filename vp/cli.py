"""./check <ID> [--tier quick|thorough] [--replay PATH]

Exit 0: property held on everything explored (KNOWN-FINDING lines possible).
Exit 1: `VIOLATION property=<id> replay=<path>` printed for each new root-cause signature.
Exit 2: harness error (never a verdict).
"""
import argparse
import glob
import importlib
import json
import multiprocessing
import os
import re
import sys
import time
import traceback

from vp.core import env
from vp.core.acc import Acc, jsonable, unjson

HERE = env.VERIF
# evidence of a run against a scratch tree (VP_REPO=...: sensitivity trials, seeded changes) must never replace the
# evidence of /repo itself
EVDIR = os.environ.get("VP_EVIDENCE_DIR") or (
    os.path.join(HERE, "evidence") if os.path.realpath(env.REPO) == "/repo"
    else os.path.join("/var/tmp", "vp-scratch-evidence"))


def find_module(pid):
    pid = pid.upper()
    pats = glob.glob(os.path.join(HERE, "vp", "checks", pid.lower() + "_*.py")) + \
        glob.glob(os.path.join(HERE, "vp", "checks", pid.lower() + ".py"))
    if not pats:
        raise SystemExit2("no check module for %s" % pid)
    name = os.path.splitext(os.path.basename(sorted(pats)[0]))[0]
    return importlib.import_module("vp.checks." + name)


class SystemExit2(Exception):
    pass


# ------------------------------------------------------------------ known findings
def load_findings(pid):
    """known_findings.txt lines:
         fixed: property=<id> <commit> <what failed>            (documents only, suppresses nothing)
         known: property=<id> sig=<regex, no blanks> <what fails>  (open finding, matched on signature)
    """
    out = []
    paths = [os.path.join(HERE, "known_findings.txt")] + \
        sorted(glob.glob(os.path.join(HERE, "known_findings.d", "*.txt")))
    for path in paths:
        if not os.path.exists(path):
            continue
        for line in open(path):
            line = line.strip()
            if not line or line.startswith("#"):
                continue
            m = re.match(r"known:\s+property=(\S+)\s+sig=(\S+)\s+(.*)$", line)
            if m and m.group(1) == pid:
                out.append({"regex": re.compile(m.group(2)), "what": m.group(3), "raw": m.group(2)})
    return out


def _work(args):
    modname, shard, seed, tier = args
    env.use_repo()
    mod = importlib.import_module(modname)
    try:
        acc = mod.work(shard, seed, tier)
        if acc is None:
            acc = Acc()
        return ("ok", acc)
    except BaseException:
        return ("error", "shard %r\n%s" % (shard, traceback.format_exc()))


def run_replay_case(mod, case):
    fails = mod.replay(unjson(case))
    return list(fails or [])


def main(argv=None):
    ap = argparse.ArgumentParser()
    ap.add_argument("pid")
    ap.add_argument("--tier", default=os.environ.get("VERIF_TIER", "quick"), choices=["quick", "thorough"])
    ap.add_argument("--replay", default=None)
    ap.add_argument("--procs", type=int, default=int(os.environ.get("VP_PROCS", "0")))
    a = ap.parse_args(argv)
    pid = a.pid.upper()
    seed = env.seed()
    t0 = time.time()
    env.use_repo()
    mod = find_module(pid)

    if a.replay:
        data = json.load(open(a.replay))
        case = data["case"] if isinstance(data, dict) and "case" in data else data
        fails = run_replay_case(mod, case)
        for sig, what in fails:
            print("replay failure sig=%s: %s" % (sig, what))
        if fails:
            print("VIOLATION property=%s replay=%s" % (pid, os.path.abspath(a.replay)))
            return 1
        print("replay passed: property %s holds on %s" % (pid, a.replay))
        return 0

    total = Acc()
    # 1. committed regression corpus (shrunk earlier failures) is replayed first
    corpus = sorted(glob.glob(os.path.join(HERE, "replays", pid, "*.json")))
    for path in corpus:
        data = json.load(open(path))
        case = data["case"] if isinstance(data, dict) and "case" in data else data
        fails = run_replay_case(mod, case)
        total.case(key=("replay", os.path.basename(path)), nontrivial=True, classes=["replayed-corpus"])
        for sig, what in fails:
            total.fail(sig, "[corpus %s] %s" % (os.path.basename(path), what), case)

    # import ioflo once in the parent so forked workers do not each recompile it (-B: no .pyc);
    # failures are left to the workers / the check itself to report
    if getattr(mod, "IMPORTS_IOFLO", True):
        try:
            import ioflo  # noqa: F401
            env.quiet_ioflo()
        except BaseException:
            pass

    # 2. generated search, sharded over processes
    shards = list(mod.plan(a.tier))
    procs = a.procs or (8 if a.tier == "quick" else 16)
    procs = max(1, min(procs, len(shards)))
    jobs = [(mod.__name__, s, seed, a.tier) for s in shards]
    cap = getattr(mod, "HARD_CAP_S", {"quick": 900, "thorough": 4 * 3600})[a.tier]
    errors = []
    if procs == 1 or getattr(mod, "INPROCESS", False):
        results = [_work(j) for j in jobs]
    else:
        # keep forked workers from copying the parent's heap page by page: collect once and move
        # everything that exists now out of the garbage collector's reach
        import gc
        gc.collect()
        gc.freeze()
        ctx = multiprocessing.get_context("fork")
        pool = ctx.Pool(procs, maxtasksperchild=1)
        try:
            async_res = [pool.apply_async(_work, (j,)) for j in jobs]
            results = []
            for j, r in zip(jobs, async_res):
                left = cap - (time.time() - t0)
                try:
                    results.append(r.get(timeout=max(1, left)))
                except multiprocessing.TimeoutError:
                    results.append(("error", "shard %r exceeded the hard cap of %ss" % (j[1], cap)))
        finally:
            pool.terminate()
    for kind, val in results:
        if kind == "ok":
            total.merge(val)
        else:
            errors.append(val)
    if errors:
        sys.stderr.write("HARNESS ERROR in check %s:\n%s\n" % (pid, "\n".join(errors)))
        return 2

    # 3. classify failures
    findings = load_findings(pid)
    known_cases = 0
    violations = []
    known_lines = {}
    os.makedirs(os.path.join(EVDIR, "replays"), exist_ok=True)
    for sig in sorted(total.failures):
        matched = None
        for f in findings:
            if f["regex"].search(sig):
                matched = f
                break
        if matched:
            known_cases += total.fail_counts[sig]
            known_lines.setdefault(matched["raw"], matched["what"])
            continue
        f0 = total.failures[sig][0]
        path = os.path.join(EVDIR, "replays", "%s-%d-%d.json" % (pid, seed, len(violations)))
        with open(path, "w") as fh:
            json.dump({"property": pid, "sig": sig, "what": f0.what, "case": f0.case,
                       "cases_with_this_signature": total.fail_counts[sig]}, fh, indent=1, sort_keys=True)
        violations.append((sig, f0.what, path))
    # findings listed in the file are announced whenever their trigger is still reproduced
    for raw, what in known_lines.items():
        print("KNOWN-FINDING: property=%s %s" % (pid, what))

    # 4. evidence
    level = getattr(mod, "LEVEL", "exploration")
    cov = {
        "evaluations": total.evaluations,
        "distinct_nontrivial": len(total.nontrivial),
        "rule": getattr(mod, "RULE", ""),
        "samples": total.samples[:6],
        "classes": dict(sorted(total.classes.items())),
        "known_finding_cases": known_cases,
        "inconclusive_budget_hit": bool(total.budget_hit),
        "replayed_corpus_cases": len(corpus),
        "shards": len(shards),
        "ioflo_imported_from": env.ioflo_tree_check() if getattr(mod, "IMPORTS_IOFLO", True) else env.REPO,
    }
    if total.exhaustive is not None:
        cov["exhaustive"] = bool(total.exhaustive)
    if total.notes:
        cov["notes"] = total.notes
    for k, v in total.extra.items():
        cov.setdefault(k, jsonable(v))
    if violations:
        cov["violation_signatures"] = [{"sig": s, "what": w[:400]} for s, w, _ in violations]
    ev = {
        "property_id": pid, "tier": a.tier, "seed": seed, "level": level, "coverage": cov,
        "assumptions": list(getattr(mod, "ASSUMPTIONS", [])),
        "wall_s": round(time.time() - t0, 2), "violations": len(violations),
    }
    os.makedirs(EVDIR, exist_ok=True)
    tmp = os.path.join(EVDIR, pid + ".json.tmp")
    with open(tmp, "w") as fh:
        json.dump(ev, fh, indent=1, sort_keys=True)
        fh.write("\n")
    os.replace(tmp, os.path.join(EVDIR, pid + ".json"))

    for sig, what, path in violations:
        print("violation sig=%s: %s" % (sig, what[:600]))
        print("VIOLATION property=%s replay=%s" % (pid, path))
    print("%s %s seed=%d: %d cases, %d distinct non-trivial, %d violation signature(s), %d known-finding case(s), %.1fs%s"
          % (pid, a.tier, seed, total.evaluations, len(total.nontrivial), len(violations), known_cases,
             time.time() - t0, " (budget hit: partly inconclusive)" if total.budget_hit else ""))
    return 1 if violations else 0


if __name__ == "__main__":
    try:
        rc = main()
    except SystemExit2 as ex:
        sys.stderr.write("HARNESS ERROR: %s\n" % ex)
        rc = 2
    except SystemExit:
        raise
    except BaseException:
        sys.stderr.write("HARNESS ERROR:\n" + traceback.format_exc())
        rc = 2
    sys.stdout.flush()
    sys.exit(rc)
