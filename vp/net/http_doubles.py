"""Small in-memory socket doubles for driving ioflo's HTTP Valet / Patron without a network
(private to the C29/C32/C33 checks; the shared doubles live in vp/net/doubles.py).

FakeSock implements the part of the socket API that tcp.Incomer / tcp.Client use:
recv raises EAGAIN when nothing is pending, returns b'' after the peer closed (and all
pending bytes were read); send accepts everything into .sent.
"""
import errno
import socket


class FakeSock(object):
    def __init__(self, peer=("127.0.0.1", 40000), name=("127.0.0.1", 8080)):
        self.peer = peer
        self.name = name
        self.inbox = bytearray()    # bytes the far side has sent, not yet received
        self.sent = bytearray()     # bytes written by the ioflo side
        self.peer_closed = False    # far side closed its sending direction
        self.closed = False         # ioflo side closed the socket
        self.shut = False
        self.stall_after = None     # the far side stops reading: once this many bytes were accepted, send would block

    # -- far side (harness) -------------------------------------------------
    def deliver(self, data):
        self.inbox.extend(data)

    def peer_close(self):
        self.peer_closed = True

    # -- socket API used by ioflo --------------------------------------------
    def setblocking(self, flag):
        pass

    def getpeername(self):
        return self.peer

    def getsockname(self):
        return self.name

    def getsockopt(self, *pa):
        return 1 << 20

    def setsockopt(self, *pa):
        pass

    def recv(self, bufsize):
        if self.closed:
            raise OSError(errno.EBADF, "recv on closed fake socket")
        if self.inbox:
            data = bytes(self.inbox[:bufsize])
            del self.inbox[:bufsize]
            return data
        if self.peer_closed:
            return b""
        raise BlockingIOError(errno.EAGAIN, "fake socket would block")

    def send(self, data):
        if self.closed:
            raise OSError(errno.EBADF, "send on closed fake socket")
        if self.stall_after is not None:
            room = self.stall_after - len(self.sent)
            if room <= 0:
                raise BlockingIOError(errno.EAGAIN, "fake socket would block (peer is not reading)")
            data = bytes(data)[:room]
        self.sent.extend(data)
        return len(data)

    def shutdown(self, how=socket.SHUT_RDWR):
        self.shut = True

    def close(self):
        self.closed = True


def make_valet(app, nconn, store=None):
    """-> (valet, [FakeSock...]) a Valet whose tcp Server never touches a real socket:
    serviceAccepts is stubbed and .axes is fed the fake accepted sockets."""
    from ioflo.aio.http import serving
    from ioflo.aio.tcp import Server
    from ioflo.base import storing
    store = store or storing.Store(stamp=0.0)
    servant = Server(store=store, ha=("127.0.0.1", 8080), bufsize=65536)
    servant.serviceAccepts = lambda: None
    valet = serving.Valet(store=store, app=app, servant=servant, name="vp")
    socks = []
    for i in range(nconn):
        ca = ("127.0.0.1", 40001 + i)
        cs = FakeSock(peer=ca, name=("127.0.0.1", 8080))
        socks.append(cs)
        servant.axes.append((cs, ca))
    return valet, socks


def make_patron(store=None, **kwa):
    """-> (patron, FakeSock) a Patron over a tcp Client that is 'connected' to a fake socket."""
    from ioflo.aio.http import clienting
    from ioflo.aio.tcp import Client
    from ioflo.base import storing
    store = store or storing.Store(stamp=0.0)
    client = Client(store=store, ha=("127.0.0.1", 8080), bufsize=65536)
    cs = FakeSock(peer=("127.0.0.1", 8080), name=("127.0.0.1", 40000))
    client.cs = cs
    client.opened = True
    client.connected = True
    client.cutoff = False
    patron = clienting.Patron(store=store, connector=client, **kwa)
    return patron, cs
