"""Kernel-free doubles for the sockets / TLS contexts / serial ports / wire logs that ioflo's
nonblocking transports drive (shared by the C24-C28, C35, C36 checks; no check-specific logic).

Every I/O operation of a double takes its result from a `Script`: a queue of results that the
test (the generator) fills in, plus a default used when the queue is empty. A scripted item is

    WB                    the operation would block: a plain socket raises BlockingIOError(EAGAIN),
                          a TLS socket raises SSLWantReadError (recv, do_handshake) or
                          SSLWantWriteError (send); WANT_READ / WANT_WRITE force one of the two
    FULL                  send / sendto / write: accept everything offered
    an int                send / sendto / write: number of bytes accepted (clamped to what was
                          offered, like the kernel); connect_ex: the returned errno
    bytes                 recv / read: the chunk that arrives (split when longer than the bufsize
                          asked for; the rest stays at the head of the script); b"" (EOF) = peer closed
    (bytes, addr)         recvfrom: datagram and source address
    an exception instance or class      raised from the operation (see oserr(), tls_eof(), ...)
    a zero-argument callable             called; its result is interpreted as above

Doubles record what was done to them (`log`, `sent`, `closed`, `shuts`, ...) and never touch
the kernel. After `close()` I/O raises OSError(EBADF); after `shutdown(SHUT_WR)` send raises
EPIPE and after `shutdown(SHUT_RD)` recv returns b"", like a real stream socket.

How the transports are wired to doubles (nothing in ioflo needs to be changed):

    Client:      c = Client(ha=HA); c.cs = FakeSocket(peer=HA); c.connect()       # connect_ex -> 0
    ClientTls:   c = ClientTls(context=FakeSSLContext(), ha=HA); c.cs = FakeSocket(peer=HA); c.connect()
    Incomer:     Incomer(ha=SA, ca=CA, bs=N, cs=FakeSocket(peer=CA, sock=SA))
    IncomerTls:  IncomerTls(context=FakeSSLContext(), ha=SA, ca=CA, bs=N, cs=FakeSocket(...))
                 (ix.cs is then a FakeSSLSocket whose .raw is the FakeSocket)
    Server[Tls]: s = Server(ha=SA) / ServerTls(context=FakeSSLContext(), ha=SA);
                 s.ss = FakeListenSocket(sock=s.eha); s.opened = True; s.ss.push(FakeSocket(peer=CA, sock=s.eha))
    SocketUdpNb: u = SocketUdpNb(ha=SA); u.ss = FakeSocket(sock=SA); u.opened = True
    Driver:      Driver(server=FakeSerialServer())   or
                 nb = SerialNb(port="fake"); nb.serial = FakeSerialPort(); nb.opened = True; Driver(server=nb)
    code that calls socket.socket() itself (open/reopen, stacks creating their handler):
                 with patched(clienting, "socket", SocketModuleProxy(lambda *a, **k: FakeSocket())): ...

The builders at the end of the module do exactly this wiring: client_on_double(tls=..),
incomer_on_double(tls=..), server_on_double(tls=..), udp_on_double(). exc_site(ex) gives a
root-cause signature 'Type@file.py:function' for an unexpected exception.
"""
import contextlib
import errno
import os
import socket
import ssl
import traceback
from collections import deque

WB = "wb"
WANT_READ = "want_read"
WANT_WRITE = "want_write"
FULL = "full"
EOF = b""
_BLOCKS = (WB, WANT_READ, WANT_WRITE)


# ------------------------------------------------------------------ exceptions as the platform makes them
def oserr(code):
    """OSError for errno `code` exactly as the socket layer raises it (OSError picks the
    subclass: ConnectionResetError, BrokenPipeError, BlockingIOError, ...); args == (code, text)."""
    return OSError(code, os.strerror(code))


def tls_eof():
    """ssl.SSLEOFError as raised by SSLSocket.send/do_handshake when the peer drops the
    connection without close_notify; args[0] == errno == ssl.SSL_ERROR_EOF."""
    return ssl.SSLEOFError(ssl.SSL_ERROR_EOF, "EOF occurred in violation of protocol (_ssl.c:0)")


def tls_want_read():
    return ssl.SSLWantReadError(ssl.SSL_ERROR_WANT_READ, "The operation did not complete (read) (_ssl.c:0)")


def tls_want_write():
    return ssl.SSLWantWriteError(ssl.SSL_ERROR_WANT_WRITE, "The operation did not complete (write) (_ssl.c:0)")


def tls_error(text="[SSL: BAD_RECORD] fake protocol error (_ssl.c:0)"):
    """A generic fatal ssl.SSLError (errno SSL_ERROR_SSL == 1)."""
    return ssl.SSLError(ssl.SSL_ERROR_SSL, text)


def exc_site(ex, package="ioflo"):
    """'TypeName@file.py:function' of the innermost traceback frame inside `package`
    (root-cause signature for an unexpected exception); 'TypeName@?' if none."""
    site = "?"
    for fs in traceback.extract_tb(ex.__traceback__):
        if (os.sep + package + os.sep) in fs.filename:
            site = "%s:%s" % (os.path.basename(fs.filename), fs.name)
    return "%s@%s" % (type(ex).__name__, site)


# ------------------------------------------------------------------ scripts
class Script(object):
    """Queue of scripted results for one operation + default when the queue is empty."""

    def __init__(self, items=(), default=None):
        self.items = deque(items)
        self.default = default
        self.used = 0            # how many scripted (non-default) items were consumed

    def push(self, *items):
        self.items.extend(items)
        return self

    def unread(self, item):
        self.items.appendleft(item)
        self.used -= 1

    def next(self):
        if self.items:
            self.used += 1
            item = self.items.popleft()
        else:
            item = self.default
        while callable(item) and not isinstance(item, type):
            item = item()
        if isinstance(item, type) and issubclass(item, BaseException):
            item = item()
        return item

    def __len__(self):
        return len(self.items)


# ------------------------------------------------------------------ stream / datagram socket
class FakeSocket(object):
    """Double of a nonblocking socket.socket (stream or datagram).

    peer / sock   what getpeername() / getsockname() return (peer None -> ENOTCONN)
    scripts       dict op name -> Script for: send recv sendto recvfrom connect_ex do_handshake
                  (keyword arguments of the same names pre-fill them; `<op>_default=` sets defaults).
                  Defaults: send/sendto FULL, recv/recvfrom WB, connect_ex 0, do_handshake success.
    sent          bytearray of every byte accepted by send()
    sentto        list of (bytes accepted, address) for sendto()
    log           list of tuples, one per call: ("send", offered bytes, result), ("recv", bufsize,
                  result), ("shutdown", how), ("close",), ("connect_ex", addr, result), ...
                  where result is the returned value or the exception instance raised
    closed, shuts (list of `how`), blocking, opts
    """
    tls = False

    def __init__(self, peer=("127.0.0.1", 50001), sock=("127.0.0.1", 56000), name="", **scripts):
        self.name = name
        self.peer = peer
        self.sock = sock
        self.scripts = {
            "send": Script(default=FULL), "sendto": Script(default=FULL),
            "recv": Script(default=WB), "recvfrom": Script(default=WB),
            "connect_ex": Script(default=0), "do_handshake": Script(default=None),
        }
        for key, val in scripts.items():
            if key.endswith("_default"):
                self.scripts[key[:-8]].default = val
            else:
                self.scripts[key].push(*val)
        self.sent = bytearray()
        self.sentto = []
        self.log = []
        self.closed = False
        self.shuts = []
        self.shutdown_error = None     # errno that shutdown() fails with (ENOTCONN once the peer has reset the connection)
        self.blocking = True
        self.timeout = None
        self.opts = {}
        self.handshaken = False

    def __repr__(self):
        return "<FakeSocket %s peer=%r%s>" % (self.name, self.peer, " closed" if self.closed else "")

    # -- helpers
    def script(self, op):
        return self.scripts[op]

    def calls(self, op):
        """Log entries of operation `op`."""
        return [e for e in self.log if e[0] == op]

    def was_shut(self):
        """True once shutdown() (any direction) or close() has been called."""
        return bool(self.shuts) or self.closed

    def _alive(self, op, *detail):
        if self.closed:
            ex = oserr(errno.EBADF)
            self.log.append((op,) + detail + (ex,))
            raise ex

    def _fail(self, entry, ex):
        self.log.append(entry + (ex,))
        if isinstance(ex, OSError) and ex.errno in (errno.ECONNRESET, errno.ETIMEDOUT, errno.ECONNREFUSED):
            self.peer = None        # the connection is gone: the kernel answers getpeername() with ENOTCONN from now on
        raise ex

    def _blocked(self, token, op, tls):
        if not tls:
            return oserr(errno.EAGAIN)
        if token == WANT_WRITE or (token == WB and op in ("send", "sendto")):
            return tls_want_write()
        return tls_want_read()

    def _count(self, op, data, entry, tls):
        item = self.scripts[op].next()
        if item in _BLOCKS:
            self._fail(entry, self._blocked(item, op, tls))
        if isinstance(item, BaseException):
            self._fail(entry, item)
        n = len(data) if item == FULL else max(0, min(int(item), len(data)))
        self.log.append(entry + (n,))
        return n

    # -- stream I/O
    def send(self, data, flags=0, _tls=False):
        entry = ("send", bytes(data))
        self._alive(*entry)
        if socket.SHUT_WR in self.shuts or socket.SHUT_RDWR in self.shuts:
            self._fail(entry, oserr(errno.EPIPE))
        n = self._count("send", data, entry, _tls)
        self.sent.extend(bytes(data[:n]))
        return n

    def recv(self, bufsize, flags=0, _tls=False):
        entry = ("recv", bufsize)
        self._alive(*entry)
        if socket.SHUT_RD in self.shuts or socket.SHUT_RDWR in self.shuts:
            self.log.append(entry + (b"",))
            return b""
        script = self.scripts["recv"]
        item = script.next()
        if item is None or item in _BLOCKS:
            self._fail(entry, self._blocked(item or WB, "recv", _tls))
        if isinstance(item, BaseException):
            self._fail(entry, item)
        data = bytes(item)
        if len(data) > bufsize:
            script.unread(data[bufsize:])
            data = data[:bufsize]
        self.log.append(entry + (data,))
        return data

    # -- datagram I/O
    def sendto(self, data, addr):
        entry = ("sendto", bytes(data), addr)
        self._alive(*entry)
        n = self._count("sendto", data, entry, False)
        self.sentto.append((bytes(data[:n]), addr))
        return n

    def recvfrom(self, bufsize, flags=0):
        entry = ("recvfrom", bufsize)
        self._alive(*entry)
        item = self.scripts["recvfrom"].next()
        if item is None or item in _BLOCKS:
            self._fail(entry, oserr(errno.EAGAIN))
        if isinstance(item, BaseException):
            self._fail(entry, item)
        data, addr = item
        self.log.append(entry + ((bytes(data[:bufsize]), addr),))
        return bytes(data[:bufsize]), addr      # a datagram longer than bufsize is truncated

    # -- connection management
    def connect_ex(self, addr):
        entry = ("connect_ex", addr)
        self._alive(*entry)
        item = self.scripts["connect_ex"].next()
        if isinstance(item, BaseException):
            self._fail(entry, item)
        if item in (0, errno.EISCONN) and self.peer is None:
            self.peer = addr
        self.log.append(entry + (item,))
        return item

    def do_handshake(self, block=False, _tls=True):
        entry = ("do_handshake",)
        self._alive(*entry)
        item = self.scripts["do_handshake"].next()
        if item in _BLOCKS:
            self._fail(entry, self._blocked(item, "do_handshake", True))
        if isinstance(item, BaseException):
            self._fail(entry, item)
        self.handshaken = True
        self.log.append(entry + (None,))

    def shutdown(self, how):
        self._alive("shutdown", how)
        self.shuts.append(how)
        self.log.append(("shutdown", how))
        if self.shutdown_error is not None:
            raise oserr(self.shutdown_error)

    def close(self):
        self.closed = True
        self.log.append(("close",))

    def getpeername(self):
        self._alive("getpeername")
        if self.peer is None:
            raise oserr(errno.ENOTCONN)
        return self.peer

    def getsockname(self):
        self._alive("getsockname")
        return self.sock

    def setblocking(self, flag):
        self.blocking = bool(flag)
        self.log.append(("setblocking", flag))

    def settimeout(self, value):
        self.timeout = value
        self.blocking = value is None

    def fileno(self):
        return -1 if self.closed else 10000 + (id(self) >> 4) % 10000

    def setsockopt(self, level, opt, value):
        self.opts[(level, opt)] = value

    def getsockopt(self, level, opt, *a):
        return self.opts.get((level, opt), 0)

    def bind(self, addr):
        self._alive("bind", addr)
        host, port = addr[0], addr[1]
        self.sock = (host or "0.0.0.0", port or 49152)
        self.log.append(("bind", addr))

    def listen(self, backlog=0):
        self.log.append(("listen", backlog))


class FakeListenSocket(FakeSocket):
    """Listening socket: accept() hands out the pushed (FakeSocket, address) pairs in order,
    then raises BlockingIOError(EAGAIN). push(sock[, addr]) queues a connection (addr defaults
    to sock.peer); an exception instance can be pushed instead to make accept() raise it."""

    def __init__(self, sock=("127.0.0.1", 56000), **kw):
        super(FakeListenSocket, self).__init__(peer=None, sock=sock, **kw)
        self.pending = deque()
        self.accepted = []

    def push(self, conn, addr=None):
        if isinstance(conn, BaseException):
            self.pending.append(conn)
        else:
            self.pending.append((conn, addr if addr is not None else conn.peer))
        return conn

    def accept(self):
        self._alive("accept")
        if not self.pending:
            self._fail(("accept",), oserr(errno.EAGAIN))
        item = self.pending.popleft()
        if isinstance(item, BaseException):
            self._fail(("accept",), item)
        self.accepted.append(item)
        self.log.append(("accept", item[1]))
        return item


# ------------------------------------------------------------------ TLS
class FakeSSLSocket(object):
    """What FakeSSLContext.wrap_socket returns: a TLS view of a FakeSocket (`.raw`).

    All state, scripts and records live in the raw FakeSocket (so the test keeps observing the
    socket it created); only the would-block errors differ: SSLWantReadError / SSLWantWriteError.
    do_handshake() takes results from raw.scripts["do_handshake"] (default: success)."""
    tls = True

    def __init__(self, raw, context, server_side, server_hostname):
        self.raw = raw
        self.context = context
        self.server_side = server_side
        self.server_hostname = server_hostname

    def __repr__(self):
        return "<FakeSSLSocket of %r>" % (self.raw,)

    def send(self, data, flags=0):
        return self.raw.send(data, flags, _tls=True)

    def recv(self, bufsize, flags=0):
        return self.raw.recv(bufsize, flags, _tls=True)

    def do_handshake(self, block=False):
        return self.raw.do_handshake()

    def __getattr__(self, name):       # shutdown close getpeername setblocking fileno log sent ...
        return getattr(self.raw, name)


class FakeSSLContext(object):
    """Double of ssl.SSLContext accepted by ClientTls / IncomerTls / ServerTls (context=...).
    wrap_socket() returns a FakeSSLSocket around the given FakeSocket and records it in `.wrapped`."""

    def __init__(self, verify_mode=ssl.CERT_NONE, check_hostname=False):
        self.verify_mode = verify_mode
        self.check_hostname = check_hostname
        self.options = 0
        self.wrapped = []
        self.calls = []

    def wrap_socket(self, sock, server_side=False, do_handshake_on_connect=True,
                    suppress_ragged_eofs=True, server_hostname=None, session=None):
        if isinstance(sock, FakeSSLSocket) or not isinstance(sock, FakeSocket):
            raise TypeError("FakeSSLContext.wrap_socket needs a FakeSocket, got %r" % (sock,))
        wrapped = FakeSSLSocket(sock, self, server_side, server_hostname)
        self.wrapped.append(wrapped)
        if do_handshake_on_connect and sock.peer is not None:
            wrapped.do_handshake()
        return wrapped

    def load_default_certs(self, purpose=None):
        self.calls.append(("load_default_certs", purpose))

    def load_verify_locations(self, cafile=None, capath=None, cadata=None):
        self.calls.append(("load_verify_locations", cafile))

    def load_cert_chain(self, certfile=None, keyfile=None, password=None):
        self.calls.append(("load_cert_chain", certfile, keyfile))

    def set_ciphers(self, spec):
        self.calls.append(("set_ciphers", spec))


# ------------------------------------------------------------------ wire log
class RecordingWireLog(object):
    """WireLog double: records (address, bytes) per writeTx / writeRx call in .txs / .rxs and,
    when `inner` (a real ioflo WireLog, e.g. WireLog(buffify=True) after reopen()) is given,
    forwards every call to it so the real buffer can be compared as well."""

    def __init__(self, inner=None):
        self.inner = inner
        self.rx = True
        self.tx = True
        self.txs = []
        self.rxs = []

    def writeTx(self, da, data):
        self.txs.append((da, bytes(data)))
        if self.inner is not None:
            self.inner.writeTx(da, data)

    def writeRx(self, sa, data):
        self.rxs.append((sa, bytes(data)))
        if self.inner is not None:
            self.inner.writeRx(sa, data)

    def tx_bytes(self):
        return b"".join(d for _, d in self.txs)

    def rx_bytes(self):
        return b"".join(d for _, d in self.rxs)

    def reopen(self, **kw):
        return True if self.inner is None else self.inner.reopen(**kw)

    def close(self):
        if self.inner is not None:
            self.inner.close()


# ------------------------------------------------------------------ serial
class FakeSerialPort(object):
    """Double of pyserial's serial.Serial as used by serialing.SerialNb (assign to `.serial`).
    Scripts: "write" (int / FULL / WB -> OSError(EAGAIN) / exception; default FULL) and
    "read" (bytes chunk, b"" or WB = nothing available; default b"")."""

    def __init__(self, write=(), read=(), write_default=FULL, read_default=b""):
        self.scripts = {"write": Script(write, write_default), "read": Script(read, read_default)}
        self.written = bytearray()
        self.log = []
        self.closed = False

    def write(self, data):
        item = self.scripts["write"].next()
        if item in _BLOCKS:
            item = oserr(errno.EAGAIN)
        if isinstance(item, BaseException):
            self.log.append(("write", bytes(data), item))
            raise item
        n = len(data) if item == FULL else max(0, min(int(item), len(data)))
        self.written.extend(bytes(data[:n]))
        self.log.append(("write", bytes(data), n))
        return n

    def read(self, size=1):
        script = self.scripts["read"]
        item = script.next()
        if item is None or item in _BLOCKS:
            item = b""
        if isinstance(item, BaseException):
            self.log.append(("read", size, item))
            raise item
        data = bytes(item)
        if len(data) > size:
            script.unread(data[size:])
            data = data[:size]
        self.log.append(("read", size, data))
        return data

    def reset_input_buffer(self):
        self.log.append(("reset_input_buffer",))

    def reset_output_buffer(self):
        self.log.append(("reset_output_buffer",))

    def close(self):
        self.closed = True
        self.log.append(("close",))


class FakeSerialServer(object):
    """Double of the nonblocking device server that serialing.Driver drives (DeviceNb / SerialNb
    interface: .opened, send(data) -> count accepted, receive() -> bytes, open/reopen/close).
    Scripts: "send" (int / FULL / WB -> 0 accepted, as DeviceNb reports EAGAIN / exception) and
    "receive" (bytes chunk; b"" or WB = nothing available)."""

    def __init__(self, send=(), receive=(), send_default=FULL, receive_default=b"", bs=1024):
        self.scripts = {"send": Script(send, send_default), "receive": Script(receive, receive_default)}
        self.bs = bs
        self.opened = True
        self.sent = bytearray()
        self.log = []

    def send(self, data=b"\n"):
        item = self.scripts["send"].next()
        if item in _BLOCKS:
            item = 0
        if isinstance(item, BaseException):
            self.log.append(("send", bytes(data), item))
            raise item
        n = len(data) if item == FULL else max(0, min(int(item), len(data)))
        self.sent.extend(bytes(data[:n]))
        self.log.append(("send", bytes(data), n))
        return n

    def receive(self):
        script = self.scripts["receive"]
        item = script.next()
        if item is None or item in _BLOCKS:
            item = b""
        if isinstance(item, BaseException):
            self.log.append(("receive", item))
            raise item
        data = bytes(item)
        if len(data) > self.bs:
            script.unread(data[self.bs:])
            data = data[:self.bs]
        self.log.append(("receive", data))
        return data

    def open(self, *a, **k):
        self.opened = True
        return True

    def reopen(self):
        self.close()
        return self.open()

    def close(self):
        self.opened = False


# ------------------------------------------------------------------ replacing socket.socket inside an ioflo module
class SocketModuleProxy(object):
    """Stand-in for the `socket` module inside one ioflo module: `.socket(...)` calls `factory`
    (which returns a FakeSocket), every other attribute (error, SHUT_RDWR, AF_INET, ...) comes from
    the real module. Use with patched(): code such as Client.open()/reopen(), Acceptor.open() or a
    stack's createHandler() + handler.reopen() then builds doubles instead of kernel sockets."""

    def __init__(self, factory, real=socket):
        self._factory = factory
        self._real = real
        self.created = []

    def socket(self, *a, **k):
        s = self._factory(*a, **k)
        self.created.append(s)
        return s

    def __getattr__(self, name):
        return getattr(self._real, name)


@contextlib.contextmanager
def patched(obj, attr, value):
    """Temporarily set obj.attr = value (restored on exit, also on exceptions)."""
    old = getattr(obj, attr)
    setattr(obj, attr, value)
    try:
        yield value
    finally:
        setattr(obj, attr, old)


# ------------------------------------------------------------------ real ioflo transports wired to doubles
HA = ("127.0.0.1", 56000)      # default server side address used by the builders
CA = ("127.0.0.1", 50001)      # default client side (peer) address


def _store():
    from ioflo.aid.timing import Stamper
    return Stamper(stamp=0.0)    # light stand-in for a Store (timers only read .stamp), as TcpClientStack passes


def client_on_double(tls=False, ha=HA, ca=CA, connect=True, **kw):
    """(client, sock): a real Client / ClientTls whose .cs is a FakeSocket (for ClientTls wrapped by a
    FakeSSLContext on connect, so client.cs.raw is sock). connect=True drives connect() once
    (connect_ex -> 0, handshake script default success). Extra keywords go to the constructor."""
    from ioflo.aio.tcp import clienting
    kw.setdefault("store", _store())
    sock = FakeSocket(peer=ha, sock=ca)
    if tls:
        client = clienting.ClientTls(context=FakeSSLContext(), ha=ha, **kw)
    else:
        client = clienting.Client(ha=ha, **kw)
    client.cs = sock
    if connect and not client.connect():
        raise AssertionError("harness: client did not connect on a default double")
    return client, sock


def incomer_on_double(tls=False, ha=HA, ca=CA, bs=8096, handshake=True, **kw):
    """(incomer, sock): a real Incomer / IncomerTls on a FakeSocket accepted from `ca`."""
    from ioflo.aio.tcp import serving
    kw.setdefault("store", _store())
    sock = FakeSocket(peer=ca, sock=ha)
    if tls:
        ix = serving.IncomerTls(context=FakeSSLContext(), ha=ha, ca=ca, bs=bs, cs=sock, **kw)
        if handshake and not ix.serviceHandshake():
            raise AssertionError("harness: IncomerTls handshake on a default double failed")
    else:
        ix = serving.Incomer(ha=ha, ca=ca, bs=bs, cs=sock, **kw)
    return ix, sock


def server_on_double(tls=False, ha=HA, **kw):
    """(server, listen): a real Server / ServerTls listening on a FakeListenSocket (never opened
    for real). Queue connections with listen.push(FakeSocket(peer=<ca>, sock=server.eha))."""
    from ioflo.aio.tcp import serving
    kw.setdefault("store", _store())
    if tls:
        server = serving.ServerTls(context=FakeSSLContext(), ha=ha, **kw)
    else:
        server = serving.Server(ha=ha, **kw)
    listen = FakeListenSocket(sock=server.eha)
    server.ss = listen
    server.opened = True
    return server, listen


def udp_on_double(ha=HA, **kw):
    """(SocketUdpNb, sock): a real udp handler whose .ss is a FakeSocket."""
    from ioflo.aio.udp import udping
    handler = udping.SocketUdpNb(ha=ha, **kw)
    sock = FakeSocket(peer=None, sock=ha)
    handler.ss = sock
    handler.opened = True
    return handler, sock
