"""Private socket doubles for C27 (reconnection) and C28 (idle timeouts).

Two small simulated networks, both driven by the *store* time of the case (never the wall
clock):

* ClientNet / FakeClientSocket: what `socket.socket()` returns inside
  ioflo.aio.tcp.clienting while a case runs (the module's `socket` name is replaced by a
  SocketShim for the duration of the case). connect_ex() results follow the server
  mode of the net (up / refuse / blackhole) at the simulated time of the call.
* FakeListen / FakeAccepted / FakeTlsContext: server side. A Server/ServerTls gets a
  FakeListen as `.ss`; accepted doubles log every recv/send that moved bytes with the store
  stamp at which ioflo performed it.

Only errnos that the ioflo code documents as handled are produced (EAGAIN, EINPROGRESS,
EALREADY, ECONNREFUSED, EINVAL, ECONNRESET, EISCONN; TLS: SSL_ERROR_WANT_READ/WRITE).
"""
import contextlib
import errno
import socket as _socket
import ssl

UP = "up"
REFUSE = "refuse"          # nobody listening: RST -> ECONNREFUSED
BLACKHOLE = "blackhole"    # SYN lost: the attempt hangs in EINPROGRESS/EALREADY for ever


def _oserr(code):
    return OSError(code, errno.errorcode.get(code, str(code)))


class SocketShim(object):
    """Stands in for the `socket` module inside one ioflo module: everything is the real
    module except the socket() constructor."""

    def __init__(self, factory):
        self._factory = factory

    def socket(self, *pa, **kwa):
        return self._factory(*pa, **kwa)

    def __getattr__(self, name):
        return getattr(_socket, name)


@contextlib.contextmanager
def patched_socket(module, factory):
    old = module.socket
    module.socket = SocketShim(factory)
    try:
        yield
    finally:
        module.socket = old


# ------------------------------------------------------------------------------ client side
class FakeClientSocket(object):
    """One client TCP socket of a ClientNet.

    state: new -> progress -> connected | failed ; any -> closed
    latency L = number of connect_ex calls that report "not yet" (EINPROGRESS, then
    EALREADY) before a connect to a listening server reports success.
    """

    def __init__(self, net, port, latency):
        self.net = net
        self.port = port
        self.latency = latency
        self.state = "new"
        self.waits = 0              # "not yet" results still to report
        self.syn_mode = None        # server mode when the SYN was sent
        self.created = net.store.stamp
        self.cut = None             # None | "eof" | "rst"
        self.rst_reported = False
        self.rx = bytearray()
        self.sent = bytearray()
        self.connect_calls = 0
        self.use_after_close = 0
        self.ever_connected = False

    # -- plumbing ioflo calls in open()
    def setsockopt(self, *pa):
        self._live()

    def getsockopt(self, *pa):
        self._live()
        return 1 << 20

    def setblocking(self, flag):
        self._live()

    def fileno(self):
        return -1

    def _live(self):
        if self.state == "closed":
            self.use_after_close += 1
            raise _oserr(errno.EBADF)

    # -- addresses
    def getsockname(self):
        self._live()
        return (self.net.server_ha[0], self.port)

    def getpeername(self):
        self._live()
        if self.state != "connected":
            raise _oserr(errno.ENOTCONN)
        return (self.net.server_ha[0], self.net.server_ha[1])

    # -- connecting
    def connect_ex(self, ha):
        self._live()
        self.connect_calls += 1
        self.net.connect_log.append((self.net.store.stamp, self.port))
        mode = self.net.mode
        if self.state == "connected":
            return errno.EISCONN
        if self.state == "failed":
            if self.net.bsd:
                return errno.EINVAL      # BSD: a socket whose connect failed is unusable
            self.state = "new"          # Linux: the same socket may try again
        if self.state == "new":
            self.syn_mode = mode
            if mode == UP:
                if self.latency == 0:
                    return self._established()
                self.state = "progress"
                self.waits = self.latency - 1
                return errno.EINPROGRESS
            if mode == REFUSE:
                if self.net.refuse_immediate:
                    self.state = "failed"
                    return errno.ECONNREFUSED
                self.state = "progress"
                self.waits = 0
                return errno.EINPROGRESS
            self.state = "progress"      # blackhole
            return errno.EINPROGRESS
        # progress
        if self.syn_mode == BLACKHOLE:
            return errno.EALREADY        # for ever (until the client gives the socket up)
        if self.syn_mode == REFUSE:
            self.state = "failed"        # RST arrived long ago
            return errno.ECONNREFUSED
        if self.waits > 0:
            self.waits -= 1
            return errno.EALREADY
        if mode == UP:
            return self._established()
        if mode == REFUSE:
            self.state = "failed"
            return errno.ECONNREFUSED
        self.syn_mode = BLACKHOLE
        return errno.EALREADY

    def _established(self):
        self.state = "connected"
        self.ever_connected = True
        self.net.established.append(self)
        return 0

    # -- data
    def recv(self, n):
        self._live()
        if self.state != "connected":
            raise _oserr(errno.ENOTCONN)
        if self.rx:
            data = bytes(self.rx[:n])
            del self.rx[:n]
            return data
        if self.cut == "rst" and not self.rst_reported:
            self.rst_reported = True
            raise _oserr(errno.ECONNRESET)
        if self.cut:
            return b""
        raise BlockingIOError(errno.EAGAIN, "EAGAIN")

    def send(self, data):
        self._live()
        if self.state != "connected":
            raise _oserr(errno.ENOTCONN)
        if self.cut == "rst" or (self.cut == "eof" and self.rst_reported):
            self.rst_reported = True
            raise _oserr(errno.ECONNRESET)
        if self.cut == "eof":
            self.rst_reported = True     # the peer answers this segment with RST
            return len(data)
        self.sent.extend(data)
        return len(data)

    def shutdown(self, how):
        self._live()
        if self.state != "connected":
            raise _oserr(errno.ENOTCONN)

    def close(self):
        if self.state != "closed":
            if self in self.net.established:
                self.net.established.remove(self)
            self.state = "closed"
            self.net.close_log.append((self.net.store.stamp, self.port))


class ClientNet(object):
    """Simulated network seen by client sockets: one server address whose mode changes by
    schedule; `latencies` (cycled) gives each new socket its connect latency."""

    def __init__(self, store, server_ha, latencies=(1,), refuse_immediate=False, bsd=False):
        self.store = store
        self.server_ha = server_ha
        self.latencies = list(latencies) or [1]
        self.refuse_immediate = refuse_immediate
        self.bsd = bsd
        self.mode = REFUSE
        self.socks = []
        self.established = []
        self.connect_log = []
        self.close_log = []
        self._port = 40000

    def factory(self, family=None, kind=None, *pa, **kwa):
        self._port += 1
        sock = FakeClientSocket(self, self._port, self.latencies[len(self.socks) % len(self.latencies)])
        self.socks.append(sock)
        return sock

    @property
    def newest(self):
        return self.socks[-1] if self.socks else None

    def failed_attempts(self):
        """attempts that the network made fail: refused, or hanging in a black hole"""
        return sum(1 for s in self.socks if s.connect_calls and not s.ever_connected and
                   (s.state == "failed" or s.syn_mode in (REFUSE, BLACKHOLE)))

    def set_mode(self, mode, flavour="eof"):
        """Server goes up or down. Going down kills the established connections."""
        self.mode = mode
        if mode != UP:
            self.cut_all(flavour)

    def cut_all(self, flavour="eof"):
        n = 0
        for sock in list(self.established):
            if sock.cut is None:
                sock.cut = flavour
                n += 1
        return n

    def push(self, data):
        n = 0
        for sock in self.established:
            if sock.cut is None:
                sock.rx.extend(data)
                n += 1
        return n


# ------------------------------------------------------------------------------ server side
class FakeAccepted(object):
    """Server side accepted socket. The harness feeds `rx`; every recv/send that moved bytes
    is logged as (stamp, 'rx'|'tx', n) with the store stamp at which ioflo did it."""

    def __init__(self, store, ha, ca, sendcap=None):
        self.store = store
        self.ha = ha
        self.ca = ca
        self.rx = bytearray()
        self.eof = False
        self.sendcap = sendcap       # None: unlimited; n: at most n bytes per round
        self.budget = sendcap
        self.log = []
        self.sent = bytearray()
        self.received = 0
        self.closed_at = None
        self.accepted_at = None
        self.use_after_close = 0

    def _live(self):
        if self.closed_at is not None:
            self.use_after_close += 1
            raise _oserr(errno.EBADF)

    def new_round(self):
        self.budget = self.sendcap

    def setblocking(self, flag):
        self._live()

    def getsockname(self):
        return self.ha

    def getpeername(self):
        return self.ca

    def fileno(self):
        return -1

    def recv(self, n):
        self._live()
        if self.rx:
            data = bytes(self.rx[:n])
            del self.rx[:n]
            self.received += len(data)
            self.log.append((self.store.stamp, "rx", len(data)))
            return data
        if self.eof:
            return b""
        raise BlockingIOError(errno.EAGAIN, "EAGAIN")

    def send(self, data):
        self._live()
        n = len(data)
        if self.budget is not None:
            n = min(n, self.budget)
            self.budget -= n
        if n == 0 and len(data):
            raise BlockingIOError(errno.EAGAIN, "EAGAIN")
        if n:
            self.sent.extend(data[:n])
            self.log.append((self.store.stamp, "tx", n))
        return n

    def shutdown(self, how):
        self._live()

    def close(self):
        if self.closed_at is None:
            self.closed_at = self.store.stamp


class FakeTlsSocket(object):
    """What FakeTlsContext.wrap_socket returns: the same byte pipe as the raw double, with
    the TLS way of saying "would block" and a handshake that completes at once."""

    def __init__(self, raw):
        self.raw = raw

    def do_handshake(self):
        self.raw._live()

    def setblocking(self, flag):
        self.raw.setblocking(flag)

    def getsockname(self):
        return self.raw.getsockname()

    def getpeername(self):
        return self.raw.getpeername()

    def fileno(self):
        return -1

    def recv(self, n):
        try:
            return self.raw.recv(n)
        except BlockingIOError:
            raise ssl.SSLWantReadError(ssl.SSL_ERROR_WANT_READ, "The operation did not complete (read)")

    def send(self, data):
        try:
            return self.raw.send(data)
        except BlockingIOError:
            raise ssl.SSLWantWriteError(ssl.SSL_ERROR_WANT_WRITE, "The operation did not complete (write)")

    def shutdown(self, how):
        self.raw.shutdown(how)

    def close(self):
        self.raw.close()


class FakeTlsContext(object):
    verify_mode = ssl.CERT_NONE
    check_hostname = False

    def wrap_socket(self, sock, server_side=False, do_handshake_on_connect=True, **kwa):
        return FakeTlsSocket(sock)


class FakeListen(object):
    """Listen socket double: accept() hands out queued (cs, ca) pairs."""

    def __init__(self, store, ha):
        self.store = store
        self.ha = ha
        self.queue = []
        self.closed = False

    def accept(self):
        if self.queue:
            cs = self.queue.pop(0)
            cs.accepted_at = self.store.stamp
            return cs, cs.ca
        raise BlockingIOError(errno.EAGAIN, "EAGAIN")

    def getsockname(self):
        return self.ha

    def shutdown(self, how):
        pass

    def close(self):
        self.closed = True
