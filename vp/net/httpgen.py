"""HTTP/1.x message and SSE stream grammar: Hypothesis strategies that CONSTRUCT messages
together with their ground truth, so that an oracle never has to re-parse the wire bytes.

Everything produced here is JSON-like (dict / list / str / int / bytes) so that a generated
value is directly a replayable case.

Message spec (dict) as produced by `message(side, small)`:
    side      "request" | "response"
    wire      bytes of the complete message
    leftover  bytes that follow the message on the connection (first bytes of a next message)
    reqmethod method of the request a response belongs to ("GET" / "HEAD") (responses)
    interim   number of "100 Continue" interim responses in front of the final response
    start     request: {"method", "url", "version": [1, x], "form", "path", "query",
                        "scheme", "hostname", "port"}
              response: {"version": [1, x], "status", "reason"}
    headers   [[name, value], ...] as sent (names in sent case, values latin-1 str, no OWS)
    framing   "none" | "length" | "chunked" | "close"
    body      bytes of the decoded body
    trailers  [[name, value], ...]
    parms     [[name, value-or-None], ...] chunk extension parameters (str)
    marks     [[start, end, label], ...] structural regions of `wire`
              labels: "startline", "hname", "crlf", "chunksize", "hsep", "hvalue", "chunkend"
Only well-formed HTTP/1.x is produced (RFC 7230 grammar; CRLF line ends; unique header
names; no obsolete line folding; no trailing whitespace in field values).
"""
import string

from hypothesis import strategies as st

CRLF = b"\r\n"

TOKEN = "!#$%&'*+-.^_`|~" + string.digits + string.ascii_letters
VCHAR = "".join(chr(c) for c in range(0x21, 0x7F))
OBS = "".join(chr(c) for c in range(0xA1, 0x100))      # obs-text without NEL/NBSP
UNRESERVED = string.ascii_letters + string.digits + "-._~"
SUBDELIMS = "!$&'()*+,;="
METHODS = ("GET", "HEAD", "PUT", "PATCH", "POST", "DELETE", "OPTIONS", "TRACE", "CONNECT")

# headers that steer the parsers are placed deliberately, never drawn as generic ones
RESERVED = {"content-length", "transfer-encoding", "content-type", "connection", "keep-alive",
            "proxy-connection", "trailer", "te", "expect", "upgrade"}
COMMON_NAMES = ["Host", "Accept", "User-Agent", "X-Id", "ETag", "Cache-Control", "Date", "Server",
                "Cookie", "Accept-Encoding", "x-a", "X", "Via", "Referer", "Last-Event-ID"]
OWS_FORMS = ["", " ", "  ", "\t"]


# ----------------------------------------------------------------------------- helpers
class Wire(object):
    """Byte builder that records labelled regions."""

    def __init__(self):
        self.buf = bytearray()
        self.marks = []

    def add(self, data, label=None):
        if isinstance(data, str):
            data = data.encode("iso-8859-1")
        start = len(self.buf)
        self.buf.extend(data)
        if label and data:
            self.marks.append([start, len(self.buf), label])

    def crlf(self):
        self.add(CRLF, "crlf")


def _case_variant(draw, name):
    k = draw(st.integers(0, 5))
    if k == 0:
        return name.lower()
    if k == 1:
        return name.upper()
    return name


@st.composite
def header_name(draw, small=False):
    if small:
        name = draw(st.one_of(st.sampled_from(["H", "x", "Host", "A-b"]),
                              st.text(TOKEN, min_size=1, max_size=3)))
    else:
        name = draw(st.one_of(st.sampled_from(COMMON_NAMES),
                              st.text(TOKEN, min_size=1, max_size=12)))
    if name.lower() in RESERVED:
        name = "X-" + name
    return name


@st.composite
def header_value(draw, small=False):
    """field-value: VCHAR at both ends, SP / HTAB / obs-text allowed inside; may be empty."""
    if small:
        return draw(st.one_of(st.just(""), st.text(VCHAR, min_size=1, max_size=3), st.just("a:b"),
                              st.just("a: b")))
    kind = draw(st.integers(0, 9))
    if kind == 0:
        return ""
    if kind == 1:
        return draw(st.sampled_from(["example.com", "example.com:8080", "a: b", "http://h:80/p?q=1",
                                     "12:00:01 GMT", ":", "::", "x;q=0.5, y", "text/html; charset=utf-8",
                                     "W/\"abc\"", "a:  b", ":a"]))
    first = draw(st.text(VCHAR, min_size=1, max_size=1))
    mid = draw(st.text(VCHAR + " \t" + (OBS if kind == 2 else ""), max_size=24))
    last = draw(st.text(VCHAR, max_size=1))
    if not last and mid and mid[-1] in " \t":
        mid = mid.rstrip(" \t")
    return first + mid + last


@st.composite
def header_list(draw, small=False, maxn=None):
    maxn = maxn if maxn is not None else (1 if small else 6)
    n = draw(st.integers(0, maxn))
    seen = set()
    out = []
    for _ in range(n):
        name = draw(header_name(small))
        if name.lower() in seen:
            continue
        seen.add(name.lower())
        out.append([name, draw(header_value(small))])
    return out


def _put_header(draw, w, name, value):
    w.add(name, "hname")
    w.add(":" + draw(st.sampled_from(OWS_FORMS)), "hsep")
    w.add(value, "hvalue:" + name.lower())
    w.crlf()


def _pct(draw, text, safe):
    """Percent-encode `text` (utf-8): bytes outside `safe` always, safe ones sometimes."""
    out = []
    for b in text.encode("utf-8"):
        ch = chr(b)
        if b < 0x80 and ch in safe and draw(st.integers(0, 11)) != 0:
            out.append(ch)
        else:
            fmt = "%%%02X" if draw(st.booleans()) else "%%%02x"
            out.append(fmt % b)
    return "".join(out)


PATH_TEXT = st.text(st.one_of(st.sampled_from(UNRESERVED + SUBDELIMS + ":@"),
                              st.sampled_from(" %?#/\"<>é€"),
                              st.characters(min_codepoint=0x21, max_codepoint=0x2FF,
                                            blacklist_categories=("Cs",))),
                    min_size=0, max_size=6)


@st.composite
def request_target(draw, method, small=False):
    """-> dict(url, form, path, query, scheme, hostname, port)"""
    if method == "CONNECT":
        host = draw(st.sampled_from(["example.com", "h", "10.0.0.1"]))
        port = draw(st.sampled_from([80, 443, 8080]))
        return {"url": "%s:%d" % (host, port), "form": "authority"}
    if method == "OPTIONS" and draw(st.integers(0, 2)) == 0:
        return {"url": "*", "form": "asterisk"}
    if small:
        segs = draw(st.lists(st.text(UNRESERVED, min_size=1, max_size=2), max_size=1))
    else:
        segs = draw(st.lists(PATH_TEXT, max_size=4))
        if segs and segs[0] == "":
            segs[0] = "a"                 # no leading '//' (would read as a network location)
    path = "/" + "/".join(segs)
    rawpath = "/" + "/".join(_pct(draw, s, UNRESERVED + SUBDELIMS + ":@") for s in segs)
    query = None
    if draw(st.integers(0, 2 if not small else 5)) == 0:
        query = draw(st.text(UNRESERVED + SUBDELIMS + ":@/?", max_size=3 if small else 16))
        if not small and draw(st.booleans()):
            query += "&k=%41%2f+b"
    url = rawpath + ("?" + query if query is not None else "")
    out = {"url": url, "form": "origin", "path": path, "query": query or ""}
    if not small and draw(st.integers(0, 4)) == 0:
        host = draw(st.sampled_from(["example.com", "a", "127.0.0.1", "[::1]", "[2001:db8::1]", "x-y.z"]))
        port = draw(st.one_of(st.none(), st.sampled_from([1, 80, 8080, 65535])))
        out["form"] = "absolute"
        out["scheme"] = "http"
        out["hostname"] = host.strip("[]")
        out["port"] = port
        out["url"] = "http://" + host + (":%d" % port if port is not None else "") + url
    return out


@st.composite
def body_bytes(draw, small=False, minsize=0):
    if small:
        return draw(st.binary(min_size=minsize, max_size=4))
    k = draw(st.integers(0, 5))
    if k == 0:
        return draw(st.sampled_from([b"0\r\n\r\n", b"\r\n", b"\r", b"\n", b"\r\n\r\n", b"5\r\nhello\r\n",
                                     b"HTTP/1.1 200 OK\r\n\r\n", b"a\r\nb", b"\r\n0\r\n"]))
    if k == 1:
        return draw(st.binary(min_size=max(minsize, 1), max_size=300))
    return draw(st.binary(min_size=minsize, max_size=40))


EXT_TOKEN = st.text(TOKEN, min_size=1, max_size=5)
QUOTED_SAFE = string.ascii_letters + string.digits + " -_.,/:"


@st.composite
def _chunk_exts(draw, w, parms, used, small):
    n = draw(st.integers(1, 3)) if draw(st.sampled_from([True, False] if not small else [True, False, False, False])) else 0
    for _ in range(n):
        name = draw(EXT_TOKEN)
        if name in used:
            continue
        used.add(name)
        form = draw(st.integers(0, 2))
        if form == 0:
            w.add(";" + name, "chunksize")
            parms.append([name, None])
        elif form == 1:
            val = draw(EXT_TOKEN)
            w.add(";" + name + "=" + val, "chunksize")
            parms.append([name, val])
        else:
            val = draw(st.text(QUOTED_SAFE, min_size=1, max_size=6)).strip() or "q"
            w.add(";" + name + '="' + val + '"', "chunksize")
            parms.append([name, val])
    return None


@st.composite
def _chunked_body(draw, w, small):
    """Appends a chunked body to w; returns (body, trailers, parms)."""
    body = bytearray()
    parms = []
    used = set()
    nchunks = draw(st.integers(0, 2 if small else 5))
    for _ in range(nchunks):
        data = draw(body_bytes(small, minsize=1))
        if not data:
            data = b"x"
        fmt = draw(st.sampled_from(["%x", "%X", "0%x", "00%X"] if not small else ["%x", "%X"]))
        w.add(fmt % len(data), "chunksize")
        draw(_chunk_exts(w, parms, used, small))
        w.crlf()
        w.add(data)
        w.marks.append([len(w.buf), len(w.buf) + 2, "chunkend"])
        w.crlf()
        body.extend(data)
    w.add(draw(st.sampled_from(["0", "0", "00", "000"] if not small else ["0"])), "chunksize")
    draw(_chunk_exts(w, parms, used, small))
    w.crlf()
    trailers = []
    if draw(st.sampled_from([True, False] if not small else [True, False, False, False])):
        trailers = draw(header_list(small, maxn=1 if small else 3))
        for name, value in trailers:
            _put_header(draw, w, name, value)
    w.crlf()
    return bytes(body), trailers, parms


LEFTOVER = st.one_of(
    st.just(b""),
    st.sampled_from([b"GET /next HTTP/1.1\r\nHost: a\r\n\r\n", b"HTTP/1.1 200 OK\r\nContent-Length: 0\r\n\r\n",
                     b"POST /n HTTP/1.1\r\n"]).flatmap(
        lambda s: st.integers(1, len(s)).map(lambda k: s[:k])),
    st.binary(min_size=1, max_size=6),
    st.sampled_from([b"\r\n", b"\r", b"\n", b"0\r\n\r\n", b"G"]),
)


@st.composite
def message(draw, side, small=False, want=None):
    """want="chunked" forces an HTTP/1.1 message with a chunked body."""
    w = Wire()
    spec = {"side": side, "interim": 0, "reqmethod": "GET"}
    if side == "request":
        method = draw(st.sampled_from(METHODS))
        target = draw(request_target(method, small))
        version = draw(st.sampled_from([[1, 1], [1, 1], [1, 0]])) if want != "chunked" else [1, 1]
        start = dict(target)
        start.update({"method": method, "version": version})
        w.add("%s %s HTTP/%d.%d" % (method, target["url"], version[0], version[1]), "startline")
        w.crlf()
        framings = ["none", "length", "chunked"] if version == [1, 1] else ["none", "length"]
        framing = draw(st.sampled_from(framings + (["chunked"] if version == [1, 1] else [])))
        if want == "chunked":
            framing = "chunked"
    else:
        n100 = 0 if small or want == "chunked" else draw(st.sampled_from([0, 0, 0, 0, 1, 2]))
        if n100:
            spec["interim"] = n100
            for _ in range(n100):
                w.add("HTTP/1.1 100 Continue", "startline")
                w.crlf()
                if draw(st.integers(0, 2)) == 0:
                    for name, value in draw(header_list(False, maxn=2)):
                        _put_header(draw, w, name, value)
                w.crlf()
        version = draw(st.sampled_from([[1, 1], [1, 1], [1, 0]])) if want != "chunked" else [1, 1]
        kind = draw(st.integers(0, 9)) if want != "chunked" else 9
        if kind == 0:
            status, framings = draw(st.sampled_from([204, 304])), ["none"]
        elif kind == 1:
            status, framings = draw(st.sampled_from([200, 404])), ["none"]
            spec["reqmethod"] = "HEAD"
        else:
            status = draw(st.one_of(st.sampled_from([200, 201, 301, 404, 500]), st.integers(200, 599)))
            if status in (204, 304):
                status = 200
            framings = ["length", "chunked", "close", "chunked"] if version == [1, 1] else ["length", "close"]
        if small:
            reason = draw(st.sampled_from(["OK", "", "a b"]))
        else:
            words = draw(st.lists(st.text(VCHAR, min_size=1, max_size=8), max_size=3))
            reason = " ".join(words)
        start = {"version": version, "status": status, "reason": reason}
        w.add("HTTP/%d.%d %d %s" % (version[0], version[1], status, reason), "startline")
        w.crlf()
        framing = draw(st.sampled_from(framings)) if want != "chunked" else "chunked"

    headers = draw(header_list(small))
    special = []
    body = b""
    if framing == "length":
        body = draw(body_bytes(small))
        clen = "%d" % len(body)
        if not small and draw(st.integers(0, 9)) == 0:
            clen = "00" + clen
        special.append([_case_variant(draw, "Content-Length"), clen])
    elif framing == "chunked":
        special.append([_case_variant(draw, "Transfer-Encoding"),
                        draw(st.sampled_from(["chunked", "chunked", "Chunked", "CHUNKED"]))])
    elif framing == "none" and side == "response":
        if spec["reqmethod"] == "HEAD" or start["status"] == 304:
            if draw(st.booleans()):
                special.append(["Content-Length", "%d" % draw(st.integers(0, 5000))])
    if not small:
        if draw(st.integers(0, 3)) == 0:
            special.append([_case_variant(draw, "Connection"), draw(st.sampled_from(["close", "keep-alive", "Keep-Alive"]))])
        if draw(st.integers(0, 3)) == 0:
            special.append([_case_variant(draw, "Content-Type"),
                            draw(st.sampled_from(["text/plain", "text/html; charset=utf-8", "application/json",
                                                  "application/octet-stream"]))])
    if framing == "close" and version == [1, 1] and not any(h[0].lower() == "connection" for h in special):
        special.append(["Connection", "close"])
    for h in special:
        pos = draw(st.integers(0, len(headers)))
        headers.insert(pos, h)
    for name, value in headers:
        _put_header(draw, w, name, value)
    w.crlf()

    trailers, parms = [], []
    if framing == "length":
        w.add(body)
    elif framing == "chunked":
        body, trailers, parms = draw(_chunked_body(w, small))
    elif framing == "close":
        body = draw(body_bytes(small))
        w.add(body)

    leftover = b"" if framing == "close" else draw(LEFTOVER)
    spec.update({"start": start, "headers": headers, "framing": framing, "body": body,
                 "trailers": trailers, "parms": parms, "wire": bytes(w.buf), "leftover": leftover,
                 "marks": w.marks})
    return spec


def interesting_offsets(spec):
    """Cut positions inside / at the edge of structural regions."""
    out = set()
    n = len(spec["wire"])
    for start, end, label in spec["marks"]:
        for p in range(start, end + 1):
            if label in ("crlf", "chunksize", "hsep") or p in (start, start + 1, end - 1, end):
                out.add(p)
    out.update((0, n))
    return sorted(p for p in out if 0 <= p <= n + len(spec["leftover"]))


@st.composite
def cuts_for(draw, total, marks, maxcuts=7):
    """A sorted list of up to `maxcuts` cut positions in [0, total], biased to `marks`."""
    k = draw(st.integers(1, maxcuts))
    pos = st.integers(0, total)
    if marks:
        pos = st.one_of(pos, st.sampled_from(marks), st.sampled_from(marks))
    return sorted(draw(st.lists(pos, min_size=k, max_size=k)))


def pieces(data, cuts):
    """Split data at the sorted cut positions (empty pieces are kept: a service round
    without new bytes)."""
    out = []
    prev = 0
    for c in cuts:
        c = max(prev, min(c, len(data)))
        out.append(data[prev:c])
        prev = c
    out.append(data[prev:])
    return out


def all_cuts(total, maxpieces=3):
    """Every split of `total` bytes into <= maxpieces successive pieces as cut lists
    (0 <= c1 <= c2 <= total; equal cuts model an empty receive)."""
    assert maxpieces == 3
    for i in range(total + 1):
        for j in range(i, total + 1):
            yield [i, j]


def cut_classes(spec, cuts):
    """Which structural regions are cut strictly inside by these cuts."""
    found = set()
    for c in cuts:
        for start, end, label in spec["marks"]:
            if start < c < end:
                found.add(label.split(":")[0])
    return found


# ============================================================================ malformed
BAD_CHUNK_SIZES = [b"zz", b"-1", b"0x1f", b"", b"1g", b"\xff\xfe", b" ", b"1 2", b"+5", b"1_0",
                   b"ffffffffffffffffffffffff", b"\xd9\xa1", b"5.0", b"\x00", b";", b";=", b"1;\xff=\x00"]
BAD_LENGTHS = [b"-5", b"abc", b"99999999999999999999", b"", b"1e3", b"5 5", b"0x10", b"+3", b"\xb2", b"1_0",
               b"-0", b"3, 3"]
BAD_URLS = [b"http://h:99999/", b"http://h:abc/x", b"http://[::1/", b"http://[v1.x]/", b"http://h:-1/",
            b"http://]/", b"//[/", b"http://[fe80::1%25eth0]:80/", b"http://h:80:90/", b"http://h:\xb2/",
            b"//h:65536", b"http://[]/", b"http://h:0x50/", b"http://\xff\xfe:1e3/", b"http://h: 80/",
            b"http://[::1]x/", b"http://h:\xd9\xa3/"]
BAD_STARTS = [b"", b"GET", b"GET /", b"get / HTTP/1.1", b"GET / HTTP/2.0", b"GET / FOO/1.1", b"FOO / HTTP/1.1",
              b"GET / HTTP/1.1 extra", b"\x00\x01", b"GET  /  HTTP/1.1", b"HTTP/1.1 200 OK", b" ", b"\xff",
              b"GET / HTTP/1.", b"GET / HTTP/", b"GET\t/\tHTTP/1.1", b"GET /\x85 HTTP/1.1"]
ODD_VERSIONS = [b"HTTP/1.7", b"HTTP/1.x", b"HTTP/1.", b"HTTP/1.2", b"HTTP/1.10", b"HTTP/1.9", b"HTTP/1", b"HTTP/1.1.1",
                b"http/1.1", b"HTTP/0.9", b"HTTP/2", b"HTTP/1.0x", b"HTTP/1.\xb2", b"HTTP/11.1", b"HTTP/ 1.1", b"HTTP/1,1"]
BAD_STATUS = [b"", b"HTTP/1.1", b"HTTP/1.1 abc OK", b"HTTP/1.1 99 Low", b"HTTP/1.1 1000 High", b"HTTP/2.0 200 OK",
              b"FOO/1.1 200 OK", b"200 OK", b"HTTP/1.1 -20 OK", b"\x00", b"HTTP/1.1 2\xb20 OK", b"HTTP/ 200",
              b"HTTP/1.1 200\x85OK", b"HTTP/x.y 200 OK", b"HTTP/1.1 +200 OK", b"GET / HTTP/1.1"]
BAD_HEADER_LINES = [b"garbage line without colon", b": no name", b"\xff\xfe", b" folded: continuation", b":",
                    b"\x00", b"name", b"Transfer-Encoding: chunked", b"Content-Length: -1", b"Content-Length: x",
                    b"Content-Type: text/event-stream", b"Content-Type: ;", b"Connection", b"a\rb: c"]


def _regions(spec, prefix):
    return [m for m in spec["marks"] if m[2] == prefix or m[2].startswith(prefix + ":")]


@st.composite
def byte_edits(draw, data, lo=0, maxn=3):
    """1..maxn random byte-level edits at offsets >= lo. -> (bytes, min offset touched)"""
    data = bytearray(data)
    first = len(data)
    for _ in range(draw(st.integers(1, maxn))):
        if len(data) <= lo:
            break
        pos = draw(st.integers(lo, len(data) - 1))
        first = min(first, pos)
        op = draw(st.integers(0, 4))
        if op == 0:
            data[pos] = draw(st.integers(0, 255))
        elif op == 1:
            del data[pos:pos + draw(st.integers(1, 4))]
        elif op == 2:
            data[pos:pos] = draw(st.one_of(st.binary(min_size=1, max_size=4),
                                           st.sampled_from([b"\r", b"\n", b"\r\n", b":", b" ", b";", b"\x00", b"%"])))
        elif op == 3:
            data[pos:pos] = data[pos:pos + draw(st.integers(1, 8))]
        else:
            data[pos] = data[pos] ^ (1 << draw(st.integers(0, 7)))
    return bytes(data), first


@st.composite
def malformed(draw, side):
    """A (mostly) malformed message derived from a valid one.
    -> dict(data, mut, nt, base) ; nt = the damage lies behind an intact start line"""
    kinds = ["bytes", "bytes-late", "hdr-nocolon", "hdr-junk", "length", "start", "truncate", "random",
             "valid", "url" if side == "request" else "start", "big", "chunk-size", "chunk-term",
             "bytes-late", "chunk-size", "chunk-term", "url" if side == "request" else "hdr-junk", "version"]
    kind = kinds[draw(st.integers(0, 1018)) % len(kinds)]      # near-uniform over the list
    want = "chunked" if kind.startswith("chunk") or draw(st.integers(0, 3)) == 0 else None
    spec = draw(message(side, draw(st.integers(0, 3)) == 0, want=want))
    wire = bytes(spec["wire"])
    sl = _regions(spec, "startline")[-1]          # the final response's start line
    after_start = sl[1] + 2
    out = {"mut": kind, "nt": True, "base": {"framing": spec["framing"], "side": side}}

    def splice(region, repl):
        return wire[:region[0]] + repl + wire[region[1]:]

    data = wire
    if kind == "valid":
        out["nt"] = False
        out["truth"] = {"start": spec["start"], "body": spec["body"], "framing": spec["framing"],
                        "reqmethod": spec["reqmethod"]}
    elif kind == "bytes":
        data, first = draw(byte_edits(wire))
        out["nt"] = first >= after_start
    elif kind == "bytes-late":
        data, first = draw(byte_edits(wire, lo=min(after_start, len(wire) - 1)))
        out["nt"] = first >= after_start
    elif kind == "hdr-nocolon":
        seps = _regions(spec, "hsep")
        if seps:
            data = splice(draw(st.sampled_from(seps)), draw(st.sampled_from([b"", b" ", b";", b"="])))
        else:
            data = wire[:after_start] + b"nocolon\r\n" + wire[after_start:]
    elif kind == "hdr-junk":
        crlfs = [m for m in _regions(spec, "crlf") if m[1] >= after_start]
        at = draw(st.sampled_from(crlfs))[1] if crlfs else after_start
        data = wire[:at] + draw(st.sampled_from(BAD_HEADER_LINES)) + b"\r\n" + wire[at:]
    elif kind == "length":
        vals = _regions(spec, "hvalue:content-length")
        bad = draw(st.one_of(st.sampled_from(BAD_LENGTHS), st.integers(0, 400).map(lambda n: b"%d" % n)))
        if vals:
            data = splice(vals[0], bad)
        else:
            data = wire[:after_start] + b"Content-Length: " + bad + b"\r\n" + wire[after_start:]
    elif kind == "start":
        data = splice(sl, draw(st.sampled_from(BAD_STARTS if side == "request" else BAD_STATUS)))
        out["nt"] = False
    elif kind == "version":
        line = wire[sl[0]:sl[1]]
        ver = draw(st.one_of(st.sampled_from(ODD_VERSIONS),
                             st.builds(lambda a, b: b"HTTP/%d.%s" % (a, b), st.integers(0, 3),
                                       st.sampled_from([b"", b"0", b"1", b"2", b"7", b"9", b"10", b"11", b"x", b"1x", b"01"]))))
        if side == "request":
            head, _, old = line.rpartition(b" ")
            data = splice(sl, head + b" " + ver)
        else:
            old, _, rest = line.partition(b" ")
            data = splice(sl, ver + b" " + rest)
        out["nt"] = False
    elif kind == "url":
        method = spec["start"]["method"]
        url0 = sl[0] + len(method) + 1
        url1 = url0 + len(spec["start"]["url"].encode("iso-8859-1"))
        data = wire[:url0] + draw(st.sampled_from(BAD_URLS)) + wire[url1:]
    elif kind == "truncate":
        cut = draw(st.integers(0, max(0, len(wire) - 1)))
        data = wire[:cut]
        out["nt"] = cut >= after_start
    elif kind == "random":
        data = draw(st.one_of(st.binary(max_size=200),
                              st.lists(st.sampled_from([b"\r\n", b"GET", b" ", b"/", b"HTTP/1.1", b":", b"a", b"0",
                                                        b"\xff", b"Transfer-Encoding: chunked", b"\n", b"\r"]),
                                       max_size=30).map(b"".join)))
        out["nt"] = False
    elif kind == "big":
        which = draw(st.integers(0, 2))
        if which == 0:
            data = wire[:after_start] + b"X-Big: " + b"a" * 66000 + b"\r\n" + wire[after_start:]
        elif which == 1:
            data = wire[:after_start] + b"".join(b"h%d: v\r\n" % i for i in range(120)) + wire[after_start:]
        else:
            data = wire[:sl[1]] + b"a" * 66000 + wire[sl[1]:]
            out["nt"] = False
    elif kind == "chunk-size":
        sizes = _regions(spec, "chunksize")
        data = splice(draw(st.sampled_from(sizes)), draw(st.sampled_from(BAD_CHUNK_SIZES)))
    elif kind == "chunk-term":
        ends = _regions(spec, "chunkend")
        if ends:
            data = splice(draw(st.sampled_from(ends)),
                          draw(st.sampled_from([b"XX", b"\r", b"\n", b"", b"X\r\n", b"\r\r\n", b"\n\r", b"\x00\r\n"])))
        else:
            data = wire + b"junk"
    if kind not in ("valid",) and draw(st.integers(0, 5)) == 0:
        data, first = draw(byte_edits(data, maxn=2))
        out["nt"] = out["nt"] and first >= after_start
    out["data"] = data
    return out


# ============================================================================ SSE
SSE_TEXT = st.text(st.one_of(st.sampled_from("abcxyz019 :;=-{}\"',"),
                             st.sampled_from("é€😀\t\x0b\x0c\x1f\x85 "),
                             st.characters(min_codepoint=0x20, max_codepoint=0x7E)),
                   max_size=10)
EOLS = ["\n", "\r", "\r\n"]


@st.composite
def sse_value(draw, small=False):
    v = draw(SSE_TEXT if not small else st.text("ab :", max_size=3))
    k = draw(st.integers(0, 7))
    if k == 0:
        v = " " + v           # value that itself starts with a blank
    elif k == 1:
        v = "  " + v
    return v


@st.composite
def sse_stream(draw, small=False):
    """-> dict(wire, lines=[[text, eol]], events=[[id, name, data]], retry, leid, mixed)

    The ground truth is accumulated while the lines are being chosen (SSE field rules:
    comment lines start with ':'; a field line is name[:[ ]value]; unknown names ignored;
    data lines joined by LF; id persists; retry only if all ASCII digits; blank line
    dispatches when the data is not empty).
    """
    lines = []            # [text, eol]
    events = []
    st8 = {"leid": None, "retry": None, "ename": "", "datas": [], "idpending": False}
    uniform = draw(st.one_of(st.none(), st.none(), st.sampled_from(EOLS)))

    def eol_for(text):
        eol = uniform if uniform is not None else draw(st.sampled_from(EOLS))
        if text == "" and lines and lines[-1][1] == "\r" and eol == "\n":
            eol = draw(st.sampled_from(["\r", "\r\n"]))     # CR + LF would read as one CRLF
        return eol

    def put(text):
        lines.append([text, eol_for(text)])

    def field(name, value):
        form = draw(st.integers(0, 2))
        if value == "" and form == 2 and draw(st.booleans()):
            put(name)                                   # field without colon
        elif form == 0 and not value.startswith(" "):
            put(name + ":" + value)                     # no blank after the colon
        else:
            put(name + ": " + value)

    nev = draw(st.integers(1, 2 if small else 5))
    for e in range(nev + 1):
        tail = (e == nev)                               # lines after the last blank line
        nlines = draw(st.integers(0, 2 if small else 5))
        if tail and draw(st.booleans()):
            nlines = 0
        for _ in range(nlines):
            k = draw(st.integers(0, 11))
            if k <= 4:
                v = draw(sse_value(small))
                field("data", v)
                st8["datas"].append(v)
            elif k == 5:
                put(":" + draw(sse_value(small)))        # comment
            elif k == 6 and not tail:
                v = draw(st.one_of(st.text("0123456789abc-", max_size=4), sse_value(small)))
                field("id", v)
                st8["leid"] = v
            elif k == 7:
                v = draw(sse_value(small))
                field("event", v)
                st8["ename"] = v
            elif k == 8:
                v = draw(st.sampled_from(["0", "5", "1000", "007", "30000"]))
                put("retry:" + v if draw(st.booleans()) else "retry: " + v)
                st8["retry"] = int(v)
            elif k == 9:
                v = draw(st.sampled_from(["abc", "1.5", "12x", "", "x1"]))
                put("retry:" + v if draw(st.booleans()) else "retry: " + v)
            elif k == 10:
                name = draw(st.sampled_from(["Data", "ID", "x", "foo", "data ", "dat", "Event", "retry ", "é"]))
                v = draw(sse_value(small))
                put(name + ":" + v if draw(st.booleans()) else name)
            else:
                v = draw(sse_value(small))
                field("data", v)
                st8["datas"].append(v)
        if tail:
            break
        if st8["datas"] and "\n".join(st8["datas"]) == "":
            # a lone empty data line: SSE rules and ioflo's docstring disagree on whether
            # that dispatches; keep it out of the generated domain
            field("data", "x")
            st8["datas"].append("x")
        put("")                                          # blank line: dispatch
        if st8["datas"]:
            events.append([st8["leid"], st8["ename"], "\n".join(st8["datas"])])
        st8["ename"] = ""
        st8["datas"] = []
    kinds = set(e for _, e in lines)
    if lines[-1][1] == "\r":
        lines.append([":", "\n"])   # a final bare CR cannot be told from half a CRLF yet
    wire = "".join(t + e for t, e in lines).encode("utf-8")
    return {"wire": wire, "lines": lines, "events": events, "retry": st8["retry"], "leid": st8["leid"],
            "mixed": len(kinds) > 1, "has_crlf": "\r\n" in kinds}
