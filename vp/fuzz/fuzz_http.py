"""Coverage-guided (atheris / libFuzzer) campaigns for C29, C32 and C33 with the semantic
oracle of the corresponding check INSIDE the target.

    PYTHONPATH=/verif:/verif/.deps python -m vp.fuzz.fuzz_http <target> <outdir> [libFuzzer flags]

targets
    c29-request / c29-response   structure-aware: libFuzzer's bytes drive the Hypothesis grammar
                                 of vp.checks.c29_http_split (fuzz_one_input); oracle check_case
    c33-direct / c33-chunked     same for vp.checks.c33_sse
    c32-server / c32-client      same for the mutation strategies of vp.checks.c32_http_malformed
    c32-server-raw / c32-client-raw
                                 raw bytes: byte 0/1 choose position / schedule / close, the rest
                                 is delivered to the bad connection (or to the Patron as response)

The target never "crashes": every oracle failure is written as a replayable JSON case to
<outdir>/fail-<sig-hash>-<n>.json (at most 3 per signature) and fuzzing goes on, so that one
shallow defect does not end the campaign. <outdir>/stats.json holds the execution counts.
The ioflo.aio.http modules are imported under atheris instrumentation (coverage feedback).
"""
import hashlib
import json
import os
import sys

G1 = {"wire": b"GET /a HTTP/1.1\r\nHost: h\r\n\r\n",
      "start": {"method": "GET", "url": "/a", "version": [1, 1], "form": "origin", "path": "/a", "query": ""},
      "body": b"", "framing": "none", "sched": {"cuts": [], "gaps": [0]}}
G2 = {"wire": b"POST /b?q=1 HTTP/1.1\r\nTransfer-Encoding: chunked\r\n\r\n3\r\nabc\r\n0\r\n\r\n",
      "start": {"method": "POST", "url": "/b?q=1", "version": [1, 1], "form": "origin", "path": "/b", "query": "q=1"},
      "body": b"abc", "framing": "chunked", "sched": {"cuts": [30], "gaps": [0, 1]}}

SEEDS_REQ = [
    b"GET / HTTP/1.1\r\nHost: example.com\r\n\r\n",
    b"POST /p?x=1 HTTP/1.1\r\nContent-Length: 5\r\nContent-Type: application/json\r\n\r\n[1,2]",
    b"PUT /c HTTP/1.1\r\nTransfer-Encoding: chunked\r\n\r\n5;a=b\r\nhello\r\n0\r\nX-T: 1\r\n\r\n",
    b"GET http://h:80/x?y HTTP/1.0\r\nConnection: keep-alive\r\n\r\n",
]
SEEDS_RESP = [
    b"HTTP/1.1 200 OK\r\nContent-Length: 2\r\n\r\nhi",
    b"HTTP/1.1 200 OK\r\nTransfer-Encoding: chunked\r\n\r\n2;x\r\nhi\r\n0\r\nT: v\r\n\r\n",
    b"HTTP/1.0 404 Not Found\r\n\r\nbody until close",
    b"HTTP/1.1 100 Continue\r\n\r\nHTTP/1.1 204 No Content\r\n\r\n",
    b"HTTP/1.1 200 OK\r\nContent-Type: text/event-stream\r\n\r\nid: 1\ndata: x\r\n\r\nretry: 5\n\n",
    b"HTTP/1.1 200 OK\r\nContent-Type: application/json\r\nContent-Length: 2\r\n\r\n{}",
]
DICT = [b"\r\n", b"\r\n\r\n", b"HTTP/1.1", b"HTTP/1.0", b"Transfer-Encoding: chunked", b"Content-Length: ",
        b"Content-Type: text/event-stream", b"Connection: close", b"0\r\n\r\n", b"http://", b"[::1]", b":",
        b";", b"=", b"100 Continue", b"data: ", b"id: ", b"retry: ", b"GET ", b"POST ", b"application/json"]


def main(argv):
    target, outdir = argv[1], argv[2]
    flags = argv[3:]
    from vp.core import env
    env.use_repo()
    import atheris
    with atheris.instrument_imports(include=["ioflo.aio.http"]):
        import ioflo.aio.http.httping       # noqa: F401
        import ioflo.aio.http.clienting     # noqa: F401
        import ioflo.aio.http.serving       # noqa: F401
    env.quiet_ioflo()
    from hypothesis import given, settings, HealthCheck
    from vp.core.acc import jsonable
    from vp.checks import c29_http_split as c29, c32_http_malformed as c32, c33_sse as c33

    os.makedirs(outdir, exist_ok=True)
    stats = {"execs": 0, "nontrivial": 0, "failing": 0, "target": target}
    per_sig = {}

    def flush():
        with open(os.path.join(outdir, "stats.json.tmp"), "w") as fh:
            json.dump(stats, fh)
        os.replace(os.path.join(outdir, "stats.json.tmp"), os.path.join(outdir, "stats.json"))

    def record(case, fails, nontrivial):
        stats["execs"] += 1
        if nontrivial:
            stats["nontrivial"] += 1
        for sig, what in fails:
            stats["failing"] += 1
            n = per_sig.get(sig, 0)
            if n < 3:
                per_sig[sig] = n + 1
                h = hashlib.blake2b(sig.encode(), digest_size=4).hexdigest()
                with open(os.path.join(outdir, "fail-%s-%d.json" % (h, n)), "w") as fh:
                    json.dump({"sig": sig, "what": what, "case": jsonable(case)}, fh)
                flush()
        if stats["execs"] % 100 == 0:
            flush()

    sett = settings(database=None, deadline=None, suppress_health_check=list(HealthCheck))

    def structured(strategy, checker):
        @sett
        @given(strategy)
        def prop(case):
            out = checker(case)
            record(case, out[0], out[1])
        return prop.hypothesis.fuzz_one_input

    def c29_checker(case):
        fails, _, nontrivial, _ = c29.check_case(case)
        return fails, nontrivial

    def c33_checker(case):
        fails, _, nontrivial, _ = c33.check_case(case)
        return fails, nontrivial

    def c32_checker(case):
        nt = case["bad"]["nt"] if case["scene"] == "server" else case["nt"]
        return c32.check_case(case), nt

    def raw_server(data):
        if len(data) < 3:
            return
        k = data[1]
        bad = bytes(data[2:])
        head_ok = bad.split(b"\n", 1)[0].rstrip(b"\r") in (b"GET / HTTP/1.1", b"POST / HTTP/1.1") or \
            bad[:4] in (b"GET ", b"POST", b"PUT ")
        case = {"scene": "server", "bad_pos": data[0] % 3, "good": [G1, G2],
                "bad": {"data": bad, "mut": "raw", "nt": head_ok,
                        "sched": {"cuts": [len(bad) * (k & 3) // 4, len(bad) * ((k >> 2) & 3) // 3][:1 + (k >> 6 & 1)],
                                  "gaps": [0, (k >> 4) & 1, 1]},
                        "close": None if k & 32 else (k >> 7) & 1}}
        case["bad"]["sched"]["cuts"].sort()
        record(case, c32.check_case(case), head_ok)

    def raw_client(data):
        if len(data) < 3:
            return
        k = data[1]
        resp = bytes(data[2:])
        nt = resp[:9] in (b"HTTP/1.1 ", b"HTTP/1.0 ")
        case = {"scene": "client", "data": resp, "mut": "raw", "nt": nt,
                "reqmethod": ("GET", "HEAD", "POST")[data[0] % 3],
                "sched": {"cuts": [len(resp) * (k & 3) // 4], "gaps": [0, (k >> 4) & 1]},
                "close": None if k & 32 else (k >> 7) & 1}
        record(case, c32.check_case(case), nt)

    corpus = os.path.join(outdir, "corpus")
    os.makedirs(corpus, exist_ok=True)
    seeds = []
    if target == "c29-request":
        fn = structured(c29.cases("request", False), c29_checker)
    elif target == "c29-response":
        fn = structured(c29.cases("response", False), c29_checker)
    elif target == "c33-direct":
        fn = structured(c33.cases("direct", False), c33_checker)
    elif target == "c33-chunked":
        fn = structured(c33.cases("chunked", False), c33_checker)
    elif target == "c32-server":
        fn = structured(c32.server_case(), c32_checker)
    elif target == "c32-client":
        fn = structured(c32.client_case(), c32_checker)
    elif target == "c32-server-raw":
        fn = raw_server
        seeds = [bytes([i % 3, 32 + i]) + s for i, s in enumerate(SEEDS_REQ)]
    elif target == "c32-client-raw":
        fn = raw_client
        seeds = [bytes([0, 32 + i]) + s for i, s in enumerate(SEEDS_RESP)]
    else:
        raise SystemExit("unknown target %r" % target)
    if not seeds:
        # structure-aware targets: Hypothesis needs long inputs to finish a draw; bootstrap the
        # corpus with deterministic pseudo-random blobs
        import random
        rnd = random.Random(12345)
        seeds = [bytes(rnd.getrandbits(8) for _ in range(n)) for n in (512, 1024, 2048, 4096, 4096, 8192, 8192)]
        seeds += [bytes(rnd.choice((0, 0, 1, 2, 3, 255, rnd.getrandbits(8))) for _ in range(n)) for n in (1024, 4096, 8192)]
    for i, s in enumerate(seeds):
        with open(os.path.join(corpus, "seed%d" % i), "wb") as fh:
            fh.write(s)
    dpath = os.path.join(outdir, "http.dict")
    with open(dpath, "w") as fh:
        for i, tok in enumerate(DICT):
            fh.write('kw%d="%s"\n' % (i, "".join("\\x%02x" % b for b in tok)))
    args = [argv[0], corpus, "-artifact_prefix=" + outdir + "/"] + flags
    if target.endswith("-raw"):
        args.append("-dict=" + dpath)

    def one(data):
        fn(data)

    import atexit
    atexit.register(flush)
    atheris.Setup(args, one)
    flush()
    atheris.Fuzz()


def run_campaign(acc, target, seconds, seed, max_len=2048):
    """Called from a check's work(): run one atheris campaign in a subprocess and merge its
    findings / counts into acc. Inconclusive (noted, never a verdict) when atheris is absent."""
    import shutil
    import subprocess
    import tempfile
    from vp.core import env
    from vp.core.acc import unjson
    deps = os.path.join(env.VERIF, ".deps")
    if not os.path.isdir(os.path.join(deps, "atheris")):
        acc.note("atheris not installed under /verif/.deps: coverage-guided campaign skipped")
        return
    tmp = tempfile.mkdtemp(prefix="vp-fuzz-")
    try:
        cmd = [env.PYTHON, "-B", "-m", "vp.fuzz.fuzz_http", target, tmp,
               "-max_total_time=%d" % seconds, "-seed=%d" % (seed + 1), "-max_len=%d" % max_len,
               "-timeout=60", "-rss_limit_mb=4096", "-verbosity=0", "-print_final_stats=1", "-len_control=0"]
        envv = dict(os.environ)
        envv["PYTHONPATH"] = env.VERIF + os.pathsep + deps
        envv["VP_REPO"] = env.REPO
        envv["PYTHONWARNINGS"] = "ignore"
        try:
            r = subprocess.run(cmd, env=envv, cwd=env.VERIF, stdout=subprocess.PIPE, stderr=subprocess.PIPE,
                               timeout=seconds + 180)
            tail = (r.stderr or b"")[-1500:].decode("utf-8", "replace")
            rc = r.returncode
        except subprocess.TimeoutExpired:
            tail, rc = "timeout", -9
        stats = {}
        spath = os.path.join(tmp, "stats.json")
        if os.path.exists(spath):
            stats = json.load(open(spath))
        execs = int(stats.get("execs", 0))
        acc.extra["atheris_execs"] = acc.extra.get("atheris_execs", 0) + execs
        acc.extra["atheris_nontrivial_execs"] = acc.extra.get("atheris_nontrivial_execs", 0) + int(stats.get("nontrivial", 0))
        acc.evaluations += execs
        acc.label("atheris:" + target, execs)
        for name in sorted(os.listdir(tmp)):
            if name.startswith("fail-") and name.endswith(".json"):
                d = json.load(open(os.path.join(tmp, name)))
                acc.fail(d["sig"], "[atheris %s] %s" % (target, d["what"]), unjson(d["case"]))
        crashes = [n for n in os.listdir(tmp) if n.startswith(("crash-", "timeout-", "oom-"))]
        if crashes or (rc not in (0,) and execs == 0):
            # the target itself never raises on oracle failures: a libFuzzer artifact or a dead
            # target is a harness problem and must surface as one
            raise RuntimeError("atheris target %s ended rc=%s artifacts=%s\n%s" % (target, rc, crashes, tail))
        acc.note("atheris %s: %d executions in %ds (coverage-guided, oracle inside the target)" % (target, execs, seconds))
    finally:
        shutil.rmtree(tmp, ignore_errors=True)


if __name__ == "__main__":
    main(sys.argv)
