"""Coverage-guided (atheris / libFuzzer) campaign for C14 with the C14 oracle INSIDE the target.

    PYTHONPATH=/verif:/verif/.deps python -m vp.fuzz.fuzz_flo <outdir> [libFuzzer flags]

libFuzzer's bytes are decoded (utf-8, replace), newlines normalised, tokenised with FloScript's
lexical rule, `load` operands confined to the private temp dir (vp.flo.tokens.sanitize) and the
script is built by the real Builder under the C14 CPU watchdog; outcome classes as in
vp.checks.c14_build_robust.run_case. The target never "crashes": every oracle failure is written
as a replayable JSON case to <outdir>/fail-<sig-hash>-<n>.json (at most 3 per signature) and
fuzzing goes on. ioflo.base is imported under atheris instrumentation (coverage feedback); the
dictionary holds the verb / connective / keyword vocabulary, the seed corpus the example plans
and a few generated programs.
"""
import hashlib
import json
import os
import random
import sys


def main(argv):
    outdir = argv[1]
    flags = argv[2:]
    from vp.core import env
    env.use_repo()
    import atheris
    with atheris.instrument_imports(include=["ioflo.base"]):
        import ioflo.base.building       # noqa: F401
        import ioflo.base.framing        # noqa: F401
        import ioflo.base.acting         # noqa: F401
    env.quiet_ioflo()
    from vp.core.acc import jsonable
    from vp.checks import c14_build_robust as c14
    from vp.flo import tokens as T

    os.makedirs(outdir, exist_ok=True)
    stats = {"execs": 0, "nontrivial": 0, "failing": 0, "resolve_stage": 0}
    per_sig = {}
    side = {"side.flo": [["frame", "sa"], ["print", "side"]], "side2.flo": [["framer", "sd", "be", "aux"], ["frame", "sb"]]}

    def flush():
        with open(os.path.join(outdir, "stats.json.tmp"), "w") as fh:
            json.dump(stats, fh)
        os.replace(os.path.join(outdir, "stats.json.tmp"), os.path.join(outdir, "stats.json"))

    def one(data):
        text = bytes(data).decode("utf-8", "replace").replace("\r\n", "\n").replace("\r", "\n")
        lines = T.sanitize(T.tokenize_text(text))
        if not lines:
            return
        outcome, fails, info = c14.run_case(lines, side)
        stats["execs"] += 1
        if len(lines) >= 3 and info["framer"]:
            stats["nontrivial"] += 1
        if info["resolve"]:
            stats["resolve_stage"] += 1
        for sig, what in fails:
            stats["failing"] += 1
            n = per_sig.get(sig, 0)
            if n < 3:
                per_sig[sig] = n + 1
                h = hashlib.blake2b(sig.encode(), digest_size=4).hexdigest()
                with open(os.path.join(outdir, "fail-%s-%d.json" % (h, n)), "w") as fh:
                    json.dump({"sig": sig, "what": what,
                               "case": jsonable({"kind": "atheris", "muts": [], "lines": lines, "files": side})}, fh)
                flush()
        if stats["execs"] % 200 == 0:
            flush()

    corpus = os.path.join(outdir, "corpus")
    os.makedirs(corpus, exist_ok=True)
    seeds = [T.render(toks).encode() for _, toks in c14.plans()]
    rnd = random.Random(20240917)
    for _ in range(30):
        seeds.append(T.render(T.gen_program(rnd, 0.0)).encode())
    for _ in range(20):
        seeds.append(T.render(T.gen_adversarial(rnd)).encode())
    for i, s in enumerate(seeds):
        with open(os.path.join(corpus, "seed%03d" % i), "wb") as fh:
            fh.write(s)
    verbs, conns, comps = T.vocabulary()
    words = sorted(set(verbs + conns + comps + T.WORDS + T.FRAMERS + T.FRAMES + T.SHARES + T.NODES + T.FIELDS +
                       T.NUMBERS[:16] + ["\n", " ", "\\\n", "#", '"', "'", "doer param", "framer.me.", "frame.main."]))
    dpath = os.path.join(outdir, "flo.dict")
    with open(dpath, "w") as fh:
        for i, tok in enumerate(words):
            fh.write('kw%d="%s"\n' % (i, "".join("\\x%02x" % b for b in tok.encode())))
    args = [argv[0], corpus, "-artifact_prefix=" + outdir + "/", "-dict=" + dpath] + flags
    import atexit
    atexit.register(flush)
    atheris.Setup(args, one)
    flush()
    atheris.Fuzz()


def run_campaign(acc, runs, seed, max_len=1500):
    """Called from C14's work(): run one atheris campaign in a subprocess and merge its findings /
    counts into acc. Inconclusive (noted, never a verdict) when atheris is absent."""
    import shutil
    import subprocess
    import tempfile
    from vp.core import env
    from vp.core.acc import unjson
    deps = os.path.join(env.VERIF, ".deps")
    if not os.path.isdir(os.path.join(deps, "atheris")):
        acc.note("atheris not installed under /verif/.deps: coverage-guided campaign skipped")
        return
    tmp = tempfile.mkdtemp(prefix="vp-fuzz-")
    try:
        cmd = [env.PYTHON, "-B", "-m", "vp.fuzz.fuzz_flo", tmp, "-runs=%d" % runs, "-seed=%d" % (seed + 1),
               "-max_len=%d" % max_len, "-timeout=120", "-rss_limit_mb=4096", "-verbosity=0",
               "-print_final_stats=1", "-len_control=0"]
        envv = dict(os.environ)
        envv["PYTHONPATH"] = env.VERIF + os.pathsep + deps
        envv["VP_REPO"] = env.REPO
        envv["PYTHONWARNINGS"] = "ignore"
        try:
            r = subprocess.run(cmd, env=envv, cwd=env.VERIF, stdout=subprocess.PIPE, stderr=subprocess.PIPE,
                               timeout=3000)
            tail = (r.stderr or b"")[-1500:].decode("utf-8", "replace")
            rc = r.returncode
        except subprocess.TimeoutExpired:
            tail, rc = "timeout", -9
        stats = {}
        spath = os.path.join(tmp, "stats.json")
        if os.path.exists(spath):
            stats = json.load(open(spath))
        execs = int(stats.get("execs", 0))
        acc.extra["atheris_execs"] = acc.extra.get("atheris_execs", 0) + execs
        acc.extra["atheris_nontrivial_execs"] = acc.extra.get("atheris_nontrivial_execs", 0) + int(stats.get("nontrivial", 0))
        acc.extra["atheris_resolve_stage_execs"] = acc.extra.get("atheris_resolve_stage_execs", 0) + int(stats.get("resolve_stage", 0))
        acc.evaluations += execs
        acc.label("kind:atheris", execs)
        for name in sorted(os.listdir(tmp)):
            if name.startswith("fail-") and name.endswith(".json"):
                d = json.load(open(os.path.join(tmp, name)))
                acc.fail(d["sig"], "[atheris] %s" % d["what"], unjson(d["case"]))
        crashes = [n for n in os.listdir(tmp) if n.startswith(("crash-", "timeout-", "oom-"))]
        if crashes or (rc not in (0,) and execs == 0):
            raise RuntimeError("atheris C14 target ended rc=%s artifacts=%s\n%s" % (rc, crashes, tail))
        acc.note("atheris: %d executions (coverage-guided over ioflo.base, C14 oracle inside the target)" % execs)
    finally:
        shutil.rmtree(tmp, ignore_errors=True)


if __name__ == "__main__":
    main(sys.argv)
