"""Regenerate /verif/MANIFEST.json from the check modules present (python -m vp.mkmanifest)."""
import glob
import importlib
import json
import os
import re

from vp.core import env

HERE = env.VERIF

SETUP = ("/venv/bin/python -c 'import hypothesis' 2>/dev/null || "
         "/venv/bin/pip install --no-index --find-links /opt/veriftools/wheels hypothesis; "
         "/venv/bin/python -c 'import hypothesis, sys; sys.path.insert(0, \"/repo\"); print(\"setup ok, hypothesis\", hypothesis.__version__)'")

BASELINE = ("cd /repo && env -u IOFLO_VERIF /venv/bin/python -m pytest -ra -q -p no:cacheprovider --timeout=900 "
            "--continue-on-collection-errors")


def main():
    env.use_repo()
    props = [json.loads(l) for l in open(os.path.join(HERE, "properties.jsonl"))]
    checks = []
    na = []
    na_reasons = {}
    p = os.path.join(HERE, "not_applicable.json")
    if os.path.exists(p):
        na_reasons = json.load(open(p))
    for prop in props:
        pid = prop["id"]
        mods = sorted(glob.glob(os.path.join(HERE, "vp", "checks", pid.lower() + "_*.py")))
        if not mods:
            na.append({"property_id": pid, "reason": na_reasons.get(
                pid, "no check registered yet: the design in DESIGN.md section 3 is not implemented for this property")})
            continue
        mod = importlib.import_module("vp.checks." + os.path.splitext(os.path.basename(mods[0]))[0])
        meta = mod.META
        checks.append({
            "property_id": pid,
            "quick_cmd": "./check %s --tier quick" % pid,
            "thorough_cmd": "./check %s --tier thorough" % pid,
            "evidence_file": "/verif/evidence/%s.json" % pid,
            "replay_cmd_template": "./check %s --replay {path}" % pid,
            "engine": meta.get("engine", "vp (hypothesis + enumerators)"),
            "level_claimed": {"category": meta["level"], "text": meta["text"],
                              "design_ref": meta.get("design_ref", "DESIGN.md section 3, %s" % pid)},
            "level_note": meta["note"],
            "technique": meta["technique"],
        })
    hooks_path = os.path.join(HERE, "hooks.json")
    hooks = {"guard": "IOFLO_VERIF", "enable": "checks export IOFLO_VERIF=1 before importing ioflo from /repo's working tree (editable install; no build step)",
             "baseline_off_cmd": BASELINE, "source_commits": [], "add_only": True}
    if os.path.exists(hooks_path):
        hooks.update(json.load(open(hooks_path)))
    man = {
        "version": 1,
        "setup_cmd": SETUP,
        "hooks": hooks,
        "engines": [
            {"name": "vp", "path": "/verif/vp", "serves_properties": [c["property_id"] for c in checks],
             "kind_free_text": "property-based testing harness: Hypothesis strategies / operation-sequence generation against reference models, "
                               "exhaustive enumerators for finite domains, fault-injecting socket doubles, collect-then-classify failure bucketing, "
                               "shrinking to JSON replay files"},
        ],
        "checks": checks,
        "not_applicable": na,
        "notes": "All checks import ioflo from /repo's current working tree (VP_REPO overrides for sensitivity trials). "
                 "Exit 0/1/2 = held / violation / harness error. known_findings.txt lists fixed and open findings.",
    }
    with open(os.path.join(HERE, "MANIFEST.json"), "w") as fh:
        json.dump(man, fh, indent=1)
        fh.write("\n")
    print("MANIFEST.json: %d checks, %d not claimed" % (len(checks), len(na)))


if __name__ == "__main__":
    main()
