"""Reference interpreter of the documented FloScript run-time semantics (independent of ioflo).

Works on the program AST of vp.flo.ast and produces the same trace type as vp.flo.run.
Time is exact (fractions.Fraction): tick n happens at n*P.

The semantics implemented here are those of DESIGN.md Appendix A (written from ioflo's
documentation strings and the property statements). `opts` selects deviations:
  opts["trunc_exits"] = True  -> finding model: a transition / stop / abort exits only the
       truncated active list while a conditional auxiliary suspends lower frames (the
       strict model exits the full outline of the active frame).
"""
from fractions import Fraction
from collections import deque

STOPPED, STARTED, RUNNING, ABORTED, READIED = "stopped", "started", "running", "aborted", "readied"
STOP, START, RUN, ABORT, READY = "stop", "start", "run", "abort", "ready"


class Crash(Exception):
    """injected action failure"""


class Interrupt(BaseException):
    """injected keyboard interrupt"""


class RShare(object):
    __slots__ = ("value", "stamp", "marks", "extra")

    def __init__(self, value=None):
        self.value = value
        self.stamp = None     # tick index of last update (None = only inited)
        self.marks = {}
        self.extra = {}       # fields added at run time by an injected external write (prog["inject"])


class RMark(object):
    __slots__ = ("stamp", "used", "data", "has_data")

    def __init__(self):
        self.stamp = None
        self.used = None
        self.data = None
        self.has_data = False


class RAct(object):
    __slots__ = ("a", "line", "kind", "ctx", "frame", "extra")

    def __init__(self, a, line, kind, ctx, frame, extra=None):
        self.a = a
        self.line = line
        self.kind = kind
        self.ctx = ctx
        self.frame = frame
        self.extra = extra


class RFrame(object):
    def __init__(self, name, framer, index):
        self.name = name
        self.framer = framer
        self.index = index      # declaration index in framer
        self.over = None
        self.unders = []
        self.outline = []
        self.head = []
        self.next = None
        self.lists = {c: [] for c in ("benter", "precur", "enter", "renter", "recur", "exit", "rexit")}
        self.auxes = []         # plain auxiliaries (RFramer)


class RFramer(object):
    def __init__(self, fr):
        self.name = fr["name"]
        self.sched = fr["sched"]
        self.order = fr.get("order") or "mid"
        self.period = Fraction(fr["period"]) if fr.get("period") is not None else Fraction(0)
        self.frames = {}
        self.frame_list = []
        self.first = None
        self.status = STOPPED
        self.desire = STOP
        self.done = True
        self.stamp = Fraction(0)
        self.elapsed = Fraction(0)
        self.recurred = 0
        self.active = None
        self.actives = []
        self.main = None
        self.dead = False       # generator finished (after an exception escaped from it)


class Ref(object):
    def __init__(self, prog, opts=None):
        self.prog = prog
        self.opts = opts or {}
        self.P = Fraction(prog.get("period", "0.125"))
        self.tick = 0
        self.now = Fraction(0)
        self.events = []
        self.shares = {}
        self.framers = {}
        self.order = []
        self.crash = None
        self.calls = 0
        self._build()

    # ------------------------------------------------------------------ structure
    def share(self, path):
        s = self.shares.get(path)
        if s is None:
            s = self.shares[path] = RShare(None)
        return s

    def _build(self):
        from vp.flo import ast as A
        prog = self.prog
        for path, val in prog.get("inits", []):
            self.share(path).value = val
        for fr in prog["framers"]:
            F = RFramer(fr)
            self.framers[F.name] = F
            self.order.append(F)
            for i, f in enumerate(fr["frames"]):
                fm = RFrame(f["name"], F, i)
                F.frames[fm.name] = fm
                F.frame_list.append(fm)
        # links
        for fr in prog["framers"]:
            F = self.framers[fr["name"]]
            for i, f in enumerate(fr["frames"]):
                fm = F.frames[f["name"]]
                if f.get("over"):
                    fm.over = F.frames[f["over"]]
                if i + 1 < len(fr["frames"]):
                    fm.next = F.frames[fr["frames"][i + 1]["name"]]
            F.first = F.frames[fr["first"]] if fr.get("first") else F.frame_list[0]
            # children are attached to a parent when the first frame (in declaration order)
            # of the child's subtree is resolved: order children by the smallest declaration
            # index found in their subtree
            kids = {}
            for fm in F.frame_list:
                if fm.over is not None:
                    kids.setdefault(fm.over.name, []).append(fm)

            def minidx(fm):
                m = fm.index
                for k in kids.get(fm.name, []):
                    m = min(m, minidx(k))
                return m
            for fm in F.frame_list:
                fm.unders = sorted(kids.get(fm.name, []), key=minidx)
            for fm in F.frame_list:
                up = []
                x = fm
                while x is not None:
                    up.append(x)
                    x = x.over
                up.reverse()
                fm.head = list(up)
                down = []
                x = fm.unders[0] if fm.unders else None
                while x is not None:
                    down.append(x)
                    x = x.unders[0] if x.unders else None
                fm.outline = up + down
        # acts
        deacts = []
        for fr in prog["framers"]:
            F = self.framers[fr["name"]]
            for f in fr["frames"]:
                fm = F.frames[f["name"]]
                for a in f["acts"]:
                    ctx = A.act_context(a)
                    k = a["kind"]
                    if ctx == "aux":
                        fm.auxes.append(self.framers[a["name"]])
                        continue
                    if k == "let":
                        for j, n in enumerate(a["needs"]):
                            fm.lists["benter"].append(RAct(a, a["line"], "need", "benter", fm, n))
                        continue
                    kind = {"timeout": "go", "repeat": "go", "aux": "auxif"}.get(k, k)
                    fm.lists[ctx].append(RAct(a, a["line"], kind, ctx, fm))
        # conditional aux: a deactivating side act is appended to the main frame's exit
        # acts when the frame's precur acts are resolved (after all scripted exit acts)
        for F in self.order:
            for fm in F.frame_list:
                for ra in fm.lists["precur"]:
                    if ra.kind == "auxif":
                        fm.lists["exit"].append(RAct(ra.a, ra.line, "deact", "exit", fm))
        # marker enter acts: `is updated|changed in frame X` inserts a marker as FIRST enter act
        # of frame X when the need is resolved (frames in declaration order; per frame the
        # lists are resolved benter, enter, recur, precur, exit, rexit, renter)
        for F in self.order:
            if F.sched == "moot":
                continue
            for fm in F.frame_list:
                for ctx in ("benter", "enter", "recur", "precur", "exit", "rexit", "renter"):
                    for ra in list(fm.lists[ctx]):
                        needs = []
                        if ra.kind == "need":
                            needs = [ra.extra]
                        elif ra.kind in ("go", "auxif"):
                            needs = ra.a.get("needs") or []
                        for n in needs:
                            if n["kind"] in ("updated", "changed"):
                                self._resolve_marker(F, fm, ra, n)

    def _marker_key(self, F, fm, n):
        target = n.get("frame")
        tf = fm if (not target or target == "me") else F.frames[target]
        key = F.name + "<" + (n["by"] if n.get("by") else tf.name)
        return tf, key

    def _resolve_marker(self, F, fm, ra, n):
        tf, key = self._marker_key(F, fm, n)
        sh = self.share(n["share"])
        if key not in sh.marks:
            sh.marks[key] = RMark()
        if n.get("frame"):
            for ea in tf.lists["enter"]:
                if ea.kind == "mark" and ea.extra == (n["kind"], n["share"], key):
                    break
            else:
                tf.lists["enter"].insert(0, RAct(ra.a, ra.line, "mark", "enter", tf, (n["kind"], n["share"], key)))

    # ------------------------------------------------------------------ events
    def ev(self, e):
        self.events.append(e)

    def _count_call(self):
        self.calls += 1
        c = self.crash
        if c and not c.get("between") and c["tick"] == self.tick and c["nth"] == self.calls:
            if c.get("exc") == "KeyboardInterrupt":
                raise Interrupt()
            raise Crash()

    # ------------------------------------------------------------------ needs
    def eval_need(self, n, F, fm):
        r = self._need(n, F, fm)
        return (not r) if n.get("neg") else bool(r)

    @staticmethod
    def check(state, op, goal, tol):
        if op == "==":
            try:
                return (goal - abs(tol)) <= state <= (goal + abs(tol))
            except TypeError:
                return goal == state
        if op == "!=":
            try:
                return not ((goal - abs(tol)) <= state <= (goal + abs(tol)))
            except TypeError:
                return goal != state
        if op == "<":
            return state < goal
        if op == "<=":
            return state <= goal
        if op == ">=":
            return state >= goal
        if op == ">":
            return state > goal
        return False

    def _need(self, n, F, fm):
        k = n["kind"]
        if k == "cmp":
            goal = n["goal"]
            g = self.share(goal["path"]).value if isinstance(goal, dict) else goal
            tol = n.get("tol")
            return self.check(self.share(n["state"]).value, n["op"], g, 0 if tol is None else tol)
        if k == "bool":
            return bool(self.share(n["state"]).value)
        if k == "elapsed":
            return self.check(F.elapsed, n["op"], self._num(n["goal"]), 0)
        if k == "recurred":
            return self.check(F.recurred, n["op"], self._num(n["goal"]), 0)
        if k == "done":
            return self.framers[n["tasker"]].done
        if k == "status":
            T = F if n["tasker"] == "me" else self.framers[n["tasker"]]
            return T.status == n["status"]
        if k == "auxdone":
            which = n["aux"]
            if n.get("frame"):
                tf = fm if n["frame"] == "me" else F.frames[n["frame"]]
                if which == "any":
                    return any(x.done for x in tf.auxes)
                if which == "all":
                    return bool(tf.auxes) and all(x.done for x in tf.auxes)
                X = self.framers[which]
                return X.done if X in tf.auxes else False
            return self.framers[which].done
        if k == "updated":
            tf, key = self._marker_key(F, fm, n)
            sh = self.share(n["share"])
            mk = sh.marks.get(key)
            if mk is None or sh.stamp is None:
                return False
            return (mk.stamp is None) or (sh.stamp > mk.stamp) or (sh.stamp == mk.stamp and mk.used != mk.stamp)
        if k == "changed":
            tf, key = self._marker_key(F, fm, n)
            sh = self.share(n["share"])
            mk = sh.marks.get(key)
            if mk is None:
                return False
            if not mk.has_data:
                return True
            return mk.data != (sh.value, tuple(sorted(sh.extra.items())))
        raise ValueError(k)

    @staticmethod
    def _num(v):
        if isinstance(v, str):
            return Fraction(v)
        if isinstance(v, float):
            return Fraction(repr(v))
        return v

    # ------------------------------------------------------------------ acts
    def run_list(self, fm, ctx):
        for ra in fm.lists[ctx]:
            self.run_act(ra)

    def write(self, path, value):
        sh = self.share(path)
        sh.value = value
        sh.stamp = self.tick

    def run_act(self, ra):
        """Run a non-need, non-interrupting act (enter/renter/recur/exit/rexit contexts;
        also plain data acts placed in precur return None and never interrupt)."""
        self._count_call()
        fm = ra.frame
        F = fm.framer
        a = ra.a
        k = ra.kind
        pos = len(self.events)
        self.ev(["act", F.name, fm.name, ra.ctx, ra.line, k, None])
        boolres = ra.ctx in ("benter", "precur") or k == "fiat"
        try:
            res = self._do_act(ra)
        except (Crash, Interrupt):
            if boolres:
                self.events[pos][6] = "raised"
            raise
        if boolres:
            self.events[pos][6] = bool(res)
        return res

    def _do_act(self, ra):
        fm = ra.frame
        F = fm.framer
        a = ra.a
        k = ra.kind
        res = None
        if k == "put":
            self.write(a["dst"], a["val"])
        elif k == "copy":
            self.write(a["dst"], self.share(a["src"]).value)
        elif k == "set":
            self.write(a["dst"], self.share(a["src"]).value if "src" in a else a["val"])
        elif k == "inc":
            cur = self.share(a["dst"]).value
            by = self.share(a["src"]).value if "src" in a else a["val"]
            try:
                new = cur + by
            except TypeError:
                new = None
            else:
                self.write(a["dst"], new)
        elif k == "bid":
            targets = []
            for t in a["targets"]:
                if t == "all":
                    for T in self.taskables:
                        if T not in targets:
                            targets.append(T)
                else:
                    T = F if t == "me" else self.framers[t]
                    if T not in targets:
                        targets.append(T)
            for T in targets:
                if a.get("period") is not None and a["verb"] in ("start", "run", "ready"):
                    T.period = max(Fraction(0), Fraction(a["period"]))
                T.desire = a["verb"]
        elif k == "done":
            for t in a["targets"]:
                T = F if t == "me" else self.framers[t]
                T.done = True
        elif k == "fiat":
            T = self.framers[a["target"]]
            status = self.send(T, a["verb"])
            want = {"ready": READIED, "start": STARTED, "run": RUNNING, "stop": STOPPED, "abort": ABORTED}[a["verb"]]
            res = (status == want)
        elif k == "mark":
            kind, path, key = ra.extra
            self.do_mark(kind, path, key, transit=False)
        elif k == "deact":
            X = self.framers[a["name"]]
            if X.active is not None and X.main is fm:
                self.deactivate_aux(X)
        else:
            raise ValueError("unexpected act kind %r in context %s" % (k, ra.ctx))
        return res

    def do_mark(self, kind, path, key, transit):
        sh = self.share(path)
        mk = sh.marks.get(key)
        if mk is None:
            return
        if kind == "updated":
            mk.stamp = self.tick
            if transit:
                mk.used = mk.stamp
        else:
            mk.data = (sh.value, tuple(sorted(sh.extra.items())))
            mk.has_data = True

    # ------------------------------------------------------------------ framer mechanics
    def restart_clocks(self, F):
        F.stamp = self.now
        F.elapsed = Fraction(0)
        F.recurred = 0

    def activate(self, F, fm):
        F.active = fm
        F.actives = list(fm.outline)

    def check_start(self, F, claimed=None):
        return self.check_enter(F, list(F.first.outline), [], claimed)

    def check_enter(self, F, enters, exits, claimed=None):
        if not enters:
            return False
        if claimed is None:
            claimed = []   # an original aux can have only one main frame at a time, through every nesting level
        for fm in enters:
            if not self.frame_check_enter(fm, exits, claimed):
                return False
            for X in fm.auxes:
                if X in claimed:
                    return False
                claimed.append(X)
        return True

    def frame_check_enter(self, fm, exits, claimed=None):
        F = fm.framer
        for ra in fm.lists["benter"]:
            self._count_call()
            if ra.kind == "need":
                pos = len(self.events)
                self.ev(["act", F.name, fm.name, "benter", ra.line, "need", None])
                r = self.eval_need(ra.extra, F, fm)
                self.events[pos][6] = r
            else:
                self.calls -= 1
                r = self.run_act(ra)   # e.g. `ready slave` fiat in benter context
                r = bool(r)
            if not r:
                return False
        for X in fm.auxes:
            if X.main is not None and X.main is not fm and X.main not in exits:
                return False
            if not self.check_start(X, claimed):
                return False
        return True

    def enter_all(self, F):
        self.ev(["enterall", F.name])
        F.done = False
        self.activate(F, F.first)
        self.enter_frames(F, list(F.actives))

    def enter_frames(self, F, enters):
        if enters:
            self.restart_clocks(F)
        for fm in enters:
            self.ev(["f", F.name, fm.name, "enter"])
            self.run_list(fm, "enter")
            for X in fm.auxes:
                X.main = fm
                self.enter_all(X)

    def exit_frames(self, F, exits):
        for fm in reversed(exits):
            self.ev(["f", F.name, fm.name, "exit"])
            for X in fm.auxes:
                self.exit_all(X)
                X.main = None
            self.run_list(fm, "exit")

    def suspended(self, F):
        """Frames of the active outline suspended below the main frame of a running
        conditional aux: cut from .actives but still entered, so exited with the main frame."""
        if self.opts.get("trunc_exits"):
            return []
        if F.active is not None and len(F.actives) < len(F.active.outline):
            return list(F.active.outline[len(F.actives):])
        return []

    def entered_outline(self, F):
        """Frames of F that are entered and not exited (what stop/abort exit)."""
        return list(F.actives) + self.suspended(F)

    def exit_all(self, F, abort=False):
        self.ev(["exitall", F.name, bool(abort)])
        self.exit_frames(F, self.entered_outline(F))
        F.actives = []
        F.active = None
        if not abort:
            F.done = True

    def deactivate_aux(self, X):
        self.exit_all(X)
        X.main = None

    def recur(self, F):
        for fm in list(F.actives):
            self.ev(["f", F.name, fm.name, "recur"])
            self.run_list(fm, "recur")
            for X in fm.auxes:
                self.recur(X)

    def segue(self, F):
        F.elapsed = self.now - F.stamp
        F.recurred += 1
        actives = F.actives          # the list being iterated is the one current at loop start
        for fm in list(actives):
            for X in fm.auxes:
                self.segue(X)
        for fm in list(actives):
            self.ev(["f", F.name, fm.name, "precur"])
            for ra in fm.lists["precur"]:
                if ra.kind == "go":
                    if self.transit(ra):
                        return True
                elif ra.kind == "auxif":
                    if self.suspend(ra):
                        return True
                else:
                    self.run_act(ra)   # plain act in precur context: result ignored unless truthy
        return False

    @staticmethod
    def exen(nears, far):
        fars = far.outline
        for i in range(min(len(nears), len(fars))):
            if nears[i] is far or nears[i] is not fars[i]:
                return nears[i:], fars[i:], nears[:i]
        return [], [], list(nears)

    def go_needs(self, ra):
        a = ra.a
        if a["kind"] == "timeout":
            return [{"kind": "elapsed", "op": ">=", "goal": a["t"]}]
        if a["kind"] == "repeat":
            return [{"kind": "recurred", "op": ">=", "goal": a["n"]}]
        return a.get("needs") or []

    def transit(self, ra):
        self._count_call()
        fm = ra.frame
        F = fm.framer
        a = ra.a
        pos = len(self.events)
        self.ev(["act", F.name, fm.name, "precur", ra.line, "go", None])
        try:
            return self._transit(ra, pos)
        except (Crash, Interrupt):
            self.events[pos][6] = "raised"
            raise

    def _transit(self, ra, pos):
        fm = ra.frame
        F = fm.framer
        a = ra.a
        needs = self.go_needs(ra)
        for j, n in enumerate(needs):
            r = self.eval_need(n, F, fm)
            self.ev(["need", F.name, fm.name, ra.line, j, r])
            if not r:
                self.events[pos][6] = False
                return False
        far_name = a.get("far", "next") if a["kind"] == "go" else "next"
        if far_name == "next":
            far = fm.next
        elif far_name == "me":
            far = fm
        else:
            far = F.frames[far_name]
        exits, enters, reexens = self.exen(list(F.actives), far)
        if exits:
            exits = exits + self.suspended(F)
        if not self.check_enter(F, enters, exits):
            self.events[pos][6] = False
            return False
        self.events[pos][6] = True
        for j, n in enumerate(needs):
            if n["kind"] in ("updated", "changed"):
                tf, key = self._marker_key(F, fm, n)
                self.ev(["tract", F.name, fm.name, ra.line])
                self.do_mark(n["kind"], n["share"], key, transit=True)
        self.exit_frames(F, exits)
        for x in reversed(reexens):
            self.ev(["f", F.name, x.name, "rexit"])
            self.run_list(x, "rexit")
        for x in reexens:
            self.ev(["f", F.name, x.name, "renter"])
            self.run_list(x, "renter")
        self.enter_frames(F, enters)
        self.activate(F, far)
        return True

    def suspend(self, ra):
        self._count_call()
        fm = ra.frame
        F = fm.framer
        a = ra.a
        X = self.framers[a["name"]]
        pos = len(self.events)
        self.ev(["act", F.name, fm.name, "precur", ra.line, "auxif", None])
        try:
            return self._suspend(ra, pos)
        except (Crash, Interrupt):
            self.events[pos][6] = "raised"
            raise

    def _suspend(self, ra, pos):
        fm = ra.frame
        F = fm.framer
        a = ra.a
        X = self.framers[a["name"]]
        needs = a.get("needs") or []
        if X.done and X.active is not None and X.main is fm:
            # marked done from outside its own run while still entered: clean up
            self.deactivate_aux(X)
            self.resume(F)
            self.events[pos][6] = False
            return False
        if X.done:
            for j, n in enumerate(needs):
                r = self.eval_need(n, F, fm)
                self.ev(["need", F.name, fm.name, ra.line, j, r])
                if not r:
                    self.events[pos][6] = False
                    return False
            if X.main is not None and X.main is not fm:
                self.events[pos][6] = False
                return False
            if not self.check_start(X):
                self.events[pos][6] = False
                return False
            for j, n in enumerate(needs):
                if n["kind"] in ("updated", "changed"):
                    tf, key = self._marker_key(F, fm, n)
                    self.ev(["tract", F.name, fm.name, ra.line])
                    self.do_mark(n["kind"], n["share"], key, transit=True)
            X.main = fm
            self.enter_all(X)
            self.recur(X)
            if X.done:
                self.deactivate_aux(X)
                self.events[pos][6] = False
                return False
            F.actives = list(fm.head)
            self.events[pos][6] = True
            return True
        # running
        if X.main is not fm:
            # active as the auxiliary of another frame (e.g. as its plain aux): not this frame's to run
            self.events[pos][6] = False
            return False
        self.segue(X)
        self.recur(X)
        if X.done:
            self.deactivate_aux(X)
            self.resume(F)
            self.events[pos][6] = False
            return False
        self.events[pos][6] = True
        return True

    def resume(self, F):
        """Full outline again, unless another conditional aux of a frame in the outline still runs:
        then the outline stays cut at the topmost such main frame."""
        F.actives = list(F.active.outline)
        for fm in F.actives:
            for ra in fm.lists["precur"]:
                if ra.kind == "auxif":
                    X = self.framers[ra.a["name"]]
                    if not X.done and X.active is not None and X.main is fm:
                        F.actives = list(fm.head)
                        return

    # ------------------------------------------------------------------ runner
    def send(self, T, control):
        pos = len(self.events)
        self.ev(["send", T.name, control, None])
        if T.dead:
            self.events[pos][3] = "dead"
            raise StopIteration()
        try:
            self._runner(T, control)
        except (Crash, Interrupt):
            T.dead = True
            T.desire = ABORT
            T.status = ABORTED
            self.events[pos][3] = "raised"
            raise
        self.events[pos][3] = T.status
        self.ev(["state", T.name, T.status, T.active.name if T.active is not None else None,
                 [f.name for f in T.actives]])
        return T.status

    def _runner(self, T, control):
        st = T.status
        live = st in (STARTED, RUNNING)
        idle = st in (STOPPED, READIED)
        if control == RUN:
            if live:
                self.segue(T)
                self.recur(T)
                T.status = RUNNING
            elif idle:
                T.desire = START
            else:
                T.desire = ABORT
                T.status = ABORTED
        elif control == READY:
            if idle:
                if self.check_start(T):
                    T.status = READIED
                else:
                    T.desire = STOP
                    T.status = STOPPED
            elif live:
                pass
            else:
                T.desire = ABORT
                T.status = ABORTED
        elif control == START:
            if idle:
                if self.check_start(T):
                    T.desire = RUN
                    self.enter_all(T)
                    self.recur(T)
                    T.status = STARTED
                else:
                    T.desire = STOP
                    T.status = STOPPED
            elif live:
                T.desire = RUN
            else:
                T.desire = ABORT
                T.status = ABORTED
        elif control == STOP:
            if live:
                T.desire = STOP
                self.exit_all(T, abort=True)
                T.status = STOPPED
            elif idle:
                pass
            else:
                T.desire = ABORT
                T.status = ABORTED
        else:  # ABORT
            if live:
                self.exit_all(T)
            T.desire = ABORT
            T.status = ABORTED

    # ------------------------------------------------------------------ skedder
    def snapshot(self, paths):
        snap = {"framers": {}, "shares": {}}
        for F in self.order:
            if F.sched == "moot":
                continue
            snap["framers"][F.name] = {
                "status": F.status, "desire": F.desire,
                "active": F.active.name if F.active is not None else None,
                "actives": [f.name for f in F.actives], "done": bool(F.done),
                "elapsed": F.elapsed, "recurred": F.recurred, "period": F.period,
            }
        for p in paths:
            sh = self.shares.get(p)
            snap["shares"][p] = None if sh is None else {"items": [["value", sh.value]] + [[k, v] for k, v in sh.extra.items()],
                                                         "stamp": sh.stamp}
        return snap

    def run(self, ticks, paths, crash=None):
        """-> trace dict like vp.flo.run.run_real"""
        self.crash = crash
        trace = {"build": "True", "ticks": [], "final": None, "exc": None, "interrupted": False}
        fronts = [F for F in self.order if F.sched in ("active", "inactive") and F.order == "front"]
        mids = [F for F in self.order if F.sched in ("active", "inactive") and F.order == "mid"]
        backs = [F for F in self.order if F.sched in ("active", "inactive") and F.order == "back"]
        self.taskables = fronts + mids + backs
        ready = deque()
        for T in self.taskables:
            T.desire = START if T.sched == "active" else STOP
            T.status = STOPPED
            ready.append([T, Fraction(0), T.period])
        self.tick = 0
        self.now = Fraction(0)
        try:
            while True:
                try:
                    self.calls = 0
                    more = False
                    # external writes injected at the start of this tick (a field added to a share from outside)
                    for itick, ipath, ifield, ivalue in self.prog.get("inject") or ():
                        if itick == self.tick:
                            ish = self.share(ipath)
                            ish.extra[ifield] = ivalue
                            ish.stamp = self.tick
                            self.ev(["inject", ipath, ifield, ivalue])
                    for _ in range(len(ready)):
                        T, retime, period = ready.popleft()
                        if retime > self.now:
                            ready.append([T, retime, period])
                            status = T.status
                        else:
                            try:
                                status = self.send(T, T.desire)
                                if status == ABORTED:
                                    pass
                                else:
                                    ready.append([T, retime + T.period, T.period])
                            except StopIteration:
                                status = T.status
                        if status in (RUNNING, STARTED):
                            more = True
                    if not ready:
                        break
                    if not more:
                        break
                    if self.tick + 1 > ticks:
                        trace["interrupted"] = True
                        raise Interrupt()
                    if crash and crash.get("between") and self.tick + 1 == crash["tick"]:
                        raise Interrupt()
                    trace["ticks"].append({"events": self.events, "snap": self.snapshot(paths)})
                    self.events = []
                    self.tick += 1
                    self.now = self.tick * self.P
                except Interrupt:
                    break
                except Crash:
                    trace["exc"] = "Crash"
                    raise
        except Crash:
            pass
        finally:
            for _ in range(len(ready)):
                T, retime, period = ready.popleft()
                try:
                    self.send(T, ABORT)
                except StopIteration:
                    pass
        trace["final"] = {"events": self.events, "snap": self.snapshot(paths)}
        trace["nticks"] = self.tick + 1
        return trace


def run_ref(prog, ticks=None, opts=None, crash=None):
    from vp.flo.run import pool_paths
    from vp.flo import ast as A
    if not all("line" in a for fr in prog["framers"] for f in fr["frames"] for a in f["acts"]):
        A.render(prog)
    r = Ref(prog, opts)
    return r.run(prog.get("ticks", 10) if ticks is None else ticks, pool_paths(prog), crash)
