"""Build FloScript text with the real ioflo Builder and run the result tick-bounded.

Shared by every check that needs a built house. No repo hooks: scripts are written to a
private temp dir (tmpfs when available) because Builder only reads files.
"""
import os
import shutil
import tempfile

from vp.core import env

_TMPROOT = "/dev/shm" if os.path.isdir("/dev/shm") and os.access("/dev/shm", os.W_OK) else None


class Built(object):
    """Outcome of one build: ok True/False, or exc (the exception instance that escaped)."""
    __slots__ = ("ok", "exc", "skedder", "houses", "builder")

    def __init__(self):
        self.ok = None
        self.exc = None
        self.skedder = None
        self.houses = []
        self.builder = None

    @property
    def outcome(self):
        if self.exc is not None:
            return type(self.exc).__name__
        return "True" if self.ok else "False"


def build_text(text, period=0.125, files=None, cpu_limit=None, name="plan.flo", real=False):
    """Build `text` (plus optional extra {filename: text} for `load`) -> Built.

    Never raises for exceptions coming out of ioflo's builder (they are returned in .exc),
    except env.Hang from the cpu watchdog when cpu_limit is given.
    """
    env.quiet_ioflo()
    from ioflo.base import skedding
    d = tempfile.mkdtemp(prefix="vpflo", dir=_TMPROOT)
    res = Built()
    try:
        path = os.path.join(d, name)
        with open(path, "w") as fh:
            fh.write(text)
        for fn, t in (files or {}).items():
            with open(os.path.join(d, fn), "w") as fh:
                fh.write(t)
        sk = skedding.Skedder(name="vp", period=period, real=real, filepath=path)
        res.skedder = sk
        try:
            if cpu_limit:
                with env.cpu_watchdog(cpu_limit):
                    res.ok = sk.build()
            else:
                res.ok = sk.build()
            res.houses = list(sk.houses) if res.ok else []
        except env.Hang:
            raise
        except Exception as ex:  # noqa: E722  (ParseError, ResolveError and internal errors alike)
            res.exc = ex
            res.ok = False
    finally:
        shutil.rmtree(d, ignore_errors=True)
    return res


class TickBound(object):
    """Wraps store.changeStamp of the first house so that Skedder.run ends after max_ticks.

    The skedder calls changeStamp(stamp) once before the loop (tick 0) and once per later
    tick; when the tick index would exceed max_ticks a KeyboardInterrupt is raised, which
    Skedder.run documents as the normal way to stop a run (followed by the abort sweep).
    on_tick(tick_index, stamp) is called at every tick boundary (after the stamp changed).
    """

    def __init__(self, skedder, max_ticks, on_tick=None):
        self.tick = -1
        self.max_ticks = max_ticks
        self.on_tick = on_tick
        self.interrupted = False
        self.stores = [h.store for h in skedder.houses]
        if not self.stores:
            return
        store = self.stores[0]
        orig = store.changeStamp
        me = self

        def changeStamp(stamp):
            if me.tick + 1 > me.max_ticks:
                me.interrupted = True
                raise KeyboardInterrupt()
            orig(stamp)
            me.tick += 1
            if me.on_tick is not None:
                me.on_tick(me.tick, stamp)

        store.changeStamp = changeStamp


def run_bounded(skedder, max_ticks, on_tick=None):
    """Run skedder for at most max_ticks ticks after tick 0. Returns (TickBound, exception or None)."""
    tb = TickBound(skedder, max_ticks, on_tick)
    exc = None
    try:
        skedder.run()
    except Exception as ex:
        exc = ex
    return tb, exc
