"""Clock driven transitions inside CLONED framers (shared by C11 and C21).

A moot framer `org` with a first frame O0 holding one transition line (`timeout T`, `repeat N`, or
`go next if <condition on elapsed / recurred>`) and a second frame O1 is used as `aux org as <tag>` by frame f1
of the main framer, which is entered after `delay` ticks. The clone has its own clocks: relative to the tick at
which the clone enters O0 it must leave it at the first evaluation n >= 1 at which the written condition holds for
elapsed = n * tick period and recurred = n (exact arithmetic) - whatever the never run original's clocks say.
"""
from fractions import Fraction

from vp.flo.engine import all_events
from vp.flo.run import run_text

TAGS = ["mine", "tagx"]
OPS = {"==": lambda a, b: a == b, "!=": lambda a, b: a != b, "<": lambda a, b: a < b,
       "<=": lambda a, b: a <= b, ">=": lambda a, b: a >= b, ">": lambda a, b: a > b}


def script(line, tag, delay):
    L = ["house h", "framer main be active first f0", "frame f0"]
    L.append("go next if recurred >= %d" % delay if delay else "go next")
    L += ["frame f1", "aux org as %s" % tag, "framer org be moot", "frame O0", line, "frame O1", "print left"]
    return "\n".join(L) + "\n"


def holds(cond, n, P):
    """cond: ["timeout", T] | ["repeat", N] | ["need", clock, op, goal, negated]; n-th evaluation"""
    if cond[0] == "timeout":
        return n * Fraction(P) >= Fraction(str(cond[1]))
    if cond[0] == "repeat":
        return n >= cond[1]
    _, clock, op, goal, neg = cond
    state = n * Fraction(P) if clock == "elapsed" else Fraction(n)
    r = OPS[op](state, Fraction(str(goal)))
    return (not r) if neg else r


def line_of(cond, spelling=""):
    if cond[0] == "timeout":
        return "timeout %s" % cond[1]
    if cond[0] == "repeat":
        return "repeat %d" % cond[1]
    _, clock, op, goal, neg = cond
    return "go next if %s%s%s %s %s" % ("not " if neg else "", clock, spelling, op, goal)


def expected_leave(cond, P, bound):
    for n in range(1, bound + 1):
        if holds(cond, n, P):
            return n
    return None


def check(case):
    """case: {"P": tick period, "cond": [...], "spelling": "" | " re me", "tag": tag, "delay": ticks}
    -> (failures, trace, info)"""
    P, cond, tag, delay = case["P"], case["cond"], case["tag"], case["delay"]
    bound = case.get("bound", 12)
    line = line_of(cond, case.get("spelling", ""))
    text = script(line, tag, delay)
    ticks = delay + bound + 3
    tr = run_text(text, ticks, period=P)
    what = "clone `aux org as %s` (entered after %d ticks, tick period %s) with `%s` in its first frame" % (tag, delay, P, line)
    if tr["build"] != "True" or tr.get("exc"):
        return [("clone-build:%s" % (tr.get("exc") or tr["build"]), "%s: build %s %s %s\n%s" % (
            what, tr["build"], tr.get("detail"), tr.get("exc_detail"), text))], tr, {}
    t0 = t1 = None
    clone = None
    for t, i, e in all_events(tr):
        if e[0] == "f" and e[1] != "main" and e[3] == "enter":
            if e[2] == "O0" and t0 is None:
                t0, clone = t, e[1]
            elif e[2] == "O1" and t1 is None and e[1] == clone:
                t1 = t
    if t0 is None:
        return [("clone-never-entered", "%s: no clone of org ever entered O0\n%s" % (what, text))], tr, {}
    exp = expected_leave(cond, P, bound)
    got = None if t1 is None else t1 - t0
    fails = []
    if got != exp:
        kind = cond[0] if cond[0] != "need" else cond[1]
        how = "late" if (got is None or (exp is not None and got > exp)) else "early"
        fails.append(("clone-%s-%s" % (kind, how),
                      "%s: the clone %s entered O0 at tick %d and left it %s; with its own clocks (elapsed = n * %s, recurred = n at "
                      "the n-th evaluation) the written condition first holds at n = %r\n%s"
                      % (what, clone, t0, "never (within %d ticks)" % bound if got is None else "%d ticks later" % got, P, exp, text)))
    return fails, tr, {"clone": clone, "t0": t0, "exp": exp}


# ------------------------------------------------------------------ the main framer's clocks as seen by its auxiliary
def watcher_script(T, N):
    return "\n".join(["house h", "framer boss be active first f0", "frame f0", "aux watcher",
                      "framer watcher be aux", "frame w0", "go next if .framer.boss.state.elapsed >= %s" % T,
                      "frame w1", "go next if .framer.boss.state.recurred >= %d" % N, "frame w2", "print seen"]) + "\n"


def check_watcher(case):
    """A plain auxiliary whose transitions read the MAIN framer's elapsed / recurred through the store: at the
    evaluation n ticks after the main framer's outline was entered they are n * tick period and n, also for the
    conditions of its auxiliaries (which are evaluated in the same run). case: {"P", "T", "N"} -> failures"""
    P, T, N = case["P"], case["T"], case["N"]
    text = watcher_script(T, N)
    n1 = next(n for n in range(1, 400) if n * Fraction(P) >= Fraction(str(T)))
    n2 = max(n1 + 1, N)       # w1 is entered at tick n1 and first evaluated one tick later
    tr = run_text(text, n2 + 4, period=P)
    if tr["build"] != "True" or tr.get("exc"):
        return [("watcher-build:%s" % (tr.get("exc") or tr["build"]), "build %s %s\n%s" % (tr["build"], tr.get("detail"), text))]
    got = {}
    for t, i, e in all_events(tr):
        if e[0] == "f" and e[1] == "watcher" and e[3] == "enter" and e[2] not in got:
            got[e[2]] = t
    fails = []
    if got.get("w1") != n1:
        fails.append(("aux-sees-stale-main-elapsed", "tick period %s: the auxiliary's `.framer.boss.state.elapsed >= %s` fired at tick %r, "
                      "the main framer's elapsed reaches it at its evaluation %d\n%s" % (P, T, got.get("w1"), n1, text)))
    elif got.get("w2") != n2:
        fails.append(("aux-sees-stale-main-recurred", "tick period %s: the auxiliary's `.framer.boss.state.recurred >= %d` fired at tick %r, "
                      "expected tick %d\n%s" % (P, N, got.get("w2"), n2, text)))
    return fails


# ------------------------------------------------------------------ an auxiliary handed from frame to frame
def handover_script(conds):
    L = ["house h", "framer m be active first f0"]
    for i, c in enumerate(conds):
        L += ["frame f%d" % i, "aux x", line_of(c)]
    L += ["frame f%d" % len(conds), "print end", "framer x be aux", "frame x0", "print x"]
    return "\n".join(L) + "\n"


def check_handover(case):
    """Every frame of a sequence lists the same original aux and is left by `timeout T` / `repeat N`: the transition
    hands the aux from the frame being left to the next one, so each frame is left at the first evaluation at which
    its clock condition holds. case: {"P", "conds": [...]} -> failures"""
    P, conds = case["P"], case["conds"]
    text = handover_script(conds)
    want = []
    t = 0
    for c in conds:
        t += expected_leave(c, P, 400)
        want.append(t)
    tr = run_text(text, want[-1] + 4, period=P)
    if tr["build"] != "True" or tr.get("exc"):
        return [("handover-build:%s" % (tr.get("exc") or tr["build"]), "build %s %s\n%s" % (tr["build"], tr.get("detail"), text))]
    got = {}
    for tk, i, e in all_events(tr):
        if e[0] == "f" and e[1] == "m" and e[3] == "enter" and e[2] not in got:
            got[e[2]] = tk
    seq = [got.get("f%d" % (i + 1)) for i in range(len(conds))]
    if seq != want:
        k = next(i for i in range(len(conds)) if seq[i] != want[i])
        return [("%s-%s-with-aux-handed-over" % (conds[k][0], "late" if seq[k] is None or seq[k] > want[k] else "early"),
                 "tick period %s: frame f%d (`%s`, same original aux as the next frame) was left at tick %r, its clock reaches the "
                 "goal at tick %d (all frames: %r, expected %r)\n%s" % (P, k, line_of(conds[k]), seq[k], want[k], seq, want, text))]
    return []


# ------------------------------------------------------------------ a slave framer started and run in the same tick
def slave_script(cond, delay):
    L = ["house h", "framer boss be active first b0", "frame b0"]
    L.append("go next if recurred >= %d" % delay if delay else "go next")
    L += ["frame b1", "start worker", "run worker", "framer worker be slave first w0", "frame w0", line_of(cond),
          "frame w1", "print left"]
    return "\n".join(L) + "\n"


def check_slave(case):
    """The usual master idiom: frame b1 of the master starts the slave on entry (`start worker`) and runs it on every
    recur (`run worker`), so the slave's START and its first RUN share one tick. The slave's clocks restart when its
    outline is entered by the START; its k-th RUN (k = 1 in the tick of the START) is its k-th evaluation with
    recurred = k iterations completed and elapsed = (k - 1) tick periods. case: {"P", "cond", "delay"} -> failures"""
    P, cond, delay = case["P"], case["cond"], case["delay"]
    bound = 40
    text = slave_script(cond, delay)
    exp = None
    for k in range(1, bound + 1):
        if cond[0] == "timeout":
            ok = (k - 1) * Fraction(P) >= Fraction(str(cond[1]))
        else:
            ok = k >= cond[1]
        if ok:
            exp = k
            break
    tr = run_text(text, delay + (exp or bound) + 4, period=P)
    if tr["build"] != "True" or tr.get("exc"):
        return [("slave-build:%s" % (tr.get("exc") or tr["build"]), "build %s %s\n%s" % (tr["build"], tr.get("detail"), text))]
    t0 = t1 = None
    for t, i, e in all_events(tr):
        if e[0] == "f" and e[1] == "worker" and e[3] == "enter":
            if e[2] == "w0" and t0 is None:
                t0 = t
            elif e[2] == "w1" and t1 is None:
                t1 = t
    if t0 is None:
        return [("slave-never-started", "the slave never entered w0\n%s" % text)]
    got = None if t1 is None else t1 - t0 + 1
    if got != exp:
        return [("slave-%s-%s" % (cond[0], "late" if got is None or (exp is not None and got > exp) else "early"),
                 "tick period %s: slave started and first run in tick %d; `%s` in its first frame holds first at its run number %r "
                 "(recurred = k, elapsed = (k - 1) * %s at run k) but the frame was left at run number %r\n%s"
                 % (P, t0, line_of(cond), exp, P, got, text))]
    return []
