"""Canonical, order-preserving, JSON-like structure dump of built ioflo houses.

Used by the metamorphic checks (C13 renaming, C15 clause order, C16 layout): two builds are
"the same house" iff their dumps are equal.  What is dumped (and only this):

* house: name, tasker order lists (taskers, framers, fronts, mids, backs, taskables, slaves,
  auxes, moots) by name, metas (share paths);
* every tasker: class, name, period, schedule; loggers with prefix / flush / keep / cycle /
  size / reuse and their logs (kind, file name, rule, loggees with tag, share path, fields);
  servers with sha / dha / prefix;
* every framer: first frame, inode, tag, clone flags, main frame, aux map, and its frames in
  declaration order: inode, over / unders / next links, outline, auxes, and the acts of every
  context (beacts, preacts, enacts, renacts, reacts, exacts, rexacts) in order;
* every act: Act class, actor class, actor name, context, act inode, inits, ioinits, prerefs,
  parms (shares and nodes replaced by their store paths, frames / framers / taskers by their
  names, nested need acts dumped recursively), transit sub-acts of interrupters, io attributes
  of non-parametric actors;
* the store: sorted share paths with field values, mark keys, stamp, deck, and node paths.

Deliberately NOT dumped: `human` (the command text) and `count` (its line number) of an act -
both legitimately differ between layouts / clause orders -, wall-clock shares (.realtime,
.datetime), object identities.

Dict-like keyword containers (inits, ioinits, parms, share fields ...) are dumped with sorted
keys: keyword order carries no meaning. Lists keep their order.
"""
import collections.abc
import math
from collections import deque

VOLATILE_SHARES = (".realtime", ".datetime", ".meta.filepath")
ACT_LISTS = ("beacts", "preacts", "enacts", "renacts", "reacts", "exacts", "rexacts")


def _mods():
    from ioflo.base import storing, framing, acting, tasking, logging, serving
    return storing, framing, acting, tasking, logging, serving


def _schedule(value):
    from ioflo.base.globaling import ScheduleNames
    return ScheduleNames.get(value, value)


def conv(v, seen=None, skip_human=True):
    """Convert a value found in act parms / inits / share fields to canonical JSON-like data."""
    storing, framing, acting, tasking, logging, serving = _mods()
    if seen is None:
        seen = ()
    if v is None or isinstance(v, (bool, int, str)):
        return v
    if isinstance(v, float):
        if math.isnan(v) or math.isinf(v):
            return {"$float": repr(v)}
        return v
    if isinstance(v, complex):
        return {"$complex": [v.real, v.imag]}
    if isinstance(v, (bytes, bytearray)):
        return {"$bytes": bytes(v).hex()}
    if isinstance(v, storing.Share):
        return {"$share": v.name}
    if isinstance(v, storing.Node):
        return {"$node": getattr(v, "name", None)}
    if isinstance(v, framing.Frame):
        fr = v.framer
        return {"$frame": v.name, "of": fr.name if isinstance(fr, framing.Framer) else fr}
    if isinstance(v, framing.Framer):
        return {"$framer": v.name}
    if isinstance(v, tasking.Tasker):
        return {"$tasker": v.name, "class": type(v).__name__}
    if isinstance(v, acting.Act):
        if id(v) in seen:
            return {"$act-cycle": True}
        return dump_act(v, seen + (id(v),))
    if isinstance(v, acting.Actor):
        return {"$actor": type(v).__name__, "name": v.name}
    if isinstance(v, storing.Mark):
        return {"$mark": True}
    if isinstance(v, collections.abc.Mapping):
        out = {}
        for k in v:
            if skip_human and k == "human":
                continue
            out[k if isinstance(k, str) else repr(k)] = conv(v[k], seen)
        return dict(sorted(out.items()))
    if isinstance(v, tuple) and hasattr(v, "_fields"):
        return {"$nt": type(v).__name__, "v": [conv(x, seen) for x in v]}
    if isinstance(v, (list, tuple, deque)):
        return [conv(x, seen) for x in v]
    if isinstance(v, (set, frozenset)):
        return {"$set": sorted((conv(x, seen) for x in v), key=repr)}
    return {"$obj": type(v).__name__}


def dump_act(act, seen=()):
    storing, framing, acting, tasking, logging, serving = _mods()
    if not seen:
        seen = (id(act),)
    actor = act.actor
    d = {"kind": type(act).__name__}
    if isinstance(actor, acting.Actor):
        d["actor"] = type(actor).__name__
        d["name"] = actor.name
    else:
        d["actor"] = actor  # unresolved name string
        d["name"] = None
    fr = act.frame
    d["frame"] = fr.name if isinstance(fr, framing.Frame) else fr
    d["context"] = act.context
    d["inode"] = act.inode
    d["inits"] = conv(act.inits, seen)
    d["ioinits"] = conv(act.ioinits, seen)
    d["prerefs"] = conv(getattr(act, "prerefs", None), seen)
    d["parms"] = conv(act.parms, seen)
    if isinstance(act, acting.SideAct):
        d["action"] = act.action
    if isinstance(actor, acting.Actor):
        tracts = getattr(actor, "_tracts", None)
        if tracts:
            d["tracts"] = [conv(t, seen) for t in tracts]
        if not type(actor)._Parametric and hasattr(actor, "__dict__"):
            attrs = {}
            for k, val in vars(actor).items():
                if isinstance(val, (storing.Share, storing.Node)):
                    attrs[k] = conv(val, seen)
            if attrs:
                d["attrs"] = dict(sorted(attrs.items()))
    return d


def _name(x):
    if x is None or isinstance(x, str):
        return x
    if isinstance(x, collections.abc.Mapping):  # aux given as mapping(tag=clone) before resolve
        return {"$clone": dict(sorted((k, conv(v)) for k, v in x.items()))}
    return getattr(x, "name", repr(type(x)))


def dump_frame(frame):
    storing, framing, acting, tasking, logging, serving = _mods()
    d = {"name": frame.name,
         "framer": _name(frame.framer),
         "inode": frame.inode,
         "over": _name(frame.over),
         "unders": [_name(u) for u in frame.unders],
         "next": _name(frame.next_),
         "outline": [_name(f) for f in frame.outline],
         "auxes": [_name(a) for a in frame.auxes]}
    for lst in ACT_LISTS:
        d[lst] = [dump_act(a) for a in getattr(frame, lst)]
    return d


def dump_tasker(t):
    storing, framing, acting, tasking, logging, serving = _mods()
    d = {"name": t.name, "class": type(t).__name__, "period": t.period,
         "schedule": _schedule(getattr(t, "schedule", None))}
    if isinstance(t, framing.Framer):
        d["first"] = _name(t.first)
        d["inode"] = t.inode
        d["tag"] = t.tag
        d["original"] = t.original
        d["insular"] = t.insular
        d["razeable"] = t.razeable
        main = t.main
        d["main"] = conv(main) if main is not None else None
        d["auxes"] = {k: _name(v) for k, v in t.auxes.items()}
        d["auxorder"] = list(t.auxes.keys())
        # moot data carries the command text / line number of the aux command: not structure
        d["moots"] = {tag: conv({k: v for k, v in data.items() if k not in ("human", "count")})
                      for tag, data in t.moots.items()}
        d["frames"] = [dump_frame(f) for f in t.frameNames.values()]
    elif isinstance(t, logging.Logger):
        d["prefix"] = t.prefix
        d["flush"] = t.flushPeriod
        d["keep"] = t.keep
        d["cycle"] = t.cyclePeriod
        d["size"] = t.fileSize
        d["reuse"] = t.reuse
        logs = []
        for log in t.logs:
            from ioflo.base.globaling import LogRuleNames
            loggees = []
            for tag, loggee in log.loggees.items():
                loggees.append({"tag": tag, "share": conv(loggee),
                                "fields": conv(log.fields.get(tag))})
            logs.append({"name": log.name, "kind": log.kind, "file": log.baseFilename,
                         "rule": LogRuleNames.get(log.rule, log.rule), "loggees": loggees})
        d["logs"] = logs
    elif isinstance(t, serving.Server):
        d["sha"] = conv(t.sha)
        d["dha"] = conv(t.dha)
        d["prefix"] = t.prefix
    return d


def dump_store(store, values=True, stamps=True):
    """{path: {...}} for every share and node of the store, sorted by path."""
    storing = _mods()[0]
    out = {}

    def walk(node, prefix):
        for key, val in node.items():
            path = prefix + "." + key
            if isinstance(val, storing.Share):
                ent = {}
                if values:
                    if path in VOLATILE_SHARES:
                        ent["fields"] = {k: "$volatile" for k in val.keys()}
                    else:
                        ent["fields"] = dict(sorted((k, conv(v)) for k, v in val.items()))
                    if stamps:
                        ent["stamp"] = val.stamp
                    if val.deck:
                        ent["deck"] = conv(list(val.deck))
                    if val.marks:
                        ent["marks"] = sorted(val.marks.keys())
                    if val._truth is not None:
                        ent["truth"] = conv(val._truth)
                    if val._unit:
                        ent["unit"] = conv(val._unit)
                out[path] = ent
            else:
                out[path + "."] = {"node": True}
                walk(val, path)

    walk(store.shares, "")
    return dict(sorted(out.items()))


def dump_house(house, store=True):
    names = lambda lst: [_name(t) for t in lst]  # noqa: E731
    d = {"name": house.name,
         "taskers": names(house.taskers),
         "framers": names(house.framers),
         "fronts": names(house.fronts),
         "mids": names(house.mids),
         "backs": names(house.backs),
         "taskables": names(house.taskables),
         "slaves": names(house.slaves),
         "auxes": names(house.auxes),
         "moots": names(house.moots),
         "metas": {k: conv(v) for k, v in house.metas.items()},
         "objects": [dump_tasker(t) for t in house.taskers]}
    if store:
        d["store"] = dump_store(house.store)
    return d


def dump_houses(houses, store=True):
    return [dump_house(h, store=store) for h in houses]


# ----------------------------------------------------------------------------- comparing
def first_diff(a, b, path="$"):
    """Return a short description of the first difference between two dumps (None if equal)."""
    if type(a) != type(b):
        return "%s: %r != %r" % (path, _short(a), _short(b))
    if isinstance(a, dict):
        for k in sorted(set(a) | set(b)):
            if k not in a:
                return "%s: key %r only on the right (%s)" % (path, k, _short(b[k]))
            if k not in b:
                return "%s: key %r only on the left (%s)" % (path, k, _short(a[k]))
            d = first_diff(a[k], b[k], path + "." + str(k))
            if d:
                return d
        return None
    if isinstance(a, list):
        for i, (x, y) in enumerate(zip(a, b)):
            d = first_diff(x, y, "%s[%d]" % (path, i))
            if d:
                return d
        if len(a) != len(b):
            return "%s: length %d != %d" % (path, len(a), len(b))
        return None
    if a != b:
        return "%s: %r != %r" % (path, _short(a), _short(b))
    return None


def _short(x, n=160):
    s = repr(x)
    return s if len(s) <= n else s[:n] + "..."


def act_shares(houses):
    """[(framer, frame, context list, index, key path, share/node path)] for every share or node
    reference reachable from the parms / attrs of every act (nested needs included)."""
    out = []
    for h in houses:
        for t in h.taskers:
            if not hasattr(t, "frameNames"):
                continue
            for f in t.frameNames.values():
                for lst in ACT_LISTS:
                    for i, a in enumerate(getattr(f, lst)):
                        _collect(dump_act(a), [t.name, f.name, lst, i], out)
    return out


def _collect(d, where, out):
    if isinstance(d, dict):
        if "$share" in d:
            out.append((where, d["$share"]))
            return
        if "$node" in d:
            out.append((where, (d["$node"] or "") + "."))
            return
        for k in d:
            _collect(d[k], where + [k], out)
    elif isinstance(d, list):
        for i, x in enumerate(d):
            _collect(x, where + [i], out)
