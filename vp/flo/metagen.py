"""Small FloScript generators for the metamorphic checks C13 / C15 / C16.

Independent of vp.flo.gen (the large program generator): everything here is a Hypothesis
strategy that yields plain JSON-like data (dicts / lists / strings) from which script text is
rendered by pure functions, so a saved case replays without Hypothesis.

Name pools are disjoint from FloScript verbs, connectives and clause keywords, so a generated
identifier is never mistaken for syntax.
"""
from hypothesis import strategies as st

# ------------------------------------------------------------------------------ vocabulary
VERBS = ['load', 'house', 'init', 'server', 'logger', 'log', 'loggee', 'framer', 'first',
         'frame', 'over', 'under', 'next', 'done', 'timeout', 'repeat', 'native', 'benter',
         'enter', 'recur', 'exit', 'precur', 'renter', 'rexit', 'print', 'put', 'inc', 'copy',
         'set', 'aux', 'rear', 'raze', 'go', 'let', 'do', 'bid', 'ready', 'start', 'stop', 'run',
         'abort', 'use', 'flo', 'give', 'take']
COMPARISONS = ['==', '<', '<=', '>=', '>', '!=']
CONNECTIVES = ['to', 'by', 'with', 'from', 'per', 'for', 'cum', 'qua', 'via', 'as', 'at', 'in',
               'of', 'on', 're', 'is', 'if', 'be', 'into', 'and', 'not', '+-']
RESERVED = CONNECTIVES + COMPARISONS
OTHER_KEYWORDS = ['flush', 'keep', 'cycle', 'size', 'reuse', 'rx', 'tx', 'me', 'main', 'mine',
                  'root', 'framer', 'frame', 'actor', 'all', 'any', 'value', 'elapsed',
                  'recurred', 'goal', 'state', 'updated', 'changed', 'done', 'true', 'false',
                  'none', 'yes', 'no', 'active', 'inactive', 'slave', 'moot', 'front', 'mid',
                  'back', 'text', 'binary', 'last', 'prev']
FORBIDDEN = set(VERBS) | set(RESERVED) | set(OTHER_KEYWORDS)

WORDS = ['alpha', 'bravo', 'carol', 'delta', 'echo', 'fox', 'golf', 'hotel', 'india', 'juliet',
         'kilo', 'lima', 'mike', 'nova', 'oscar', 'papa', 'quebec', 'romeo', 'sierra', 'tango']
assert not (set(WORDS) & FORBIDDEN)

word = st.sampled_from(WORDS)
# disjoint pools so that a generated node path never collides with a generated share path
NODEW = st.sampled_from(WORDS[:8])
SHAREW = st.sampled_from(WORDS[8:14])
FIELDS_WITH = WORDS[14:17]
FIELDS_PER = WORDS[17:20]
FIELDS_CUM = WORDS[11:14]
PERIODS = ['0', '0.5', '1', '0.125', '2.0', '0.25']
CONTEXTS = ['native', 'benter', 'enter', 'recur', 'exit', 'precur', 'renter', 'rexit']


def relpath(maxseg=2, pool=None):
    return st.lists(NODEW if pool is None else pool, min_size=1, max_size=maxseg).map(".".join)


def abspath(maxseg=3, pool=None):
    return st.lists(NODEW if pool is None else pool, min_size=1, max_size=maxseg).map(lambda s: "." + ".".join(s))


@st.composite
def inode_text(draw, level, framers=(), frames=(), allow_implicit=True):
    """Text after `via` (parseIndirect(node=True)): path [of relation].

    level: 'framer' | 'frame' | 'aux' | 'do'. Frame/actor relations are only generated at do
    level (they need an act context that every act of the framer/frame would have to supply).
    """
    # the relation forms carry the optional trailing words (`of framer [name]`, `of frame [name]`,
    # `of actor [name]`) that are most exposed to the clause that follows, so they get 3 of 8 draws
    kind = draw(st.sampled_from(["rel", "rel.", "abs", "abs.", "me", "of", "of", "of"]))
    if kind == "rel":
        return draw(relpath())
    if kind == "rel.":
        return draw(relpath()) + "."
    if kind == "abs":
        return draw(abspath(2))
    if kind == "abs.":
        return draw(abspath(2)) + "."
    if kind == "me":
        return "me." + draw(relpath())
    # relation forms
    path = draw(relpath(1)) + draw(st.sampled_from(["", "."]))
    rels = ["root", "framer", "framer"]
    if level == "do":
        rels += ["frame", "frame", "frame", "actor", "me"]
    rel = draw(st.sampled_from(rels))
    text = path + " of " + rel
    if rel == "framer":
        named = draw(st.booleans()) if allow_implicit else True
        if named and framers:
            text += " " + draw(st.sampled_from(list(framers)))
    elif rel == "frame":
        named = draw(st.booleans()) if allow_implicit else True
        if named and frames:
            text += " " + draw(st.sampled_from(list(frames)))
            if framers and draw(st.booleans()):
                text += " of framer " + draw(st.sampled_from(list(framers)))
    elif rel == "actor":
        pass  # of actor [me] : own actor only (a named foreign actor need not exist)
    return text


@st.composite
def direct_data(draw, values=None, single_ok=True, fields=None):
    """Text after with/per/cum (parseDirect): `value` or `field value [field value ...]`."""
    vals = values if values is not None else st.sampled_from(["1", "2.5", "true", '"a b"', "'q'", "7", "-3", '"run #7"', "'#'", '"a#"'])
    if single_ok and draw(st.integers(0, 3)) == 0:
        return draw(vals)
    n = draw(st.integers(1, 3))
    fields = draw(st.lists(st.sampled_from(fields or WORDS), min_size=n, max_size=n, unique=True))
    return " ".join("%s %s" % (f, draw(vals)) for f in fields)


# ------------------------------------------------------------------------------ C15 commands
# A command case is
#   {"verb": ..., "pre": [lines], "head": "text before the clauses", "clauses": [[key, text], ...],
#    "tail": "text after the clauses ('' or ' if need')", "post": [lines], "defect": key | None,
#    "perms": None | [[...], ...]}
# script(case, order) = pre + [head + ' ' + ' '.join(clauses in order) + tail] + post

DEFECT_RATE = 4  # one case in DEFECT_RATE carries exactly one defective clause


def _subset(draw, keys, min_size=2):
    # sizes are drawn from an explicit list (Hypothesis would otherwise favour the minimum)
    sizes = [k for k in (2, 3, 3, 4, 4, 5, 6, 7, 9) if min_size <= k <= len(keys)] or [min_size]
    n = draw(st.sampled_from(sizes))
    ks = draw(st.permutations(keys))[:n]
    return list(ks)


def _indent(lines, n):
    return [" " * n + ln for ln in lines]


@st.composite
def cmd_framer(draw):
    keys = _subset(draw, ["be", "at", "first", "via", "in"])
    defect = draw(st.sampled_from(keys)) if draw(st.integers(1, DEFECT_RATE)) == 1 else None
    clauses = []
    for k in keys:
        bad = (k == defect)
        if k == "be":
            t = "be " + ("bogus" if bad else draw(st.sampled_from(["active", "inactive", "aux", "slave", "moot"])))
        elif k == "at":
            t = "at " + ("soon" if bad else draw(st.sampled_from(PERIODS)))
        elif k == "first":
            # defect: dangling frame reference (ResolveError -> build False) or invalid name
            t = "first " + (draw(st.sampled_from(["nosuch", "9bad"])) if bad else draw(st.sampled_from(["fa", "fb"])))
        elif k == "via":
            t = "via " + ("9bad" if bad else draw(inode_text("framer", framers=["fone", "ftwo"])))
        else:
            t = "in " + ("bogus" if bad else draw(st.sampled_from(["front", "mid", "back"])))
        clauses.append([k, t])
    pre = ["house hs", "init .trial with depth 5 height 10"]
    post = ["  frame fa", "    print hi", "    put 1 into rela", "  frame fb", "    put 2 into relb of framer",
            "framer ftwo be active", "  frame ga", "    print ho"]
    return {"verb": "framer", "pre": pre, "head": "framer fone", "clauses": clauses, "tail": "",
            "post": post, "defect": defect}


@st.composite
def cmd_frame(draw):
    keys = _subset(draw, ["in", "via"], min_size=2)
    defect = draw(st.sampled_from(keys)) if draw(st.integers(1, DEFECT_RATE)) == 1 else None
    clauses = []
    for k in keys:
        bad = (k == defect)
        if k == "in":
            t = "in " + ("nosuch" if bad else "top")
        else:
            t = "via " + ("9bad" if bad else draw(inode_text("frame", framers=["fone"])))
        clauses.append([k, t])
    pre = ["house hs", "framer fone be active first fa via " + draw(relpath(1)), "  frame top via " + draw(relpath(1))]
    post = ["      put 1 into rela", "      put 2 into me.relb", "      go next", "    frame fz in top", "      print z"]
    return {"verb": "frame", "pre": pre, "head": "    frame fa", "clauses": clauses, "tail": "",
            "post": post, "defect": defect}


@st.composite
def source_text(draw, share, fields, framers=(), frames=()):
    """Text after from/for/qua: [fields in] indirect."""
    t = ""
    if draw(st.booleans()):
        k = draw(st.integers(1, len(fields)))
        t = " ".join(draw(st.permutations(fields))[:k]) + " in "
    form = draw(st.sampled_from(["abs", "abs", "rel", "relof", "relof"]))
    if form == "abs":
        return t + share
    if form == "rel":
        return t + draw(relpath(2, SHAREW))
    rel = draw(st.sampled_from(["root", "framer", "frame", "frame", "me"]))
    s = t + draw(relpath(1, SHAREW)) + " of " + rel
    if rel == "framer" and framers and draw(st.booleans()):
        s += " " + draw(st.sampled_from(list(framers)))
    if rel == "frame" and frames and draw(st.booleans()):
        s += " " + draw(st.sampled_from(list(frames)))
    return s


DO_KEYS = ["as", "at", "via", "with", "from", "per", "for", "cum", "qua"]


@st.composite
def cmd_do(draw):
    keys = _subset(draw, DO_KEYS)
    # defective do clauses: only kinds that are reported as a script error wherever the clause
    # stands (missing data after with/per/cum runs into the '%'-format TypeError of parseDirect,
    # which is property C14's finding, so those are left out)
    defectable = [k for k in keys if k in ("at", "via", "from", "for", "qua")]
    defect = draw(st.sampled_from(defectable)) if defectable and draw(st.integers(1, DEFECT_RATE)) == 1 else None
    paths = st.sampled_from([".trial", "trial", "me.trial", ".init.test", "some.where", "india.juliet"])
    clauses = []
    for k in keys:
        bad = (k == defect)
        if k == "as":
            t = "as " + " ".join(draw(st.lists(word, min_size=1, max_size=2)))
        elif k == "at":
            t = "at " + ("bogus" if bad else draw(st.sampled_from(CONTEXTS)))
        elif k == "via":
            t = "via " + ("9bad" if bad else draw(inode_text("do", framers=["fone", "ftwo"], frames=["fa", "fb"])))
        elif k == "with":
            t = "with " + draw(direct_data(fields=FIELDS_WITH))
        elif k == "from":
            t = "from " + ("9bad" if bad else draw(source_text(".trial", ["depth", "height", "width"], ["fone"], ["fa"])))
        elif k == "per":
            if draw(st.integers(0, 4)) == 0:
                t = "per inode " + draw(relpath(1))   # `via` documented to take precedence
            else:
                t = "per " + draw(direct_data(values=paths, single_ok=False, fields=FIELDS_PER))
        elif k == "for":
            t = "for " + ("9bad" if bad else draw(source_text(".init.test", ["trial", "spot"], ["fone"], ["fa"])))
        elif k == "cum":
            t = "cum " + draw(direct_data(single_ok=False, fields=FIELDS_CUM))
        else:
            t = "qua " + ("9bad" if bad else draw(source_text(".trial", ["depth", "height", "width"], ["fone"], ["fa"])))
        clauses.append([k, t])
    kind = draw(st.sampled_from(["doer", "doer param", "doer", "deed param", "doer since"]))
    ctx = draw(st.sampled_from(["", "", "enter", "exit", "recur"]))
    pre = ["house hs", "init .trial with depth 5 height 10 width 15",
           'init .init.test with trial ".trial" spot "some.spot"',
           "framer fone be active first fa" + draw(st.sampled_from(["", " via fin", " via .top.fin"])),
           "  frame fa" + draw(st.sampled_from(["", " via frin"]))]
    if ctx:
        pre.append("    " + ctx)
    post = ["    go next", "  frame fb", "    print done", "framer ftwo be inactive", "  frame ga", "    print x"]
    return {"verb": "do", "pre": pre, "head": "    do " + kind, "clauses": clauses, "tail": "",
            "post": post, "defect": defect}


LOGGER_KEYS = ["to", "at", "be", "in", "flush", "keep", "cycle", "size", "reuse"]


@st.composite
def cmd_logger(draw):
    keys = _subset(draw, LOGGER_KEYS)
    defectable = [k for k in keys if k not in ("reuse", "to")]
    defect = draw(st.sampled_from(defectable)) if defectable and draw(st.integers(1, DEFECT_RATE)) == 1 else None
    clauses = []
    for k in keys:
        bad = (k == defect)
        if k == "to":
            # directory is only created when the logger is started; these scripts are never run
            t = "to " + draw(st.sampled_from(["/dev/null/vp15", "/dev/null/vp15/sub/"]))
        elif k == "at":
            t = "at " + ("soon" if bad else draw(st.sampled_from(PERIODS)))
        elif k == "be":
            t = "be " + ("bogus" if bad else draw(st.sampled_from(["active", "inactive", "slave"])))
        elif k == "in":
            t = "in " + ("bogus" if bad else draw(st.sampled_from(["front", "mid", "back"])))
        elif k == "flush":
            t = "flush " + ("often" if bad else draw(st.sampled_from(["1", "5.5", "60"])))
        elif k == "keep":
            t = "keep " + ("many" if bad else draw(st.sampled_from(["0", "2", "5"])))
        elif k == "cycle":
            t = "cycle " + ("daily" if bad else draw(st.sampled_from(["0", "10", "3600.5", "0.03125", "0.0625"])))
        elif k == "size":
            t = "size " + ("huge" if bad else draw(st.sampled_from(["0", "512", "4096"])))
        else:
            t = "reuse"
        clauses.append([k, t])
    pre = ["house hs"]
    post = ["  log lga on always", "    loggee .a.b as ab", "framer fone be active", "  frame fa", "    put 1 into .a.b"]
    return {"verb": "logger", "pre": pre, "head": "logger lgr", "clauses": clauses, "tail": "",
            "post": post, "defect": defect}


@st.composite
def cmd_log(draw):
    keys = _subset(draw, ["to", "as", "on"])
    defectable = [k for k in keys if k != "to"]
    defect = draw(st.sampled_from(defectable)) if defectable and draw(st.integers(1, DEFECT_RATE)) == 1 else None
    clauses = []
    for k in keys:
        bad = (k == defect)
        if k == "to":
            t = "to " + draw(st.sampled_from(["fileone", "file_two"]))
        elif k == "as":
            t = "as " + ("bogus" if bad else draw(st.sampled_from(["text", "binary"])))
        else:
            t = "on " + ("bogus" if bad else draw(st.sampled_from(
                ["once", "never", "always", "update", "change", "streak", "deck"])))
        clauses.append([k, t])
    pre = ["house hs", "logger lgr to /dev/null/vp15"]
    post = ["    loggee value in .a.b as ab", "framer fone be active", "  frame fa", "    put 1 into .a.b"]
    return {"verb": "log", "pre": pre, "head": "  log lga", "clauses": clauses, "tail": "",
            "post": post, "defect": defect}


SERVER_KEYS = ["at", "to", "be", "in", "rx", "tx", "per", "for"]


@st.composite
def cmd_server(draw):
    keys = _subset(draw, SERVER_KEYS)
    defectable = [k for k in keys if k in ("at", "be", "in")]
    defect = draw(st.sampled_from(defectable)) if defectable and draw(st.integers(1, DEFECT_RATE)) == 1 else None
    clauses = []
    for k in keys:
        bad = (k == defect)
        if k == "at":
            t = "at " + ("soon" if bad else draw(st.sampled_from(PERIODS)))
        elif k == "to":
            t = "to " + draw(st.sampled_from(["/dev/null/vp15", "/dev/null/vp15/srv/"]))
        elif k == "be":
            t = "be " + ("bogus" if bad else draw(st.sampled_from(["active", "inactive", "slave"])))
        elif k == "in":
            t = "in " + ("bogus" if bad else draw(st.sampled_from(["front", "mid", "back"])))
        elif k == "rx":
            t = "rx " + draw(st.sampled_from([":25511", "localhost:25512", "127.0.0.1"]))
        elif k == "tx":
            t = "tx " + draw(st.sampled_from([":25521", "localhost:25522", "127.0.0.1"]))
        elif k == "per":
            t = "per " + draw(direct_data())
        else:
            t = "for " + draw(st.sampled_from(["value in .meta.name", ".meta.name", "depth in .trial", ".trial"]))
        clauses.append([k, t])
    pre = ["house hs", "init .trial with depth 5 height 10"]
    post = ["framer fone be active", "  frame fa", "    print hi"]
    return {"verb": "server", "pre": pre, "head": "server srv", "clauses": clauses, "tail": "",
            "post": post, "defect": defect}


@st.composite
def need_text(draw):
    return draw(st.sampled_from([".a.b", ".a.b == 1", "elapsed >= 1.0", "not .c.d", "rela of framer > 2"]))


@st.composite
def cmd_aux(draw):
    keys = _subset(draw, ["as", "via"], min_size=2)
    defect = draw(st.sampled_from(keys)) if draw(st.integers(1, DEFECT_RATE)) == 1 else None
    clauses = []
    for k in keys:
        bad = (k == defect)
        if k == "as":
            t = "as " + ("9bad" if bad else draw(st.sampled_from(["mine", "cla", "clb"])))
        else:
            t = "via " + ("9bad" if bad else draw(st.one_of(st.sampled_from(["main", "mine", "me"]),
                                                            inode_text("aux", framers=["fone", "mo"]))))
        clauses.append([k, t])
    # the trailing condition clause is documented to come last; it stays last. (A cloned
    # conditional aux is refused by buildAux with a ParseError for every order.)
    tail = ""
    if draw(st.integers(0, 3)) == 0:
        tail = " if " + " and ".join(draw(st.lists(need_text(), min_size=1, max_size=2)))
    pre = ["house hs", "framer fone be active first fa via " + draw(relpath(1)), "  frame fa"]
    post = ["    go next", "  frame fb", "    print hi",
            "framer mo be moot via " + draw(st.sampled_from(["mn", "me.mn", "mn."])),
            "  frame ma", "    put 1 into rela", "    do doer param at enter via dn per color red", "    done"]
    return {"verb": "aux", "pre": pre, "head": "    aux mo", "clauses": clauses, "tail": tail,
            "post": post, "defect": defect}


@st.composite
def cmd_rear(draw):
    keys = _subset(draw, ["as", "be", "in"])
    defect = draw(st.sampled_from(keys)) if draw(st.integers(1, DEFECT_RATE)) == 1 else None
    clauses = []
    for k in keys:
        bad = (k == defect)
        if k == "as":
            t = "as " + ("9bad" if bad else "mine")
        elif k == "be":
            t = "be " + ("bogus" if bad else "aux")
        else:
            # documented form: `in frame framename` (name required for rear)
            t = "in " + ("framer fb" if bad else "frame fb")
        clauses.append([k, t])
    pre = ["house hs", "framer fone be active first fa", "  frame fa"]
    post = ["    go next", "  frame fb", "    print hi", "framer mo be moot", "  frame ma", "    done"]
    return {"verb": "rear", "pre": pre, "head": "    rear mo", "clauses": clauses, "tail": "",
            "post": post, "defect": defect}


@st.composite
def cmd_raze(draw):
    # raze has a single optional clause: nothing to permute (kept for completeness, trivial)
    t = draw(st.sampled_from(["in frame", "in frame fb", "in frame me"]))
    pre = ["house hs", "framer fone be active first fa", "  frame fa"]
    post = ["    go next", "  frame fb", "    print hi"]
    return {"verb": "raze", "pre": pre, "head": "    raze " + draw(st.sampled_from(["all", "first", "last"])),
            "clauses": [["in", t]], "tail": "", "post": post, "defect": None}


@st.composite
def cmd_marker(draw):
    keys = _subset(draw, ["in", "by"], min_size=2)
    defect = "in" if draw(st.integers(1, DEFECT_RATE)) == 1 else None
    clauses = []
    for k in keys:
        bad = (k == defect)
        if k == "in":
            t = "in " + ("framer" if bad else draw(st.sampled_from(["frame", "frame fb", "frame me", "frame fa"])))
        else:
            t = "by " + draw(st.sampled_from(["mka", "'mk b'", '"mkc"']))
        clauses.append([k, t])
    share = draw(st.sampled_from([".a.b", "rela", "rela of framer", "relb of frame fb"]))
    part = draw(st.sampled_from(["updated", "changed"]))
    verb = draw(st.sampled_from(["go fb if", "go next if", "let me if", "aux mo if", "go fb if not"]))
    before = draw(st.sampled_from(["", "", ".c.d == 1 and "]))
    tail = draw(st.sampled_from(["", "", " and .e.f", " and elapsed >= 1"]))
    pre = ["house hs", "framer fone be active first fa", "  frame fa"]
    post = ["  frame fb", "    print hi", "framer mo be aux", "  frame ma", "    done"]
    return {"verb": "marker", "pre": pre, "head": "    %s %s%s is %s" % (verb, before, share, part),
            "clauses": clauses, "tail": tail, "post": post, "defect": defect}


COMMANDS = {"framer": cmd_framer, "frame": cmd_frame, "do": cmd_do, "logger": cmd_logger,
            "log": cmd_log, "server": cmd_server, "aux": cmd_aux, "rear": cmd_rear,
            "raze": cmd_raze, "marker": cmd_marker}


def render_command(case, order=None):
    """Script text of a C15 command case with its clauses in the given order (list of indexes)."""
    clauses = case["clauses"]
    if order is None:
        order = range(len(clauses))
    line = case["head"]
    for i in order:
        line += " " + clauses[i][1]
    line += case.get("tail", "")
    return "\n".join(list(case["pre"]) + [line] + list(case["post"])) + "\n"


# ------------------------------------------------------------------------------ small programs (C16)
# A program is {"lines": [[indent, [token, ...]], ...], "logger": bool}; tokens are FloScript
# chunks (a quoted string is ONE token). Canonical layout: one command per line, nesting
# indentation, single spaces. Everything is constructed so that the canonical text builds.

VAL_SHARES = [".va", ".vb.vc", "rva", "rvb of framer", "rvc of frame", "me.rvd", "rve of root"]
FIELD_SHARES = [".fa", ".fb.fc", "rfa", "rfb of framer"]
STR_SHARES = [".sa", "rsa of framer"]
FIELDS = ["fx", "fy", "fz"]
NUMS = ["0", "1", "2", "3.5", "-1", "0.25", "10"]
STRS = ['"a b"', "'c d'", '"x # y"', "'it is'", '"plain"', "word"]
LOGDIR = "@LOGDIR@"


def _toks(text):
    """split helper for generator literals: blanks separate tokens (no quotes with blanks here)"""
    return text.split()


NUM_ABS = [".va", ".vb.vc"]          # always initialised with numbers at house level
FIELD_ABS = [".fa", ".fb.fc"]        # always initialised with numeric fields fx fy fz
ORDERING = ["<", "<=", ">=", ">"]


@st.composite
def val_ref(draw, numeric=False):
    """tokens of an indirect reference to a value share; numeric=True: one that is initialised with
    a number (ordering comparisons and inc on a never written share are user errors at run time)"""
    s = draw(st.sampled_from(NUM_ABS if numeric else VAL_SHARES))
    t = _toks(s)
    if draw(st.integers(0, 3)) == 0:
        t = ["value", "in"] + t
    return t


@st.composite
def field_ref(draw, nfields=None, absolute=False):
    s = draw(st.sampled_from(FIELD_ABS if absolute else FIELD_SHARES))
    n = nfields or draw(st.integers(1, 2))
    fs = list(draw(st.permutations(FIELDS)))[:n]
    return fs + ["in"] + _toks(s), fs


@st.composite
def need(draw, frames):
    k = draw(st.sampled_from(["elapsed", "recurred", "cmp", "cmpi", "tol", "bool", "not", "upd", "fld", "str", "eq"]))
    if k == "elapsed":
        return ["elapsed", draw(st.sampled_from([">=", ">"])), draw(st.sampled_from(["0.25", "0.5", "1.0"]))]
    if k == "recurred":
        return ["recurred", ">=", draw(st.sampled_from(["1", "2", "3"]))]
    if k == "cmp":
        return draw(val_ref(True)) + [draw(st.sampled_from(COMPARISONS)), draw(st.sampled_from(NUMS))]
    if k == "eq":
        return draw(val_ref()) + [draw(st.sampled_from(["==", "!="])), draw(st.sampled_from(NUMS))]
    if k == "cmpi":
        return draw(val_ref(True)) + [draw(st.sampled_from(COMPARISONS))] + draw(val_ref(True))
    if k == "tol":
        return draw(val_ref(True)) + ["==", draw(st.sampled_from(NUMS)), "+-", draw(st.sampled_from(["0.5", "1"]))]
    if k == "bool":
        return draw(val_ref())
    if k == "not":
        return ["not"] + draw(val_ref())
    if k == "upd":
        t = _toks(draw(st.sampled_from(VAL_SHARES))) + ["is", draw(st.sampled_from(["updated", "changed"]))]
        if draw(st.booleans()):
            t += ["in", "frame"] + ([draw(st.sampled_from(frames))] if draw(st.booleans()) else [])
        if draw(st.integers(0, 2)) == 0:
            t += ["by", draw(st.sampled_from(["mka", "'mk b'"]))]
        return t
    if k == "fld":
        ref, fs = draw(field_ref(1, absolute=True))
        return ref + [draw(st.sampled_from(COMPARISONS)), draw(st.sampled_from(NUMS))]
    return _toks(draw(st.sampled_from(STR_SHARES))) + [draw(st.sampled_from(["==", "!="])), draw(st.sampled_from(STRS[:5]))]


@st.composite
def needs(draw, frames):
    out = []
    for i, n in enumerate(draw(st.lists(need(frames), min_size=1, max_size=3))):
        if i:
            out.append("and")
        out += n
    return out


@st.composite
def action(draw, frames, framers, auxes):
    k = draw(st.sampled_from(["put", "putf", "puts", "inc", "inci", "copy", "set", "seti", "print",
                              "do", "do", "bid", "ctx", "put", "inc"]))
    if k == "put":
        return ["put", draw(st.sampled_from(NUMS)), "into"] + draw(val_ref())
    if k == "putf":
        ref, fs = draw(field_ref())
        data = []
        for f in fs:
            data += [f, draw(st.sampled_from(NUMS))]
        return ["put"] + data + ["into"] + ref
    if k == "puts":
        return ["put", draw(st.sampled_from(STRS)), "into"] + _toks(draw(st.sampled_from(STR_SHARES)))
    if k == "inc":
        return ["inc"] + draw(val_ref(True)) + ["with", draw(st.sampled_from(NUMS))]
    if k == "inci":
        return ["inc"] + draw(val_ref(True)) + ["from"] + draw(val_ref(True))
    if k == "copy":
        return ["copy"] + draw(val_ref()) + ["into"] + draw(val_ref())
    if k == "set":
        return ["set", draw(st.sampled_from(["goal.ga", "goal.gb of framer"])).split()[0]] + \
            ["with", draw(st.sampled_from(NUMS))]
    if k == "seti":
        return ["set", "elapsed", "with", draw(st.sampled_from(["0.5", "1.0"]))]
    if k == "print":
        return ["print"] + draw(st.lists(st.sampled_from(WORDS + STRS + ["to", "is", "=="]), min_size=1, max_size=4))
    if k == "do":
        t = ["do", "doer", "param"]
        if draw(st.booleans()):
            t += ["as"] + draw(st.lists(word, min_size=1, max_size=2))
        if draw(st.booleans()):
            t += ["at", draw(st.sampled_from(["enter", "recur", "exit", "renter"]))]
        if draw(st.booleans()):
            t += ["via"] + _toks(draw(st.sampled_from(["nda", "ndb.", ".top.ndc", "me.ndd", "nde of framer", "ndf of frame"])))
        if draw(st.booleans()):
            t += ["with", draw(st.sampled_from(FIELDS_WITH)), draw(st.sampled_from(NUMS + STRS))]
        if draw(st.booleans()):
            t += ["per", draw(st.sampled_from(FIELDS_PER)), draw(st.sampled_from([".va", "rva", "me.rvd", "io.sh"]))]
        if draw(st.integers(0, 2)) == 0:
            ref, fs = draw(field_ref())
            t += ["from"] + ref
        return t
    if k == "bid":
        return ["bid", draw(st.sampled_from(["stop", "start", "run"])), draw(st.sampled_from(framers + ["me"]))]
    return [draw(st.sampled_from(["enter", "recur", "exit", "precur", "renter", "rexit", "native"]))]


@st.composite
def small_program(draw):
    lines = [[0, ["house", draw(st.sampled_from(["hsa", "hsb"]))]]]
    for sh in NUM_ABS:
        lines.append([2, ["init", sh, "with", draw(st.sampled_from(NUMS))]])
    for sh in FIELD_ABS:
        lines.append([2, ["init", sh, "with", "fx", draw(st.sampled_from(NUMS)), "fy", draw(st.sampled_from(NUMS)),
                          "fz", "0"]])
    has_logger = draw(st.integers(0, 3)) == 0
    if has_logger:
        t = ["logger", "lgr", "to", LOGDIR]
        if draw(st.booleans()):
            t += ["flush", "1"]
        if draw(st.booleans()):
            t += ["at", "0.25"]
        lines.append([2, t])
        lines.append([4, ["log", "lga", "on", draw(st.sampled_from(["always", "update", "change", "once"]))]])
        lg = ["loggee", ".va"]
        second = draw(st.booleans())
        if second or draw(st.booleans()):
            lg += ["as", "tagva"]   # a tag is needed to separate the next `fields in path` entry
        if second:
            lg += ["fx", "fy", "in", ".fa", "as", "tagfa"]
        lines.append([6, lg])
    nfr = draw(st.integers(1, 2))
    framers = ["fra", "frb"][:nfr]
    auxes = []
    if draw(st.booleans()):
        auxes = ["axa"]
    for fi, fname in enumerate(framers):
        t = ["framer", fname, "be", "active"]
        if draw(st.booleans()):
            t += ["at", draw(st.sampled_from(["0.125", "0.25", "0"]))]
        if draw(st.booleans()):
            t += ["via", draw(st.sampled_from(["ina", "inb.", ".abs.inc", "me.ind"]))]
        nframes = draw(st.integers(1, 3))
        frames = ["%s%d" % ("pq"[fi], j) for j in range(nframes)]
        if draw(st.booleans()):
            t += ["first", frames[0]]
        lines.append([2, t])
        lines.append([4, ["frame", "top" + fname]])
        lines.append([6, ["go", "fin" + fname, "if", "elapsed", ">=", draw(st.sampled_from(["1.0", "2.0"]))]])
        for j, fr in enumerate(frames):
            t = ["frame", fr, "in", "top" + fname]
            if draw(st.integers(0, 2)) == 0:
                t += ["via", draw(st.sampled_from(["fia", "me.fib", "fic."]))]
            lines.append([6, t])
            if auxes and draw(st.integers(0, 2)) == 0 and fi == 0 and j == 0:
                if draw(st.booleans()):
                    lines.append([8, ["aux", auxes[0]]])
                else:
                    lines.append([8, ["aux", auxes[0], "if"] + draw(needs(frames))])
            if draw(st.integers(0, 3)) == 0:
                lines.append([8, ["let", "me", "if"] + draw(needs(frames))])
            for _ in range(draw(st.integers(1, 4))):
                lines.append([8, draw(action(frames, framers, auxes))])
            lines.append([8, ["native"]])
            kind = draw(st.sampled_from(["go", "go", "timeout", "repeat", "gonext"]))
            if kind == "go":
                far = draw(st.sampled_from(frames + ["next", "me"]))
                lines.append([8, ["go", far, "if"] + draw(needs(frames))])
                lines.append([8, ["go", "next", "if", "recurred", ">=", "3"]])
            elif kind == "timeout":
                lines.append([8, ["timeout", draw(st.sampled_from(["0.5", "1"]))]])
            elif kind == "repeat":
                lines.append([8, ["repeat", draw(st.sampled_from(["2", "3"]))]])
            else:
                lines.append([8, ["go", "next"]])
        lines.append([4, ["frame", "fin" + fname]])
        lines.append([6, ["print", draw(st.sampled_from(STRS)), "finished"]])
        lines.append([6, ["bid", "stop", draw(st.sampled_from(["me", "all"]))]])
    for ax in auxes:
        lines.append([2, ["framer", ax, "be", "aux"]])
        lines.append([4, ["frame", "ax0"]])
        lines.append([6, ["inc", ".va", "with", "1"]])
        lines.append([6, ["go", "next", "if", "recurred", ">=", "2"]])
        lines.append([4, ["frame", "ax1"]])
        lines.append([6, ["done"]])
    # user chosen names may be spelled like verbs (only connectives and comparisons are reserved): half of the
    # programs have one to three of their frame / relative share names consistently replaced by verb words
    if draw(st.booleans()):
        present = []
        for ind, toks in lines:
            for t in toks:
                if t not in present and (t in RENAMEABLE or (toks[0] == "frame" and t == toks[1])):
                    present.append(t)
        k = min(len(present), draw(st.integers(1, 3)))
        olds = list(draw(st.permutations(present)))[:k]
        news = list(draw(st.permutations(VERB_NAMES)))
        if draw(st.booleans()):     # `load` is the one verb the continuation look-ahead of Builder.build singles out
            news.remove("load")
            news.insert(0, "load")
        news = news[:k]
        ren = dict(zip(olds, news))
        lines = [[ind, [ren.get(t, t) for t in toks]] for ind, toks in lines]
    return {"lines": lines, "logger": has_logger}


# verbs that are legal as frame names / share path segments (connectives and comparisons are the only reserved words)
VERB_NAMES = ["load", "house", "init", "print", "put", "inc", "copy", "set", "go", "let", "do", "done", "log", "loggee",
              "logger", "server", "timeout", "repeat", "bid", "ready", "start", "stop", "run", "abort", "rear", "raze",
              "native", "enter", "recur", "exit", "over", "under"]
RENAMEABLE = ["rva", "rsa", "rfa"]


def canonical_text(lines):
    return "".join(" " * ind + " ".join(toks) + "\n" for ind, toks in lines)


# ------------------------------------------------------------------------------ layout transformer (C16)
import re

CHUNKS = re.compile(r"""#.*|[^ "']+|"[^"]*"|'[^']*'""")  # what FloScript calls a chunk (globaling.REO_Chunks)
LAYOUT_KINDS = ("indent", "tabindent", "multispace", "backslash", "connective", "blank", "commentline",
                "trailcomment")
COMMENTS = ["# note", "#", "# go next if x == 1", "#   spaced   comment", "# it's \"quoted\" here", "#tight",
            "# via in of to == <="]


def plan_logical_lines(text):
    """Split an existing script into items: ["cmd", indent, tokens, comment|None] for a physical
    line that is a whole chunk sequence on its own, or ["raw", text] for anything that is kept
    verbatim (backslash continuation groups, lines that do not re-tokenize to themselves, tabs)."""
    items = []
    phys = text.split("\n")
    if phys and phys[-1] == "":
        phys.pop()
    i = 0
    while i < len(phys):
        ln = phys[i]
        if ln.rstrip().endswith("\\"):
            grp = [ln]
            while phys[i].rstrip().endswith("\\") and i + 1 < len(phys):
                i += 1
                grp.append(phys[i])
            items.append(["raw", "\n".join(grp)])
            i += 1
            continue
        stripped = ln.strip()
        if not stripped or "\t" in ln or "\r" in ln:
            items.append(["raw", ln])
            i += 1
            continue
        chunks = CHUNKS.findall(stripped)
        toks, comment = [], None
        for c in chunks:
            if c[0] == "#":
                comment = c
                break
            toks.append(c)
        rebuilt = " ".join(toks + ([comment] if comment else []))
        if not toks or " ".join(stripped.split()) != " ".join(rebuilt.split()) or "\\" in stripped:
            items.append(["raw", ln])
        else:
            items.append(["cmd", len(ln) - len(ln.lstrip(" ")), toks, comment])
        i += 1
    return items


def layout(items, rnd, intensity=0.5, kinds=LAYOUT_KINDS):
    """Render items (from plan_logical_lines or canonical [indent, tokens] lines) under random layout.

    rnd: random.Random seeded from the generated case (deterministic).
    Returns (text, [set of kinds used per cmd item], [len(tokens) per cmd item]).
    Only these transformations are used (the ones the property claims):
      indent        other number of leading blanks on a command / continuation line
      tabindent     leading tab(s) as the indentation of a physical line (first line of a command,
                    connective continuation line, backslash continuation line)
      multispace    2..5 blanks between two tokens
      backslash     ` \\`newline between two tokens (continuation line starts with blanks only)
      connective    newline before a token that is a connective or comparison
      blank         blank (or blanks-only) line before a command or between connective pieces
      commentline   comment-only line before a command or between connective pieces
      trailcomment  ` # ...` after the last token of a command or of a connective piece
    Never: comment/blank inside a backslash continuation, tab between two tokens of one physical
    line, a split inside quotes.
    """
    use = set(kinds)
    out = []
    used_all, ntoks = [], []

    def on(kind, p=None):
        return kind in use and rnd.random() < (intensity if p is None else p)

    def filler(used):
        lines = []
        for _ in range(rnd.randint(1, 2)):
            if "blank" in use and rnd.random() < 0.5:
                used.add("blank")
                lines.append(" " * rnd.choice([0, 0, 3, 7]))
            elif "commentline" in use:
                used.add("commentline")
                lines.append(" " * rnd.randint(0, 9) + rnd.choice(COMMENTS))
        return lines

    for it in items:
        if it[0] == "raw":
            out.append(it[1])
            continue
        if it[0] == "cmd":
            _, ind, toks, comment = it
        else:
            ind, toks = it
            comment = None
        used = set()
        if on("blank", intensity * 0.4) or on("commentline", intensity * 0.4):
            out.extend(filler(used))
        # leading white space of the first physical line
        if on("tabindent", intensity * 0.3):
            lead = "\t" * rnd.randint(1, 2)
            used.add("tabindent")
        elif on("indent"):
            lead = " " * rnd.randint(0, 12)
            if len(lead) != ind:
                used.add("indent")
        else:
            lead = " " * ind
        cur = lead + toks[0]
        in_backslash = False  # the current physical line belongs to a backslash group (not its first line)
        for k in range(1, len(toks)):
            tok = toks[k]
            if tok in RESERVED and toks[0] != "load" and on("connective", intensity * 0.5):
                used.add("connective")
                # finish the piece: optional trailing comment (allowed on the last line of a group)
                if on("trailcomment", intensity * 0.5):
                    used.add("trailcomment")
                    cur += " " * rnd.randint(1, 3) + rnd.choice(COMMENTS)
                out.append(cur)
                if on("blank", intensity * 0.4) or on("commentline", intensity * 0.4):
                    out.extend(filler(used))
                if on("tabindent", intensity * 0.2):
                    used.add("tabindent")
                    cur = "\t" + tok
                else:
                    cur = " " * rnd.randint(0, 14) + tok
                in_backslash = False
            elif on("backslash", intensity * 0.35):
                used.add("backslash")
                out.append(cur + " " * rnd.randint(0, 2) + "\\")      # (0: the backslash directly behind the token)
                if on("tabindent", intensity * 0.3):
                    used.add("tabindent")   # indentation of a continuation line
                    cur = rnd.choice(["\t", "\t\t", "  \t"]) + tok
                else:
                    cur = " " * rnd.randint(0, 14) + tok
                in_backslash = True
            elif on("multispace", intensity * 0.6):
                used.add("multispace")
                cur += " " * rnd.randint(2, 5) + tok
            else:
                cur += " " + tok
        if comment is not None:
            cur += "  " + comment
        elif on("trailcomment", intensity * 0.5):
            used.add("trailcomment")
            cur += " " * rnd.randint(1, 3) + rnd.choice(COMMENTS)
        out.append(cur)
        used_all.append(sorted(used))
        ntoks.append(len(toks))
    return "\n".join(out) + "\n", used_all, ntoks


# ------------------------------------------------------------------------------ addressing programs (C13)
# Tokens are str.format templates over a name map: "{F0}" framer 0, "{N0_1}" frame 1 of framer 0,
# "{A2}" actor 2 (name given with `do ... as`), "{T0}" clone tag 0. Rendering with another map is a
# consistent renaming by construction. Entity name pools are disjoint from each other and from
# every other word of the script, and contain no '_' and no digits (clone names are derived as
# <main surname>_<tag>, insular tags as <original><n>).
FRAMER_WORDS = ["engine", "pilot", "radar", "sonar"]
FRAME_WORDS = ["idle", "climb", "cruise", "dive", "land", "taxi", "hover", "orbit", "glide", "stall", "bank", "flare"]
ACTOR_WORDS = ["wolf", "lynx", "puma", "orca"]
TAG_WORDS = ["twin", "dupe", "echoed"]
FRESH = "zulu"
ADDR_SHARE_WORDS = ["sa", "sb", "sc", "sd", "se"]
ADDR_NODE_WORDS = ["na", "nb", "nc", "nd"]
for _w in FRAMER_WORDS + FRAME_WORDS + ACTOR_WORDS + TAG_WORDS + [FRESH] + ADDR_SHARE_WORDS + ADDR_NODE_WORDS:
    assert _w not in FORBIDDEN and _w not in WORDS, _w
assert len(set(FRAMER_WORDS + FRAME_WORDS + ACTOR_WORDS + TAG_WORDS + ADDR_SHARE_WORDS + ADDR_NODE_WORDS)) == \
    len(FRAMER_WORDS + FRAME_WORDS + ACTOR_WORDS + TAG_WORDS + ADDR_SHARE_WORDS + ADDR_NODE_WORDS)


@st.composite
def addr_ref(draw, ctx, node=False):
    """-> (token templates of an indirect operand, form label).

    ctx: {"f": framer index, "frames": {framer index: [frame syms]}, "framers": [framer syms],
          "moot": current framer is a moot original (so `main` forms resolve in its clones),
          "actors": [(actor sym, framer idx, frame sym)] defined so far, "do": inside a do command}
    """
    w = draw(st.sampled_from(ADDR_NODE_WORDS if node else ADDR_SHARE_WORDS))
    f = ctx["f"]
    own = ctx["frames"][f]
    forms = ["abs", "root", "rootof", "me", "meinline", "framer", "framerme", "framernamed", "framerinline",
             "framernamedinline", "frame", "frameme", "framenamed", "frameother", "frameinline",
             "framenamedinline", "frameotherinline", "fullinline", "actor", "actorinline"]
    forms += ["framemeofframer", "framenamedofframer"]
    if ctx.get("moot"):
        forms += ["framermain", "framemain", "framermaininline", "framemaininline", "framemainofframer",
                  "framemainofframermain"] * 2
    usable_actors = [x for x in (ctx.get("actors") or []) if (ctx.get("names") or {}).get(x[2]) != "main"]
    if usable_actors:
        forms += ["actornamed", "actornamed"]
    form = draw(st.sampled_from(forms))
    nm = ctx.get("names") or {}
    notmain = lambda syms: [x for x in syms if nm.get(x) != "main"] or list(syms)
    g = draw(st.sampled_from(sorted(ctx["frames"])))          # some framer (maybe the own one)
    gf = draw(st.sampled_from(notmain(ctx["frames"][g])))     # one of its frames (never one named `main`)
    of_ = draw(st.sampled_from(notmain(own)))                 # one of the own frames
    F = "{%s}" % ctx["framers"][g]
    t = {
        "abs": [".%s.%s" % (draw(st.sampled_from(ADDR_NODE_WORDS)), w)],
        "root": [w],
        "rootof": [w, "of", "root"],
        "me": [w, "of", "me"],
        "meinline": ["me." + w],
        "framer": [w, "of", "framer"],
        "framerme": [w, "of", "framer", "me"],
        "framernamed": [w, "of", "framer", F],
        "framerinline": ["framer.me." + w],
        "framernamedinline": ["framer.%s.%s" % (F, w)],
        "frame": [w, "of", "frame"],
        "frameme": [w, "of", "frame", "me"],
        "framenamed": [w, "of", "frame", "{%s}" % of_],
        "frameother": [w, "of", "frame", "{%s}" % gf, "of", "framer", F],
        "frameinline": ["frame.me." + w],
        "framenamedinline": ["frame.{%s}.%s" % (of_, w)],
        "frameotherinline": ["frame.{%s}.%s" % (gf, w), "of", "framer", F],
        "fullinline": ["framer.%s.frame.{%s}.%s" % (F, gf, w)],
        "actor": [w, "of", "actor"],
        "actorinline": ["actor.me." + w],
        "framermain": [w, "of", "framer", "main"],
        "framemain": [w, "of", "frame", "main"],
        "framermaininline": ["framer.main." + w],
        "framemaininline": ["frame.main." + w],
        # frame relation followed by a framer clause whose name is left out (frame main -> framer main, otherwise me)
        "framemainofframer": [w, "of", "frame", "main", "of", "framer"],
        "framemainofframermain": [w, "of", "frame", "main", "of", "framer", "main"],
        "framemeofframer": [w, "of", "frame", "me", "of", "framer"],
        "framenamedofframer": [w, "of", "frame", "{%s}" % of_, "of", "framer"],
    }
    info = {"form": form, "w": w, "g": g, "gf": gf, "of": of_, "abs": t["abs"][0]}
    if form == "actornamed":
        a, af, an = draw(st.sampled_from(usable_actors))
        toks = [w, "of", "actor", "{%s}" % a, "of", "frame", "{%s}" % an, "of", "framer", "{%s}" % ctx["framers"][af]]
        info.update(a=a, af=af, an=an)
    else:
        toks = t[form]
    if node and draw(st.booleans()):
        toks = [toks[0] + "."] + toks[1:]
    ctx.setdefault("last", []).append(info)
    return toks, form


@st.composite
def addr_program(draw):
    """-> {"lines": [[indent, [token templates]]], "names": {sym: string}, "entities": [(kind, sym)],
           "forms": [labels], "clones": bool}"""
    nact = draw(st.integers(1, 2))
    nmoot = draw(st.sampled_from([0, 0, 1, 1, 2]))
    fwords = list(draw(st.permutations(FRAMER_WORDS)))
    names = {}
    framers = []
    moot_flags = []
    for i in range(nact + nmoot):
        sym = "F%d" % i
        framers.append(sym)
        names[sym] = fwords[i]
        moot_flags.append(i >= nact)
    nwords = list(draw(st.permutations(FRAME_WORDS)))
    frames = {}
    for i in range(len(framers)):
        k = draw(st.integers(1, 3))
        syms = []
        for j in range(k):
            s = "N%d_%d" % (i, j)
            syms.append(s)
            names[s] = nwords.pop()
        frames[i] = syms
    # two active framers may use the same string for a frame (separate name spaces) when nothing is cloned
    if nact == 2 and nmoot == 0 and draw(st.booleans()):
        names[frames[1][0]] = names[frames[0][-1]]
    # an unusual but legal frame name: the relation keyword `main` used as the NAME of a frame (only frames of
    # framers with >= 2 frames; such a frame is never referenced by name, see addr_ref, because `of frame main`
    # would mean the keyword)
    if draw(st.integers(0, 2)) == 0:
        cands = [i for i in sorted(frames) if len(frames[i]) >= 2]
        if cands:
            i = draw(st.sampled_from(cands))
            names[draw(st.sampled_from(frames[i]))] = "main"
    awords = list(draw(st.permutations(ACTOR_WORDS)))
    twords = list(draw(st.permutations(TAG_WORDS)))
    actors = []
    tags = []
    forms = []
    entities = [("framer", s) for s in framers] + [("frame", s) for i in sorted(frames) for s in frames[i]]
    lines = [[0, ["house", "hs"]]]
    finodes = {}     # framer sym -> (inode kind, word) | None
    frinfo = {}      # frame sym -> {"over": frame sym | None, "inode": (kind, word) | None, "framer": index}
    direct = []      # [line index, frame sym, [[parm key, ref info], ...]] for put / copy lines

    def inode(ctx, level):
        kind = draw(st.sampled_from(["ref", "ref", "plain"]))
        if kind == "plain" or level != "do":
            c = draw(st.sampled_from(["rel", "rel.", "abs", "me", "offramer", "offramernamed", "ofme"]))
            w = draw(st.sampled_from(ADDR_NODE_WORDS))
            g = draw(st.sampled_from(sorted(ctx["frames"])))
            forms.append("via-" + level + ":" + c)
            ctx["inode_kind"] = (c, w, framers[g])
            return {"rel": [w], "rel.": [w + "."], "abs": [".top." + w], "me": ["me." + w],
                    "offramer": [w, "of", "framer"], "offramernamed": [w, "of", "framer", "{%s}" % framers[g]],
                    "ofme": [w, "of", "me"]}[c]
        toks, form = draw(addr_ref(ctx, node=True))
        forms.append("via-do:" + form)
        return toks

    # clone plan: which active/moot framer frames carry `aux moot as ...`
    moots = [i for i in range(len(framers)) if moot_flags[i]]
    for i, fs in enumerate(framers):
        ctx = {"f": i, "frames": frames, "framers": framers, "moot": moot_flags[i], "actors": actors, "do": False,
               "names": names}
        t = ["framer", "{%s}" % fs, "be", "moot" if moot_flags[i] else "active", "first", "{%s}" % frames[i][0]]
        ctx["inode_kind"] = None
        if draw(st.booleans()):
            t += ["via"] + inode(ctx, "framer")
        finodes[fs] = ctx["inode_kind"]
        lines.append([2, t])
        for j, ns in enumerate(frames[i]):
            t = ["frame", "{%s}" % ns]
            over = None
            if j > 0 and draw(st.booleans()):
                t += ["in", "{%s}" % frames[i][0]]
                over = frames[i][0]
            ctx["inode_kind"] = None
            if draw(st.integers(0, 2)) == 0:
                t += ["via"] + inode(ctx, "frame")
            frinfo[ns] = {"over": over, "inode": ctx["inode_kind"], "framer": i}
            lines.append([4, t])
            # clones of later moot framers (a moot may clone a later moot: nested clones)
            for m in moots:
                if m > i and draw(st.integers(0, 1 if not moot_flags[i] else 2)) == 0 and len(tags) < len(twords) + 2:
                    if twords and draw(st.booleans()):
                        ts = "T%d" % len(tags)
                        tags.append(ts)
                        names[ts] = twords.pop()
                        entities.append(("tag", ts))
                        t = ["aux", "{%s}" % framers[m], "as", "{%s}" % ts]
                    else:
                        t = ["aux", "{%s}" % framers[m], "as", "mine"]
                    if draw(st.booleans()):
                        v = draw(st.sampled_from(["main", "mine", "me", "inode"]))
                        t += ["via"] + (inode(ctx, "aux") if v == "inode" else [v])
                        if v != "inode":
                            forms.append("via-aux:" + v)
                    lines.append([6, t])
            for _ in range(draw(st.integers(1, 4))):
                k = draw(st.sampled_from(["put", "put", "copy", "set", "go", "do", "do", "inc", "clock"]))
                if k == "clock" and j + 1 >= len(frames[i]):
                    k = "put"
                if k == "clock":
                    # timeout / repeat: an implied condition on the elapsed / recurred of the framer that RUNS the frame
                    verb = draw(st.sampled_from(["timeout", "repeat"]))
                    forms.append("implied-" + verb)
                    direct.append([len(lines), ns, [["need0", {"form": "framerstate", "w": "elapsed" if verb == "timeout" else "recurred",
                                                               "g": i}]]])
                    lines.append([6, [verb, draw(st.sampled_from(["1", "2", "0.5"])) if verb == "timeout" else draw(st.sampled_from(["1", "3"]))]])
                elif k == "put":
                    ctx["last"] = []
                    r, fm = draw(addr_ref(ctx))
                    forms.append(fm)
                    direct.append([len(lines), ns, [["destination", ctx["last"][0]]]])
                    lines.append([6, ["put", "1", "into"] + r])
                elif k == "copy":
                    ctx["last"] = []
                    r1, f1 = draw(addr_ref(ctx))
                    r2, f2 = draw(addr_ref(ctx))
                    forms += [f1, f2]
                    direct.append([len(lines), ns, [["source", ctx["last"][0]], ["destination", ctx["last"][1]]]])
                    lines.append([6, ["copy"] + r1 + ["into"] + r2])
                elif k == "inc":
                    r1, f1 = draw(addr_ref(ctx))
                    forms.append(f1)
                    lines.append([6, ["inc"] + r1 + ["with", "2"]])
                elif k == "set":
                    r1, f1 = draw(addr_ref(ctx))
                    r2, f2 = draw(addr_ref(ctx))
                    forms += [f1, f2]
                    lines.append([6, ["set"] + r1 + ["from"] + r2])
                elif k == "go":
                    ctx["last"] = []
                    r1, f1 = draw(addr_ref(ctx))
                    forms.append(f1)
                    if ctx["last"]:
                        # the state share of the first need of the transition (a nested act: cloned with the frame)
                        direct.append([len(lines), ns, [["need0", ctx["last"][0]]]])
                    far = draw(st.sampled_from((["next"] if j + 1 < len(frames[i]) else []) + ["me"] +
                                               ["{%s}" % s for s in frames[i]]))
                    t = ["go", far, "if"] + r1 + ["==", "1"]
                    if draw(st.booleans()):
                        r2, f2 = draw(addr_ref(ctx))
                        forms.append(f2)
                        t += ["and"] + r2 + draw(st.sampled_from([["is", "updated"], ["is", "changed", "in", "frame", "{%s}" % ns], [">=", "2"]]))
                    lines.append([6, t])
                else:
                    t = ["do", "doer", "param"]
                    named = awords and draw(st.booleans())
                    if named:
                        a = "A%d" % len(actors)
                        # an actor name may have several parts: `as wolf x y` -> WolfXY -> path segments wolf.x.y;
                        # the parts are one name (renamed as a whole); such actors are not referenced by name elsewhere
                        suffix = draw(st.sampled_from(["", "", "", " x", " x y", " big", " b c d", " nav x"]))
                        names[a] = awords.pop() + suffix
                        entities.append(("actor", a))
                        t += ["as", "{%s}" % a]
                    dctx = dict(ctx, do=True)
                    if draw(st.booleans()):
                        t += ["via"] + inode(dctx, "do")
                    if draw(st.booleans()):
                        t += ["per", draw(st.sampled_from(FIELDS_PER)), draw(st.sampled_from(
                            ADDR_SHARE_WORDS + ["me.sa", ".top.sb", "framer.me.sc", "framer.me.frame.me.sd",
                                                "framer.me.frame.me.actor.me.se"]))]
                    if draw(st.booleans()):
                        r1, f1 = draw(addr_ref(dctx))
                        forms.append("from:" + f1)
                        t += ["from"] + r1
                    lines.append([6, t])
                    if named and not suffix:
                        actors.append((a, i, ns))
        if not moot_flags[i]:
            lines.append([6, ["bid", "stop", draw(st.sampled_from(["me", "{%s}" % fs]))]])
    return {"lines": lines, "names": names, "entities": entities, "forms": forms,
            "clones": any(ln[1][0] == "aux" for ln in lines), "framers": framers,
            "moot": moot_flags, "finodes": finodes, "frinfo": frinfo, "direct": direct}


def render_templates(lines, names):
    return "".join(" " * ind + " ".join(t.format(**names) for t in toks) + "\n" for ind, toks in lines)
