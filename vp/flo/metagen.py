"""Small FloScript generators for the metamorphic checks C13 / C15 / C16.

Independent of vp.flo.gen (the large program generator): everything here is a Hypothesis
strategy that yields plain JSON-like data (dicts / lists / strings) from which script text is
rendered by pure functions, so a saved case replays without Hypothesis.

Name pools are disjoint from FloScript verbs, connectives and clause keywords, so a generated
identifier is never mistaken for syntax.
"""
from hypothesis import strategies as st

# ------------------------------------------------------------------------------ vocabulary
VERBS = ['load', 'house', 'init', 'server', 'logger', 'log', 'loggee', 'framer', 'first',
         'frame', 'over', 'under', 'next', 'done', 'timeout', 'repeat', 'native', 'benter',
         'enter', 'recur', 'exit', 'precur', 'renter', 'rexit', 'print', 'put', 'inc', 'copy',
         'set', 'aux', 'rear', 'raze', 'go', 'let', 'do', 'bid', 'ready', 'start', 'stop', 'run',
         'abort', 'use', 'flo', 'give', 'take']
COMPARISONS = ['==', '<', '<=', '>=', '>', '!=']
CONNECTIVES = ['to', 'by', 'with', 'from', 'per', 'for', 'cum', 'qua', 'via', 'as', 'at', 'in',
               'of', 'on', 're', 'is', 'if', 'be', 'into', 'and', 'not', '+-']
RESERVED = CONNECTIVES + COMPARISONS
OTHER_KEYWORDS = ['flush', 'keep', 'cycle', 'size', 'reuse', 'rx', 'tx', 'me', 'main', 'mine',
                  'root', 'framer', 'frame', 'actor', 'all', 'any', 'value', 'elapsed',
                  'recurred', 'goal', 'state', 'updated', 'changed', 'done', 'true', 'false',
                  'none', 'yes', 'no', 'active', 'inactive', 'slave', 'moot', 'front', 'mid',
                  'back', 'text', 'binary', 'last', 'prev']
FORBIDDEN = set(VERBS) | set(RESERVED) | set(OTHER_KEYWORDS)

WORDS = ['alpha', 'bravo', 'carol', 'delta', 'echo', 'fox', 'golf', 'hotel', 'india', 'juliet',
         'kilo', 'lima', 'mike', 'nova', 'oscar', 'papa', 'quebec', 'romeo', 'sierra', 'tango']
assert not (set(WORDS) & FORBIDDEN)

word = st.sampled_from(WORDS)
# disjoint pools so that a generated node path never collides with a generated share path
NODEW = st.sampled_from(WORDS[:8])
SHAREW = st.sampled_from(WORDS[8:14])
FIELDS_WITH = WORDS[14:17]
FIELDS_PER = WORDS[17:20]
FIELDS_CUM = WORDS[11:14]
PERIODS = ['0', '0.5', '1', '0.125', '2.0', '0.25']
CONTEXTS = ['native', 'benter', 'enter', 'recur', 'exit', 'precur', 'renter', 'rexit']


def relpath(maxseg=2, pool=None):
    return st.lists(pool or NODEW, min_size=1, max_size=maxseg).map(".".join)


def abspath(maxseg=3, pool=None):
    return st.lists(pool or NODEW, min_size=1, max_size=maxseg).map(lambda s: "." + ".".join(s))


@st.composite
def inode_text(draw, level, framers=(), frames=(), allow_implicit=True):
    """Text after `via` (parseIndirect(node=True)): path [of relation].

    level: 'framer' | 'frame' | 'aux' | 'do'. Frame/actor relations are only generated at do
    level (they need an act context that every act of the framer/frame would have to supply).
    """
    kind = draw(st.sampled_from(["rel", "rel.", "abs", "abs.", "me", "rel", "of"]))
    if kind == "rel":
        return draw(relpath())
    if kind == "rel.":
        return draw(relpath()) + "."
    if kind == "abs":
        return draw(abspath(2))
    if kind == "abs.":
        return draw(abspath(2)) + "."
    if kind == "me":
        return "me." + draw(relpath())
    # relation forms
    path = draw(relpath(1)) + draw(st.sampled_from(["", "."]))
    rels = ["root", "framer"]
    if level == "do":
        rels += ["frame", "actor", "me"]
    rel = draw(st.sampled_from(rels))
    text = path + " of " + rel
    if rel == "framer":
        named = draw(st.booleans()) if allow_implicit else True
        if named and framers:
            text += " " + draw(st.sampled_from(list(framers)))
    elif rel == "frame":
        named = draw(st.booleans()) if allow_implicit else True
        if named and frames:
            text += " " + draw(st.sampled_from(list(frames)))
            if framers and draw(st.booleans()):
                text += " of framer " + draw(st.sampled_from(list(framers)))
    elif rel == "actor":
        pass  # of actor [me] : own actor only (a named foreign actor need not exist)
    return text


@st.composite
def direct_data(draw, values=None, single_ok=True, fields=None):
    """Text after with/per/cum (parseDirect): `value` or `field value [field value ...]`."""
    vals = values if values is not None else st.sampled_from(["1", "2.5", "true", '"a b"', "'q'", "7", "-3"])
    if single_ok and draw(st.integers(0, 3)) == 0:
        return draw(vals)
    n = draw(st.integers(1, 3))
    fields = draw(st.lists(st.sampled_from(fields or WORDS), min_size=n, max_size=n, unique=True))
    return " ".join("%s %s" % (f, draw(vals)) for f in fields)


# ------------------------------------------------------------------------------ C15 commands
# A command case is
#   {"verb": ..., "pre": [lines], "head": "text before the clauses", "clauses": [[key, text], ...],
#    "tail": "text after the clauses ('' or ' if need')", "post": [lines], "defect": key | None,
#    "perms": None | [[...], ...]}
# script(case, order) = pre + [head + ' ' + ' '.join(clauses in order) + tail] + post

DEFECT_RATE = 4  # one case in DEFECT_RATE carries exactly one defective clause


def _subset(draw, keys, min_size=2):
    # sizes are drawn from an explicit list (Hypothesis would otherwise favour the minimum)
    sizes = [k for k in (2, 3, 3, 4, 4, 5, 6, 7, 9) if min_size <= k <= len(keys)] or [min_size]
    n = draw(st.sampled_from(sizes))
    ks = draw(st.permutations(keys))[:n]
    return list(ks)


def _indent(lines, n):
    return [" " * n + ln for ln in lines]


@st.composite
def cmd_framer(draw):
    keys = _subset(draw, ["be", "at", "first", "via", "in"])
    defect = draw(st.sampled_from(keys)) if draw(st.integers(1, DEFECT_RATE)) == 1 else None
    clauses = []
    for k in keys:
        bad = (k == defect)
        if k == "be":
            t = "be " + ("bogus" if bad else draw(st.sampled_from(["active", "inactive", "aux", "slave", "moot"])))
        elif k == "at":
            t = "at " + ("soon" if bad else draw(st.sampled_from(PERIODS)))
        elif k == "first":
            # defect: dangling frame reference (ResolveError -> build False) or invalid name
            t = "first " + (draw(st.sampled_from(["nosuch", "9bad"])) if bad else draw(st.sampled_from(["fa", "fb"])))
        elif k == "via":
            t = "via " + ("9bad" if bad else draw(inode_text("framer", framers=["fone", "ftwo"])))
        else:
            t = "in " + ("bogus" if bad else draw(st.sampled_from(["front", "mid", "back"])))
        clauses.append([k, t])
    pre = ["house hs", "init .trial with depth 5 height 10"]
    post = ["  frame fa", "    print hi", "    put 1 into rela", "  frame fb", "    put 2 into relb of framer",
            "framer ftwo be active", "  frame ga", "    print ho"]
    return {"verb": "framer", "pre": pre, "head": "framer fone", "clauses": clauses, "tail": "",
            "post": post, "defect": defect}


@st.composite
def cmd_frame(draw):
    keys = _subset(draw, ["in", "via"], min_size=2)
    defect = draw(st.sampled_from(keys)) if draw(st.integers(1, DEFECT_RATE)) == 1 else None
    clauses = []
    for k in keys:
        bad = (k == defect)
        if k == "in":
            t = "in " + ("nosuch" if bad else "top")
        else:
            t = "via " + ("9bad" if bad else draw(inode_text("frame", framers=["fone"])))
        clauses.append([k, t])
    pre = ["house hs", "framer fone be active first fa via " + draw(relpath(1)), "  frame top via " + draw(relpath(1))]
    post = ["      put 1 into rela", "      put 2 into me.relb", "      go next", "    frame fz in top", "      print z"]
    return {"verb": "frame", "pre": pre, "head": "    frame fa", "clauses": clauses, "tail": "",
            "post": post, "defect": defect}


@st.composite
def source_text(draw, share, fields, framers=(), frames=()):
    """Text after from/for/qua: [fields in] indirect."""
    t = ""
    if draw(st.booleans()):
        k = draw(st.integers(1, len(fields)))
        t = " ".join(draw(st.permutations(fields))[:k]) + " in "
    form = draw(st.sampled_from(["abs", "abs", "rel", "relof"]))
    if form == "abs":
        return t + share
    if form == "rel":
        return t + draw(relpath(2, SHAREW))
    rel = draw(st.sampled_from(["root", "framer", "frame", "me"]))
    s = t + draw(relpath(1, SHAREW)) + " of " + rel
    if rel == "framer" and framers and draw(st.booleans()):
        s += " " + draw(st.sampled_from(list(framers)))
    if rel == "frame" and frames and draw(st.booleans()):
        s += " " + draw(st.sampled_from(list(frames)))
    return s


DO_KEYS = ["as", "at", "via", "with", "from", "per", "for", "cum", "qua"]


@st.composite
def cmd_do(draw):
    keys = _subset(draw, DO_KEYS)
    # defective do clauses: only kinds that are reported as a script error wherever the clause
    # stands (missing data after with/per/cum runs into the '%'-format TypeError of parseDirect,
    # which is property C14's finding, so those are left out)
    defectable = [k for k in keys if k in ("at", "via", "from", "for", "qua")]
    defect = draw(st.sampled_from(defectable)) if defectable and draw(st.integers(1, DEFECT_RATE)) == 1 else None
    paths = st.sampled_from([".trial", "trial", "me.trial", ".init.test", "some.where", "india.juliet"])
    clauses = []
    for k in keys:
        bad = (k == defect)
        if k == "as":
            t = "as " + " ".join(draw(st.lists(word, min_size=1, max_size=2)))
        elif k == "at":
            t = "at " + ("bogus" if bad else draw(st.sampled_from(CONTEXTS)))
        elif k == "via":
            t = "via " + ("9bad" if bad else draw(inode_text("do", framers=["fone", "ftwo"], frames=["fa", "fb"])))
        elif k == "with":
            t = "with " + draw(direct_data(fields=FIELDS_WITH))
        elif k == "from":
            t = "from " + ("9bad" if bad else draw(source_text(".trial", ["depth", "height", "width"], ["fone"], ["fa"])))
        elif k == "per":
            if draw(st.integers(0, 4)) == 0:
                t = "per inode " + draw(relpath(1))   # `via` documented to take precedence
            else:
                t = "per " + draw(direct_data(values=paths, single_ok=False, fields=FIELDS_PER))
        elif k == "for":
            t = "for " + ("9bad" if bad else draw(source_text(".init.test", ["trial", "spot"], ["fone"], ["fa"])))
        elif k == "cum":
            t = "cum " + draw(direct_data(single_ok=False, fields=FIELDS_CUM))
        else:
            t = "qua " + ("9bad" if bad else draw(source_text(".trial", ["depth", "height", "width"], ["fone"], ["fa"])))
        clauses.append([k, t])
    kind = draw(st.sampled_from(["doer", "doer param", "doer", "deed param", "doer since"]))
    ctx = draw(st.sampled_from(["", "", "enter", "exit", "recur"]))
    pre = ["house hs", "init .trial with depth 5 height 10 width 15",
           'init .init.test with trial ".trial" spot "some.spot"',
           "framer fone be active first fa" + draw(st.sampled_from(["", " via fin", " via .top.fin"])),
           "  frame fa" + draw(st.sampled_from(["", " via frin"]))]
    if ctx:
        pre.append("    " + ctx)
    post = ["    go next", "  frame fb", "    print done", "framer ftwo be inactive", "  frame ga", "    print x"]
    return {"verb": "do", "pre": pre, "head": "    do " + kind, "clauses": clauses, "tail": "",
            "post": post, "defect": defect}


LOGGER_KEYS = ["to", "at", "be", "in", "flush", "keep", "cycle", "size", "reuse"]


@st.composite
def cmd_logger(draw):
    keys = _subset(draw, LOGGER_KEYS)
    defectable = [k for k in keys if k not in ("reuse", "to")]
    defect = draw(st.sampled_from(defectable)) if defectable and draw(st.integers(1, DEFECT_RATE)) == 1 else None
    clauses = []
    for k in keys:
        bad = (k == defect)
        if k == "to":
            # directory is only created when the logger is started; these scripts are never run
            t = "to " + draw(st.sampled_from(["/dev/null/vp15", "/dev/null/vp15/sub/"]))
        elif k == "at":
            t = "at " + ("soon" if bad else draw(st.sampled_from(PERIODS)))
        elif k == "be":
            t = "be " + ("bogus" if bad else draw(st.sampled_from(["active", "inactive", "slave"])))
        elif k == "in":
            t = "in " + ("bogus" if bad else draw(st.sampled_from(["front", "mid", "back"])))
        elif k == "flush":
            t = "flush " + ("often" if bad else draw(st.sampled_from(["1", "5.5", "60"])))
        elif k == "keep":
            t = "keep " + ("many" if bad else draw(st.sampled_from(["0", "2", "5"])))
        elif k == "cycle":
            t = "cycle " + ("daily" if bad else draw(st.sampled_from(["0", "10", "3600.5"])))
        elif k == "size":
            t = "size " + ("huge" if bad else draw(st.sampled_from(["0", "512", "4096"])))
        else:
            t = "reuse"
        clauses.append([k, t])
    pre = ["house hs"]
    post = ["  log lga on always", "    loggee .a.b as ab", "framer fone be active", "  frame fa", "    put 1 into .a.b"]
    return {"verb": "logger", "pre": pre, "head": "logger lgr", "clauses": clauses, "tail": "",
            "post": post, "defect": defect}


@st.composite
def cmd_log(draw):
    keys = _subset(draw, ["to", "as", "on"])
    defectable = [k for k in keys if k != "to"]
    defect = draw(st.sampled_from(defectable)) if defectable and draw(st.integers(1, DEFECT_RATE)) == 1 else None
    clauses = []
    for k in keys:
        bad = (k == defect)
        if k == "to":
            t = "to " + draw(st.sampled_from(["fileone", "file_two"]))
        elif k == "as":
            t = "as " + ("bogus" if bad else draw(st.sampled_from(["text", "binary"])))
        else:
            t = "on " + ("bogus" if bad else draw(st.sampled_from(
                ["once", "never", "always", "update", "change", "streak", "deck"])))
        clauses.append([k, t])
    pre = ["house hs", "logger lgr to /dev/null/vp15"]
    post = ["    loggee value in .a.b as ab", "framer fone be active", "  frame fa", "    put 1 into .a.b"]
    return {"verb": "log", "pre": pre, "head": "  log lga", "clauses": clauses, "tail": "",
            "post": post, "defect": defect}


SERVER_KEYS = ["at", "to", "be", "in", "rx", "tx", "per", "for"]


@st.composite
def cmd_server(draw):
    keys = _subset(draw, SERVER_KEYS)
    defectable = [k for k in keys if k in ("at", "be", "in")]
    defect = draw(st.sampled_from(defectable)) if defectable and draw(st.integers(1, DEFECT_RATE)) == 1 else None
    clauses = []
    for k in keys:
        bad = (k == defect)
        if k == "at":
            t = "at " + ("soon" if bad else draw(st.sampled_from(PERIODS)))
        elif k == "to":
            t = "to " + draw(st.sampled_from(["/dev/null/vp15", "/dev/null/vp15/srv/"]))
        elif k == "be":
            t = "be " + ("bogus" if bad else draw(st.sampled_from(["active", "inactive", "slave"])))
        elif k == "in":
            t = "in " + ("bogus" if bad else draw(st.sampled_from(["front", "mid", "back"])))
        elif k == "rx":
            t = "rx " + draw(st.sampled_from([":25511", "localhost:25512", "127.0.0.1"]))
        elif k == "tx":
            t = "tx " + draw(st.sampled_from([":25521", "localhost:25522", "127.0.0.1"]))
        elif k == "per":
            t = "per " + draw(direct_data())
        else:
            t = "for " + draw(st.sampled_from(["value in .meta.name", ".meta.name", "depth in .trial", ".trial"]))
        clauses.append([k, t])
    pre = ["house hs", "init .trial with depth 5 height 10"]
    post = ["framer fone be active", "  frame fa", "    print hi"]
    return {"verb": "server", "pre": pre, "head": "server srv", "clauses": clauses, "tail": "",
            "post": post, "defect": defect}


@st.composite
def need_text(draw):
    return draw(st.sampled_from([".a.b", ".a.b == 1", "elapsed >= 1.0", "not .c.d", "rela of framer > 2"]))


@st.composite
def cmd_aux(draw):
    keys = _subset(draw, ["as", "via"], min_size=2)
    defect = draw(st.sampled_from(keys)) if draw(st.integers(1, DEFECT_RATE)) == 1 else None
    clauses = []
    for k in keys:
        bad = (k == defect)
        if k == "as":
            t = "as " + ("9bad" if bad else draw(st.sampled_from(["mine", "cla", "clb"])))
        else:
            t = "via " + ("9bad" if bad else draw(st.one_of(st.sampled_from(["main", "mine", "me"]),
                                                            inode_text("aux", framers=["fone", "mo"]))))
        clauses.append([k, t])
    # the trailing condition clause is documented to come last; it stays last. (A cloned
    # conditional aux is refused by buildAux with a ParseError for every order.)
    tail = ""
    if draw(st.integers(0, 3)) == 0:
        tail = " if " + " and ".join(draw(st.lists(need_text(), min_size=1, max_size=2)))
    pre = ["house hs", "framer fone be active first fa via " + draw(relpath(1)), "  frame fa"]
    post = ["    go next", "  frame fb", "    print hi",
            "framer mo be moot via " + draw(st.sampled_from(["mn", "me.mn", "mn."])),
            "  frame ma", "    put 1 into rela", "    do doer param at enter via dn per color red", "    done"]
    return {"verb": "aux", "pre": pre, "head": "    aux mo", "clauses": clauses, "tail": tail,
            "post": post, "defect": defect}


@st.composite
def cmd_rear(draw):
    keys = _subset(draw, ["as", "be", "in"])
    defect = draw(st.sampled_from(keys)) if draw(st.integers(1, DEFECT_RATE)) == 1 else None
    clauses = []
    for k in keys:
        bad = (k == defect)
        if k == "as":
            t = "as " + ("9bad" if bad else "mine")
        elif k == "be":
            t = "be " + ("bogus" if bad else "aux")
        else:
            # documented form: `in frame framename` (name required for rear)
            t = "in " + ("framer fb" if bad else "frame fb")
        clauses.append([k, t])
    pre = ["house hs", "framer fone be active first fa", "  frame fa"]
    post = ["    go next", "  frame fb", "    print hi", "framer mo be moot", "  frame ma", "    done"]
    return {"verb": "rear", "pre": pre, "head": "    rear mo", "clauses": clauses, "tail": "",
            "post": post, "defect": defect}


@st.composite
def cmd_raze(draw):
    # raze has a single optional clause: nothing to permute (kept for completeness, trivial)
    t = draw(st.sampled_from(["in frame", "in frame fb", "in frame me"]))
    pre = ["house hs", "framer fone be active first fa", "  frame fa"]
    post = ["    go next", "  frame fb", "    print hi"]
    return {"verb": "raze", "pre": pre, "head": "    raze " + draw(st.sampled_from(["all", "first", "last"])),
            "clauses": [["in", t]], "tail": "", "post": post, "defect": None}


@st.composite
def cmd_marker(draw):
    keys = _subset(draw, ["in", "by"], min_size=2)
    defect = "in" if draw(st.integers(1, DEFECT_RATE)) == 1 else None
    clauses = []
    for k in keys:
        bad = (k == defect)
        if k == "in":
            t = "in " + ("framer" if bad else draw(st.sampled_from(["frame", "frame fb", "frame me", "frame fa"])))
        else:
            t = "by " + draw(st.sampled_from(["mka", "'mk b'", '"mkc"']))
        clauses.append([k, t])
    share = draw(st.sampled_from([".a.b", "rela", "rela of framer", "relb of frame fb"]))
    part = draw(st.sampled_from(["updated", "changed"]))
    verb = draw(st.sampled_from(["go fb if", "go next if", "let me if", "aux mo if", "go fb if not"]))
    before = draw(st.sampled_from(["", "", ".c.d == 1 and "]))
    tail = draw(st.sampled_from(["", "", " and .e.f", " and elapsed >= 1"]))
    pre = ["house hs", "framer fone be active first fa", "  frame fa"]
    post = ["  frame fb", "    print hi", "framer mo be aux", "  frame ma", "    done"]
    return {"verb": "marker", "pre": pre, "head": "    %s %s%s is %s" % (verb, before, share, part),
            "clauses": clauses, "tail": tail, "post": post, "defect": defect}


COMMANDS = {"framer": cmd_framer, "frame": cmd_frame, "do": cmd_do, "logger": cmd_logger,
            "log": cmd_log, "server": cmd_server, "aux": cmd_aux, "rear": cmd_rear,
            "raze": cmd_raze, "marker": cmd_marker}


def render_command(case, order=None):
    """Script text of a C15 command case with its clauses in the given order (list of indexes)."""
    clauses = case["clauses"]
    if order is None:
        order = range(len(clauses))
    line = case["head"]
    for i in order:
        line += " " + clauses[i][1]
    line += case.get("tail", "")
    return "\n".join(list(case["pre"]) + [line] + list(case["post"])) + "\n"
