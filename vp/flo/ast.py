"""FloScript program AST (plain JSON-like dicts) + renderer to script text.

Program  {"period": "0.125", "ticks": 12, "inits": [[path, lit], ...], "framers": [Framer]}
Framer   {"name", "sched": active|inactive|aux|slave|moot, "order": front|mid|back|None,
          "period": "0.5"|None, "first": name|None, "frames": [Frame]}
Frame    {"name", "over": name|None, "acts": [Act]}
Act      {"ctx": native|benter|enter|renter|precur|recur|exit|rexit, "kind": ..., ...}
  put    {"val": lit, "dst": path}                 lit = python int/float/bool/str/None
  inc    {"dst": path, "val": lit} | {"dst": path, "src": path}
  copy   {"src": path, "dst": path}
  set    {"dst": path, "val": lit} | {"dst": path, "src": path}
  go     {"far": name|"next"|"me", "needs": [Need]}
  let    {"needs": [Need]}
  timeout {"t": "0.5"}      repeat {"n": 3}
  aux    {"name": framer, "needs": [Need]}         (conditional when needs non-empty)
  bid    {"verb": start|run|stop|abort|ready, "targets": [name|"me"|"all"], "period": "0.25"|None}
  done   {"targets": [name|"me"]}
  fiat   {"verb": ready|start|run|stop|abort, "target": name}
Need     {"neg": bool, "kind": ...}
  cmp      {"state": path, "op": "==|!=|<|<=|>=|>", "goal": lit | {"path": p}, "tol": lit|None}
  bool     {"state": path}
  elapsed / recurred  {"op", "goal": lit}
  done     {"tasker": name}
  status   {"tasker": name|"me", "status": readied|started|running|stopped|aborted}
  auxdone  {"aux": name|"any"|"all", "frame": name|"me"|None}
  updated / changed {"share": path, "frame": name|"me"|None, "by": name|None}

Every rendered command occupies exactly one physical line and there are no blank or
comment lines, so an act's line number identifies it; ioflo records `count` = the line
number the builder had read when the command was dispatched, which (because the builder
reads one line ahead looking for connective continuations) is line + 1.
"""

CTX_VERBS = ("native", "benter", "enter", "renter", "precur", "recur", "exit", "rexit")

NATIVE_CTX = {
    "put": "enter", "inc": "enter", "copy": "enter", "set": "enter", "bid": "enter",
    "done": "enter", "print": "enter",
    "go": "precur", "timeout": "precur", "repeat": "precur", "let": "benter",
}
FIAT_NATIVE = {"ready": "benter", "start": "enter", "run": "recur", "stop": "exit", "abort": "enter"}


def lit(v):
    """Render a python value as a FloScript literal."""
    if v is None:
        return "none"
    if v is True:
        return "true"
    if v is False:
        return "false"
    if isinstance(v, str):
        return '"%s"' % v
    if isinstance(v, float):
        return repr(v)
    return str(v)


def render_need(n):
    k = n["kind"]
    pre = "not " if n.get("neg") else ""
    if k == "cmp":
        goal = n["goal"]
        g = goal["path"] if isinstance(goal, dict) else lit(goal)
        if n.get("squote") and isinstance(goal, str):
            g = "'%s'" % goal        # the single quoted spelling of a string goal
        if isinstance(goal, dict) and goal.get("field"):
            g = "%s in %s" % (goal["field"], goal["path"])       # explicit goal field
        st = n["state"] if not n.get("sfield") else "%s in %s" % (n["sfield"], n["state"])
        s = "%s %s %s" % (st, n["op"], g)
        if n.get("tol") is not None:
            s += " +- %s" % lit(n["tol"])
        return pre + s
    if k == "bool":
        return pre + n["state"]
    if k in ("elapsed", "recurred"):
        # optional explicit spelling `state re [me|framername]`; goal direct or from a share; optional tolerance
        s = k
        if n.get("re") is not None:
            s += " re" + ((" " + n["re"]) if n["re"] else "")
        goal = n["goal"]
        if isinstance(goal, dict):
            g = ("%s in %s" % (goal["field"], goal["path"])) if goal.get("field") else goal["path"]
        else:
            g = lit(goal)
        s += " %s %s" % (n["op"], g)
        if n.get("tol") is not None:
            s += " +- %s" % lit(n["tol"])
        return pre + s
    if k == "done":
        return pre + "%s is done" % n["tasker"]
    if k == "status":
        return pre + "%s is %s" % (n["tasker"], n["status"])
    if k == "auxdone":
        s = "aux %s" % n["aux"] if n["aux"] not in ("any", "all") else n["aux"]
        if n.get("frame"):
            s += " in frame %s" % n["frame"]
        return pre + s + " is done"
    if k in ("updated", "changed"):
        s = "%s is %s" % (n["share"], k)
        if n.get("frame"):
            s += " in frame %s" % n["frame"]
        if n.get("by"):
            s += " by %s" % n["by"]
        return pre + s
    raise ValueError("unknown need kind %r" % k)


def render_needs(needs):
    return " and ".join(render_need(n) for n in needs)


def render_act(a):
    k = a["kind"]
    if k == "put":
        return "put %s into %s" % (lit(a["val"]), a["dst"])
    if k == "inc":
        if "src" in a:
            return "inc %s from %s" % (a["dst"], a["src"])
        return "inc %s with %s" % (a["dst"], lit(a["val"]))
    if k == "copy":
        return "copy %s into %s" % (a["src"], a["dst"])
    if k == "set":
        if "src" in a:
            return "set %s from %s" % (a["dst"], a["src"])
        return "set %s with %s" % (a["dst"], lit(a["val"]))
    if k == "go":
        s = "go %s" % a["far"]
        if a.get("needs"):
            s += " if " + render_needs(a["needs"])
        return s
    if k == "let":
        return "let me if " + render_needs(a["needs"])
    if k == "timeout":
        return "timeout %s" % a["t"]
    if k == "repeat":
        return "repeat %s" % a["n"]
    if k == "aux":
        s = "aux %s" % a["name"]
        if a.get("needs"):
            s += " if " + render_needs(a["needs"])
        return s
    if k == "bid":
        s = "bid %s %s" % (a["verb"], " ".join(a["targets"]))
        if a.get("period") is not None:
            s += " at %s" % a["period"]
        return s
    if k == "done":
        return "done %s" % " ".join(a["targets"])
    if k == "fiat":
        return "%s %s" % (a["verb"], a["target"])
    raise ValueError("unknown act kind %r" % k)


def act_context(a):
    """Context list the builder files the act under."""
    k = a["kind"]
    if k in ("go", "timeout", "repeat"):
        return "precur"
    if k == "let":
        return "benter"
    if k == "aux":
        return "precur" if a.get("needs") else "aux"
    ctx = a.get("ctx", "native")
    if ctx != "native":
        return ctx
    if k == "fiat":
        return FIAT_NATIVE[a["verb"]]
    return NATIVE_CTX[k]


def render(prog, house="h"):
    """-> (text, linemap) where linemap[line] = (framer name, frame name, act index).
    Assigns a["line"] in place on every act."""
    lines = ["house %s" % house]
    linemap = {}
    for path, val in prog.get("inits", []):
        if isinstance(val, dict):      # several named fields
            lines.append("init %s with %s" % (path, " ".join("%s %s" % (k, lit(v)) for k, v in val.items())))
        else:
            lines.append("init %s with %s" % (path, lit(val)))
    for fr in prog["framers"]:
        s = "framer %s be %s" % (fr["name"], fr["sched"])
        if fr.get("order"):
            s += " in %s" % fr["order"]
        if fr.get("period") is not None:
            s += " at %s" % fr["period"]
        if fr.get("first"):
            s += " first %s" % fr["first"]
        lines.append(s)
        for f in fr["frames"]:
            s = "frame %s" % f["name"]
            if f.get("over"):
                s += " in %s" % f["over"]
            lines.append(s)
            cur = "native"
            for i, a in enumerate(f["acts"]):
                ctx = a.get("ctx", "native")
                if a["kind"] in ("go", "timeout", "repeat", "let", "aux"):
                    ctx = cur  # context verbs do not affect these; do not emit a change
                if ctx != cur:
                    lines.append(ctx)
                    cur = ctx
                lines.append(render_act(a))
                a["line"] = len(lines)
                linemap[len(lines)] = (fr["name"], f["name"], i)
    return "\n".join(lines) + "\n", linemap
