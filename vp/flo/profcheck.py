"""Helper that turns (profile, invariants, non-triviality rule) into the plan/work/replay
functions of a check module for the FloScript run-time properties."""
from vp.core.acc import Acc
from vp.core.hyp import campaign, Outcome, Budget
from vp.flo import gen, inv as I
from vp.flo.engine import run_case, prog_key


def evaluate(case, invs, use_ref=True, ref_opts=None):
    """-> (failures, run result dict)"""
    r = run_case(case, want_ref=use_ref, ref_opts=ref_opts)
    fails = []
    if r["real"]["build"] != "True":
        fails.append(r["diff"])
        return fails, r
    if r["real"].get("exc") and not case.get("crash"):
        fails.append(("exception-%s" % r["real"]["exc"], "Skedder.run raised %s: %s\n%s" % (
            r["real"]["exc"], r["real"].get("exc_detail"), r["text"])))
    if r["diff"]:
        fails.append(("ref-" + r["diff"][0], "differs from the reference interpreter: " + r["diff"][1]))
    for name in invs:
        fn = getattr(I, "inv_" + name)
        for sig, what in fn(case["prog"], r["real"]):
            fails.append((sig, what + "\n" + r["text"]))
    # one failure per signature per case
    seen = set()
    out = []
    for sig, what in fails:
        if sig not in seen:
            seen.add(sig)
            out.append((sig, what))
    return out, r


class ProfileCheck(object):
    def __init__(self, profile, invs, nontrivial, classes=None, quick=(8, 400), thorough=(16, 4000),
                 use_ref=True, quick_budget=150, thorough_budget=1500, directed=None, directed_share=4):
        # directed: optional second strategy (a scenario family); every directed_share-th shard uses it
        self.directed = directed
        self.directed_share = directed_share
        self.profile = profile
        self.invs = invs
        self.nontrivial = nontrivial
        self.classes = classes or (lambda prog, r: [])
        self.quick = quick
        self.thorough = thorough
        self.use_ref = use_ref
        self.qb = quick_budget
        self.tb = thorough_budget

    def plan(self, tier):
        n, count = self.quick if tier == "quick" else self.thorough
        return [{"part": "rand", "i": i, "n": n, "count": count,
                 "directed": bool(self.directed) and (i % self.directed_share == self.directed_share - 1)} for i in range(n)]

    def work(self, shard, seed, tier):
        acc = Acc()
        budget = Budget(self.qb if tier == "quick" else self.tb)

        def execute(prog):
            fails, r = evaluate({"prog": prog}, self.invs, self.use_ref)
            f = r["feats"] or {}
            nt = bool(r["feats"]) and bool(self.nontrivial(prog, r))
            cl = list(self.classes(prog, r)) if r["feats"] else ["did-not-build"]
            return Outcome(fails, nontrivial=nt, classes=cl, key=prog_key(prog),
                           sample={"script": r["text"], "ticks_run": r["real"].get("nticks")})
        strat = self.directed() if shard.get("directed") else gen.program(self.profile)
        if shard.get("directed"):
            inner = execute

            def execute(prog, inner=inner):
                out = inner(prog)
                out.classes.append("directed-scenario")
                return out
        campaign(acc, strat, execute, shard["count"], seed * 1000 + shard["i"],
                 to_case=lambda p: {"prog": p}, budget=budget, shrink_examples=250)
        return acc

    def replay(self, case):
        fails, r = evaluate(case, self.invs, self.use_ref)
        return fails


def count_events(r, pred):
    from vp.flo.engine import all_events
    return sum(1 for t, i, e in all_events(r["real"]) if pred(e))
