"""Hypothesis strategies generating well-formed FloScript program ASTs (vp.flo.ast) by construction.

Everything is resolved while generating (names exist, frame forest acyclic, `next` only
where a next frame exists, shares typed and initialised), so no assume()/filter is needed.
A `profile` dict tunes the feature mix for a check:
  taskables (lo, hi), auxes (lo, hi), slaves (lo, hi), frames (lo, hi), acts (lo, hi),
  depth: max nesting depth, ticks (lo, hi), periods: list of tick periods,
  tasker_periods: list, kinds: {kind: weight}, needs: {kind: weight}, shuffle_frames: bool
"""
from hypothesis import strategies as st

NUM = [".n.a", ".n.b", ".n.c"]
STR = [".s.a"]
FLG = [".b.a"]

DEFAULT = {
    "taskables": (1, 3), "auxes": (0, 2), "slaves": (0, 1), "frames": (1, 5), "acts": (0, 5),
    "depth": 3, "ticks": (3, 14), "periods": ["0.125", "0.0625", "0.25"],
    "tasker_periods": [None, None, None, "0.125", "0.25", "0.375", "0.5"],
    "kinds": {"data": 6, "go": 5, "let": 1, "timeout": 1, "repeat": 1, "aux": 2, "auxif": 2,
              "bid": 2, "done": 1, "fiat": 2},
    "needs": {"cmp": 5, "bool": 1, "elapsed": 2, "recurred": 2, "done": 1, "status": 1, "auxdone": 1,
              "updated": 0, "changed": 0},
    "shuffle_frames": False,
    "orders": [None, None, "front", "mid", "back"],
}

NUMS = [0, 1, 2, 3, -1, 5, 0.5, 1.5, 2.0, -0.25]
CTX_DATA = ["native", "native", "enter", "recur", "recur", "exit", "renter", "rexit", "precur"]
OPS = ["==", "!=", "<", "<=", ">=", ">"]


def _weighted(draw, table):
    items = [k for k, w in sorted(table.items()) for _ in range(w)]
    return draw(st.sampled_from(items))


@st.composite
def need(draw, env):
    prof = env["prof"]
    table = dict(prof["needs"])
    if not env["doneables"]:
        table["done"] = 0
    if not env["statusables"]:
        table["status"] = 0
    if not env["frame_auxes"]:
        table["auxdone"] = 0
    k = _weighted(draw, table)
    n = {"kind": k, "neg": draw(st.sampled_from([False, False, False, True]))}
    if k == "cmp" and prof.get("driver_cmp") and draw(st.booleans()):
        # the driver framer increments .n.a every tick: these conditions flip from false to true over time
        n["state"] = ".n.a"
        n["op"] = draw(st.sampled_from([">=", ">=", ">", "=="]))
        n["goal"] = draw(st.integers(1, 8))
        n["neg"] = False
    elif k == "cmp":
        if draw(st.integers(0, 7)) == 0:
            n["state"] = STR[0]
            n["op"] = draw(st.sampled_from(["==", "!="]))
            n["goal"] = draw(st.sampled_from(["", "x", "y"]))
        else:
            n["state"] = draw(st.sampled_from(NUM))
            n["op"] = draw(st.sampled_from(OPS))
            if draw(st.integers(0, 3)) == 0:
                n["goal"] = {"path": draw(st.sampled_from(NUM))}
            else:
                n["goal"] = draw(st.sampled_from(NUMS))
            if n["op"] in ("==", "!=") and draw(st.booleans()):
                n["tol"] = draw(st.sampled_from([0, 0.5, 1, -0.5]))
    elif k == "bool":
        n["state"] = draw(st.sampled_from(FLG + NUM))
    elif k == "elapsed":
        n["op"] = draw(st.sampled_from([">=", ">=", ">", "==", "<", "<="]))
        n["goal"] = draw(st.sampled_from(prof.get("elapsed_goals", [0.0, 0.125, 0.25, 0.375, 0.5, 1.0])))
    elif k == "recurred":
        n["op"] = draw(st.sampled_from([">=", ">=", ">", "==", "<", "<="]))
        n["goal"] = draw(st.integers(0, 4))
    elif k == "done":
        n["tasker"] = draw(st.sampled_from(env["doneables"]))
    elif k == "status":
        n["tasker"] = draw(st.sampled_from(env["statusables"] + ["me"]))
        n["status"] = draw(st.sampled_from(["readied", "started", "running", "stopped", "aborted"]))
    elif k == "auxdone":
        n["aux"] = draw(st.sampled_from(env["frame_auxes"] + ["any", "all"]))
        n["frame"] = "me"
    elif k in ("updated", "changed"):
        n["share"] = draw(st.sampled_from(NUM))
        n["frame"] = draw(st.sampled_from([None, "me"] + env["frame_names"]))
        n["by"] = draw(st.sampled_from([None, None, "mk"]))
    return n


@st.composite
def needs(draw, env, lo=1, hi=2):
    out = [draw(need(env)) for _ in range(draw(st.integers(lo, hi)))]
    if env["prof"].get("one_marker_per_act"):
        seen = False
        for i, n in enumerate(out):
            if n["kind"] in ("updated", "changed"):
                if seen:
                    out[i] = {"kind": "recurred", "neg": False, "op": ">=", "goal": draw(st.integers(0, 2))}
                seen = True
    return out


@st.composite
def data_act(draw, env):
    if env["prof"].get("data_simple"):
        kind = draw(st.sampled_from(["put", "inc", "set"]))
        a = {"kind": kind, "ctx": draw(st.sampled_from(CTX_DATA)), "dst": draw(st.sampled_from(NUM))}
        if kind == "inc":
            a["val"] = draw(st.sampled_from([1, 1, 2, 0]))
        else:
            a["val"] = draw(st.sampled_from([0, 1, 2, 3]))
        return a
    kind = draw(st.sampled_from(["put", "put", "inc", "inc", "copy", "set"]))
    a = {"kind": kind, "ctx": draw(st.sampled_from(CTX_DATA))}
    if draw(st.integers(0, 9)) == 0 and kind in ("put", "set"):
        path = STR[0]
        val = draw(st.sampled_from(["x", "y", ""]))
    elif draw(st.integers(0, 11)) == 0 and kind in ("put", "set"):
        path = FLG[0]
        val = draw(st.booleans())
    else:
        path = draw(st.sampled_from(NUM))
        val = draw(st.sampled_from(NUMS))
    if kind == "put":
        a["val"], a["dst"] = val, path
    elif kind == "inc":
        a["dst"] = draw(st.sampled_from(NUM))
        if draw(st.integers(0, 3)) == 0:
            a["src"] = draw(st.sampled_from(NUM))
        else:
            a["val"] = draw(st.sampled_from([1, 1, 2, -1, 0.5]))
    elif kind == "copy":
        a["src"] = draw(st.sampled_from(NUM))
        a["dst"] = draw(st.sampled_from(NUM))
    else:
        a["dst"] = path
        if path in NUM and draw(st.integers(0, 3)) == 0:
            a["src"] = draw(st.sampled_from(NUM))
        else:
            a["val"] = val
    return a


@st.composite
def program(draw, profile=None):
    prof = dict(DEFAULT)
    if profile:
        for k, v in profile.items():
            if isinstance(v, dict) and isinstance(prof.get(k), dict):
                d = dict(prof[k])
                d.update(v)
                prof[k] = d
            else:
                prof[k] = v
    nt = draw(st.integers(*prof["taskables"]))
    na = draw(st.integers(*prof["auxes"]))
    ns = draw(st.integers(*prof["slaves"]))
    tnames = ["m%d" % i for i in range(nt)]
    anames = ["x%d" % i for i in range(na)]
    snames = ["s%d" % i for i in range(ns)]
    framers = []
    specs = [(n, "taskable") for n in tnames] + [(n, "slave") for n in snames] + [(n, "aux") for n in anames]
    # declaration order of framers: taskables in a drawn order (matters for the schedule),
    # auxes / slaves interleaved anywhere
    specs = draw(st.permutations(specs))
    for name, role in specs:
        if role == "taskable":
            sched = draw(st.sampled_from(prof.get("scheds", ["active", "active", "active", "inactive"])))
            order = draw(st.sampled_from(prof["orders"]))
            period = draw(st.sampled_from(prof["tasker_periods"]))
        else:
            sched, order, period = role, None, None
        nf = draw(st.integers(*prof["frames"]))
        fnames = ["%s%s" % (name, "abcdefgh"[i]) for i in range(nf)]
        depth = {}
        frames = []
        for i, fn in enumerate(fnames):
            over = None
            if i > 0 and prof["depth"] > 0 and draw(st.integers(0, 2)) > 0:
                cands = [p for p in fnames[:i] if depth[p] < prof["depth"]]
                if cands:
                    over = draw(st.sampled_from(cands))
            depth[fn] = 0 if over is None else depth[over] + 1
            frames.append({"name": fn, "over": over, "acts": []})
        first = draw(st.sampled_from([None, None] + fnames))
        framers.append({"name": name, "sched": sched, "order": order, "period": period,
                        "first": first, "frames": frames, "_role": role})
    # "clean" aux policy: every aux framer has one owner framer and one mode (plain: may be
    # listed in several frames of the owner; cond: used by exactly one `aux .. if` clause)
    assign = {}
    if prof.get("aux_policy") == "clean":
        for a in anames:
            if prof.get("aux_owner") == "taskable":
                owners = list(tnames)
            else:
                owners = tnames + snames + [b for b in anames if int(b[1:]) < int(a[1:])]
            assign[a] = {"owner": draw(st.sampled_from(owners)),
                         "mode": draw(st.sampled_from(prof.get("aux_modes", ["plain", "cond"]))), "used": False}
    # acts
    for fr in framers:
        role = fr["_role"]
        name = fr["name"]
        fnames = [f["name"] for f in fr["frames"]]
        # auxes usable by this framer: aux framers "later" than itself (no cycles)
        if role == "aux":
            usable_aux = [a for a in anames if int(a[1:]) > int(name[1:])]
        else:
            usable_aux = list(anames)
        if assign:
            usable_aux = [a for a in usable_aux if assign[a]["owner"] == name]
        for fi, f in enumerate(fr["frames"]):
            nacts = draw(st.integers(*prof["acts"]))
            frame_auxes = []
            for _ in range(nacts):
                table = dict(prof["kinds"])
                if fi + 1 >= len(fnames):
                    table["timeout"] = 0
                    table["repeat"] = 0
                plain_ok = [a for a in usable_aux if not assign or assign[a]["mode"] == "plain"]
                cond_ok = [a for a in usable_aux if not assign or (assign[a]["mode"] == "cond" and not assign[a]["used"])]
                if not plain_ok:
                    table["aux"] = 0
                if not cond_ok:
                    table["auxif"] = 0
                if role != "taskable" or not snames:
                    table["fiat"] = 0
                if not (anames or snames) and role == "taskable":
                    table["done"] = 0
                if role == "aux" and prof.get("let_in_aux") is False:
                    table["let"] = 0
                env = {"prof": prof, "doneables": anames + snames, "statusables": tnames + snames,
                       "frame_auxes": list(frame_auxes), "frame_names": fnames}
                k = _weighted(draw, table)
                if k == "data":
                    a = draw(data_act(env))
                elif k == "go":
                    fars = list(fnames) + ["me"]
                    if fi + 1 < len(fnames):
                        fars += ["next", "next"]
                    a = {"kind": "go", "far": draw(st.sampled_from(fars)),
                         "needs": draw(needs(env, 0 if draw(st.integers(0, 5)) == 0 else 1, 2))}
                elif k == "let":
                    a = {"kind": "let", "needs": draw(needs(env, 1, 2))}
                elif k == "timeout":
                    a = {"kind": "timeout", "t": draw(st.sampled_from(prof.get("timeouts", ["0.125", "0.25", "0.5", "0.375", "1.0", "0"])))}
                elif k == "repeat":
                    a = {"kind": "repeat", "n": draw(st.integers(0, 4))}
                elif k == "aux":
                    x = draw(st.sampled_from(plain_ok))
                    a = {"kind": "aux", "name": x, "needs": []}
                    if x not in frame_auxes:
                        frame_auxes.append(x)
                elif k == "auxif":
                    x = draw(st.sampled_from(cond_ok))
                    a = {"kind": "aux", "name": x, "needs": draw(needs(env, 1, 2))}
                    if assign:
                        assign[x]["used"] = True
                elif k == "bid":
                    verb = draw(st.sampled_from(["start", "run", "stop", "stop", "abort", "ready"]))
                    tg = draw(st.lists(st.sampled_from(tnames + ["me", "all"]), min_size=1, max_size=2, unique=True))
                    if role != "taskable":
                        tg = [t for t in tg if t != "me"] or [draw(st.sampled_from(tnames))]
                    per = None
                    if verb in ("start", "run", "ready") and draw(st.integers(0, 2)) == 0:
                        per = draw(st.sampled_from(prof.get("bid_periods", ["0.125", "0.25", "0.5", "0.0"])))
                    a = {"kind": "bid", "verb": verb, "targets": tg, "period": per,
                         "ctx": draw(st.sampled_from(["native", "native", "recur", "exit", "enter"]))}
                elif k == "done":
                    if role in ("aux", "slave"):
                        tg = ["me"] if draw(st.integers(0, 2)) else [draw(st.sampled_from(anames + snames))]
                    else:
                        tg = [draw(st.sampled_from(anames + snames))]
                    if draw(st.integers(0, 2)) == 0:        # one verb naming several taskers
                        more = draw(st.lists(st.sampled_from(anames + snames), min_size=1, max_size=2))
                        tg = tg + [t for t in dict.fromkeys(more) if t not in tg]
                        if draw(st.booleans()):
                            tg = tg[::-1]
                    a = {"kind": "done", "targets": tg,
                         "ctx": draw(st.sampled_from(["native", "native", "recur", "exit"]))}
                elif k == "fiat":
                    verb = draw(st.sampled_from(["ready", "start", "start", "run", "run", "stop", "abort"]))
                    a = {"kind": "fiat", "verb": verb, "target": draw(st.sampled_from(snames)),
                         "ctx": draw(st.sampled_from(["native", "native", "enter", "recur", "exit"]))}
                else:
                    raise ValueError(k)
                f["acts"].append(a)
    # clean policy: every aux framer is really used by its owner (otherwise most programs never
    # enter an auxiliary): insert the missing aux clause into one of the owner's frames
    if assign:
        for fr in framers:
            for aname in anames:
                info = assign[aname]
                if info["owner"] != fr["name"]:
                    continue
                cands = fr["frames"]
                if prof.get("aux_place") == "first":
                    # the framer's first frame or one of its ancestors: entered whenever the framer starts
                    byname = {x["name"]: x for x in fr["frames"]}
                    x = byname[fr["first"]] if fr.get("first") else fr["frames"][0]
                    cands = [x]
                    while x.get("over"):
                        x = byname[x["over"]]
                        cands.append(x)
                used = any(a["kind"] == "aux" and a["name"] == aname for f in cands for a in f["acts"])
                if used or (info["mode"] == "cond" and info["used"]):
                    continue
                f = draw(st.sampled_from(cands))
                env = {"prof": prof, "doneables": anames + snames, "statusables": tnames + snames,
                       "frame_auxes": [], "frame_names": [x["name"] for x in fr["frames"]]}
                a = {"kind": "aux", "name": aname, "needs": [] if info["mode"] == "plain" else draw(needs(env, 1, 2))}
                info["used"] = True
                f["acts"].insert(draw(st.integers(0, len(f["acts"]))), a)
                if prof.get("aux_share") and info["mode"] == "plain" and len(fr["frames"]) > 1 and draw(st.booleans()):
                    # the same original listed by a second frame of the owner (ownership guard must arbitrate)
                    g = draw(st.sampled_from([x for x in fr["frames"] if x is not f]))
                    g["acts"].insert(draw(st.integers(0, len(g["acts"]))), {"kind": "aux", "name": aname, "needs": []})
                if prof.get("aux_dual") and info["mode"] == "plain" and len(fr["frames"]) > 1 and draw(st.integers(0, 2)) == 0:
                    # the same original also used as a CONDITIONAL aux by another frame of the owner: while it runs as
                    # the plain aux of one frame it is not the other frame's to run
                    g = draw(st.sampled_from([x for x in fr["frames"] if x is not f]))
                    if not any(a["kind"] == "aux" and a["name"] == aname for a in g["acts"]):
                        g["acts"].insert(draw(st.integers(0, len(g["acts"]))),
                                         {"kind": "aux", "name": aname, "needs": draw(needs(env, 1, 2))})
                if prof.get("aux_nest") and info["mode"] == "plain" and draw(st.integers(0, 2)) == 0:
                    # the same original also listed by a frame of an EARLIER auxiliary framer (no cycles): it can then be
                    # reached through two nesting levels of one outline
                    hosts = [x for x in framers if x["sched"] == "aux" and int(x["name"][1:]) < int(aname[1:])]
                    if hosts:
                        h = draw(st.sampled_from(hosts))
                        g = draw(st.sampled_from(h["frames"][:2]))
                        if not any(a["kind"] == "aux" and a["name"] == aname for a in g["acts"]):
                            g["acts"].insert(draw(st.integers(0, len(g["acts"]))), {"kind": "aux", "name": aname, "needs": []})
    if prof.get("aux_completes"):
        # make auxiliaries walk through their frames and complete after a few ticks
        for fr in framers:
            if fr["sched"] != "aux" or draw(st.integers(0, 3)) == 0:
                continue
            if draw(st.integers(0, 4)) == 0:
                fr["frames"][0]["acts"].append({"kind": "done", "targets": ["me"],
                                                "ctx": draw(st.sampled_from(["native", "recur"]))})
                continue
            for i, f in enumerate(fr["frames"]):
                if i + 1 < len(fr["frames"]):
                    f["acts"].append({"kind": "repeat", "n": draw(st.integers(0, 2))})
                else:
                    f["acts"].append({"kind": "done", "targets": ["me"],
                                      "ctx": draw(st.sampled_from(["native", "recur"]))})
    if prof.get("driver"):
        # a driver framer that makes conditions flip over time: .n.a counts ticks
        framers.insert(0, {"name": "drv", "sched": "active", "order": "front", "period": None, "first": None,
                           "frames": [{"name": "drva", "over": None,
                                       "acts": [{"kind": "inc", "dst": ".n.a", "val": 1, "ctx": "recur"}]}]})
    for fr in framers:
        fr.pop("_role", None)
    inits = [[p, 0] for p in NUM] + [[STR[0], ""], [FLG[0], False]]
    prog = {"period": draw(st.sampled_from(prof["periods"])), "ticks": draw(st.integers(*prof["ticks"])),
            "inits": inits, "framers": framers}
    if prof.get("inject"):
        # external writes: at the start of a drawn tick a NEW field is added to a share that a marker condition
        # watches (what a behavior or the host program does with share.update(field=value))
        watched = []
        for fr in framers:
            for f in fr["frames"]:
                for a in f["acts"]:
                    for n in a.get("needs") or []:
                        if n["kind"] in ("updated", "changed") and n["share"] not in watched:
                            watched.append(n["share"])
        if watched and draw(st.booleans()):
            prog["inject"] = [[draw(st.integers(1, prog["ticks"])), draw(st.sampled_from(watched)),
                               draw(st.sampled_from(["xa", "xb"])), draw(st.integers(1, 3))]
                              for _ in range(draw(st.integers(1, 2)))]
    return prog


# ---------------------------------------------------------------------------------------
# directed family: suspension scenarios (conditional aux + leaving / re-entering its main frame)
@st.composite
def suspend_scenario(draw):
    """One main framer with a branching frame tree, started in an arbitrary (often non-primary)
    branch, a conditional aux on the first frame or one of its ancestors that starts at a drawn
    tick and completes after a drawn number of ticks or never, optionally a second conditional
    aux on another frame of the chain, and one or two 'disturbances' at drawn ticks: a transition
    from a frame at or above the main frame (to itself, to the active frame, to an ancestor, to a
    sibling branch, to another top-level frame) or a stop / abort bid from another framer.
    Every frame carries enter / recur / exit acts so that suspension and exits are observable."""
    names = ["a", "b", "c1", "c2", "d1", "d2", "e"]
    parent = {"a": None, "b": "a"}
    for n in ("c1", "c2"):
        parent[n] = "b"
    parent["d1"] = draw(st.sampled_from(["c1", "c2"]))
    parent["d2"] = draw(st.sampled_from(["c1", "c2", "d1"]))
    parent["e"] = None
    use = ["a", "b", "c1", "c2"] + [n for n in ("d1", "d2") if draw(st.booleans())] + ["e"]
    if "d2" in use and parent["d2"] == "d1" and "d1" not in use:
        parent["d2"] = "c2"
    # declaration order: sibling order drawn (decides the primary child), parents first
    placed = ["a", "b"] + draw(st.permutations([n for n in use if n not in ("a", "b", "e")]))
    # reorder so that every parent precedes its child
    done = []
    pending = list(placed)
    while pending:
        for n in list(pending):
            if parent[n] is None or parent[n] in done:
                done.append(n)
                pending.remove(n)
    order = done + ["e"]
    first = draw(st.sampled_from([n for n in order if n != "e"]))
    chain = []
    x = first
    while x is not None:
        chain.append(x)
        x = parent[x]
    main = draw(st.sampled_from(chain))
    t_start = draw(st.integers(1, 4))
    dur = draw(st.sampled_from(["immediate", 0, 1, 2, 3, None, None]))
    frames = {n: {"name": n, "over": parent[n], "acts": []} for n in order}
    for n in order:
        for ctx, path in (("enter", ".n.b"), ("recur", ".n.c"), ("exit", ".n.b")):
            if draw(st.integers(0, 3)) > 0:
                frames[n]["acts"].append({"kind": "inc", "dst": path, "val": 1, "ctx": ctx})
    geq = lambda k: {"kind": "cmp", "state": ".n.a", "op": ">=", "goal": k, "neg": False}
    eq = lambda k: {"kind": "cmp", "state": ".n.a", "op": "==", "goal": k, "neg": False}
    aux_act = {"kind": "aux", "name": "x0", "needs": [draw(st.sampled_from([geq, eq]))(t_start)]}
    auxes = [{"name": "x0", "sched": "aux", "order": None, "period": None, "first": None, "frames": []}]
    xa = {"name": "xa", "over": None, "acts": [{"kind": "inc", "dst": ".n.c", "val": 1, "ctx": "recur"}]}
    if dur is None:
        auxes[0]["frames"] = [xa]
    elif dur == "immediate":
        # completes within its very first run (done in the first frame's enter or recur acts)
        xa["acts"].append({"kind": "done", "targets": ["me"], "ctx": draw(st.sampled_from(["native", "recur"]))})
        auxes[0]["frames"] = [xa]
    else:
        xa["acts"].append({"kind": "go", "far": "xb", "needs": [geq(t_start + dur)]})
        auxes[0]["frames"] = [xa, {"name": "xb", "over": None, "acts": [{"kind": "done", "targets": ["me"]}]}]
    # disturbances
    above = []
    x = main
    while x is not None:
        above.append(x)
        x = parent[x]
    dist_acts = []
    others = []
    for _ in range(draw(st.integers(1, 2))):
        t = draw(st.integers(t_start, t_start + 5))
        kind = draw(st.sampled_from(["go", "go", "go", "stop", "abort"]))
        if kind == "go":
            src = draw(st.sampled_from(above))
            far = draw(st.sampled_from(["me", first, "e", "a", "c1", "c2", main]))
            act = {"kind": "go", "far": far, "needs": [draw(st.sampled_from([geq, eq]))(t)]}
            where = draw(st.sampled_from(["before", "after"]))
            dist_acts.append((src, act, where))
        else:
            others.append({"kind": "bid", "verb": kind, "targets": ["m0"], "needs_tick": t})
    frames[main]["acts"].append(aux_act)
    for src, act, where in dist_acts:
        if where == "before":
            # before the aux clause (or at the front) so it is evaluated while the aux runs
            idx = 0
            frames[src]["acts"].insert(idx, act)
        else:
            frames[src]["acts"].append(act)
    # optional further conditional auxes on frames of the chain: one at a drawn place, or (stack) one on each of
    # up to two other frames of the chain, started bottom-up on successive ticks so that several conditional auxes
    # of one outline run together and an upper one can complete while lower ones still run
    extra = draw(st.sampled_from(["none", "none", "one", "one", "stack", "stack"]))
    plan = []
    if extra == "one":
        plan.append((draw(st.sampled_from(chain)), draw(st.integers(1, 6)), draw(st.sampled_from(["immediate", 0, 1, 3, None]))))
    elif extra == "stack":
        rest = [n for n in chain if n != main][:2]      # chain is bottom-up: lowest frames first
        members = sorted(rest + [main], key=chain.index)
        for n in rest:
            # start ticks follow the position in the chain relative to the main frame of x0 (lower frames earlier),
            # the topmost conditional aux of the stack is short lived, the lower ones long lived
            t2 = max(1, t_start + chain.index(n) - chain.index(main))
            d2 = draw(st.sampled_from([0, 1, 1])) if n == members[-1] else draw(st.sampled_from([3, 5, None, None]))
            plan.append((n, t2, d2))
    for k, (other, t2, d2) in enumerate(plan):
        nm = "x%d" % (k + 1)
        pre = "yz"[k]
        frames[other]["acts"].append({"kind": "aux", "name": nm, "needs": [geq(t2)]})
        ya = {"name": pre + "a", "over": None, "acts": []}
        fr2 = {"name": nm, "sched": "aux", "order": None, "period": None, "first": None, "frames": [ya]}
        if d2 == "immediate":
            ya["acts"].append({"kind": "done", "targets": ["me"]})
        elif d2 is not None:
            ya["acts"].append({"kind": "go", "far": pre + "b", "needs": [geq(t2 + d2)]})
            fr2["frames"].append({"name": pre + "b", "over": None, "acts": [{"kind": "done", "targets": ["me"]}]})
        auxes.append(fr2)
    outside = None
    if extra == "stack" and plan and draw(st.integers(0, 2)) == 0:
        # the conditional aux of the topmost frame of the stack is marked done from OUTSIDE (another framer's `done`)
        # while the lower ones still run: the outline stays cut at the topmost still running one
        top = members[-1]
        topaux = "x0" if top == main else "x%d" % (1 + [p_[0] for p_ in plan].index(top))
        for fr_ in auxes:
            if fr_["name"] == topaux and len(fr_["frames"]) > 1:
                # keep it running until the outside done arrives
                fr_["frames"][0]["acts"] = [a_ for a_ in fr_["frames"][0]["acts"] if a_.get("kind") != "go"]
        td = max([t_start] + [p_[1] for p_ in plan]) + draw(st.integers(1, 3))
        outside = {"name": "m2", "sched": "active", "order": draw(st.sampled_from(["front", "back", None])), "period": None,
                   "first": None, "frames": [
                       {"name": "q0", "over": None, "acts": [{"kind": "go", "far": "q1", "needs": [geq(td)]}]},
                       {"name": "q1", "over": None, "acts": [{"kind": "done", "targets": [topaux]}]}]}
    framers = [{"name": "drv", "sched": "active", "order": "front", "period": None, "first": None,
                "frames": [{"name": "drva", "over": None, "acts": [{"kind": "inc", "dst": ".n.a", "val": 1, "ctx": "recur"}]}]},
               {"name": "m0", "sched": "active", "order": None, "period": None, "first": first,
                "frames": [frames[n] for n in order]}] + auxes + ([outside] if outside else [])
    if others:
        kf = []
        for i, o in enumerate(others):
            kf.append({"name": "k%d" % i, "over": None,
                       "acts": [{"kind": "go", "far": "k%db" % i, "needs": [geq(o["needs_tick"])]}]})
            kf.append({"name": "k%db" % i, "over": None, "acts": [{"kind": "bid", "verb": o["verb"], "targets": o["targets"]}]})
        framers.append({"name": "m1", "sched": "active", "order": draw(st.sampled_from(["front", "back", None])),
                        "period": None, "first": None, "frames": kf})
    return {"period": "0.125", "ticks": draw(st.integers(6, 14)), "inits": [[p, 0] for p in NUM],
            "framers": framers}


@st.composite
def shared_cond_scenario(draw):
    """One conditional aux framer used by two frames of its owner one after the other (A then B, optionally back to
    A), whose first frame carries an entry guard: attempts are refused while the guard is false (in A and / or in
    B), the owner moves on, and the next user's attempt must succeed as soon as conditions and guard hold.
    Sub frames below A and B make the suspension observable."""
    geq = lambda k: {"kind": "cmp", "state": ".n.a", "op": ">=", "goal": k, "neg": False}
    lt = lambda k: {"kind": "cmp", "state": ".n.a", "op": "<", "goal": k, "neg": False}

    def obs(ctxs=("enter", "recur", "exit")):
        out = []
        for ctx, path in (("enter", ".n.b"), ("recur", ".n.c"), ("exit", ".n.b")):
            if ctx in ctxs and draw(st.integers(0, 3)) > 0:
                out.append({"kind": "inc", "dst": path, "val": 1, "ctx": ctx})
        return out
    ca = draw(st.integers(1, 3))            # condition of the aux clause in A holds from this tick
    tl = ca + draw(st.integers(0, 3))       # A -> B
    cb = draw(st.integers(1, tl + 2))       # condition of the aux clause in B
    guard_kind = draw(st.sampled_from(["geq", "geq", "window"]))
    g = draw(st.integers(1, tl + 3))
    guard = [geq(g)] if guard_kind == "geq" else [geq(g), lt(g + draw(st.integers(1, 3)))]
    dur = draw(st.sampled_from([0, 1, 2, None]))
    back = draw(st.sampled_from([None, None, tl + draw(st.integers(2, 5))]))
    A = {"name": "a", "over": None, "acts": obs()}
    A1 = {"name": "a1", "over": "a", "acts": obs()}
    B = {"name": "b", "over": None, "acts": obs()}
    B1 = {"name": "b1", "over": "b", "acts": obs()}
    goab = {"kind": "go", "far": "b", "needs": [geq(tl)]}
    auxa = {"kind": "aux", "name": "x0", "needs": [geq(ca)]}
    if draw(st.booleans()):
        A["acts"] += [goab, auxa]
    else:
        A["acts"] += [auxa, goab]
    B["acts"].append({"kind": "aux", "name": "x0", "needs": [geq(cb)]})
    if back is not None:
        B["acts"].insert(draw(st.integers(0, len(B["acts"]))), {"kind": "go", "far": "a", "needs": [geq(back)]})
    xa = {"name": "xa", "over": None, "acts": [{"kind": "let", "needs": guard}] + obs(("enter", "recur"))}
    xframes = [xa]
    if dur is not None:
        xa["acts"].append({"kind": "repeat", "n": dur})
        xframes.append({"name": "xb", "over": None, "acts": [{"kind": "done", "targets": ["me"]}]})
    framers = [{"name": "drv", "sched": "active", "order": "front", "period": None, "first": None,
                "frames": [{"name": "drva", "over": None, "acts": [{"kind": "inc", "dst": ".n.a", "val": 1, "ctx": "recur"}]}]},
               {"name": "m0", "sched": "active", "order": None, "period": None, "first": None, "frames": [A, A1, B, B1]},
               {"name": "x0", "sched": "aux", "order": None, "period": None, "first": None, "frames": xframes}]
    return {"period": "0.125", "ticks": draw(st.integers(8, 16)), "inits": [[p, 0] for p in NUM], "framers": framers}


@st.composite
def stacked_cond_scenario(draw):
    """One aux framer is the conditional aux of an upper AND of a lower frame of the same outline (top > mid > leaf).
    The clause whose conditions hold first starts it and is its only owner: the other clause neither runs it nor
    counts as interrupted, so the transitions written behind that clause (and those of the frames between) stay
    live; the aux is exited with its main frame."""
    geq = lambda k: {"kind": "cmp", "state": ".n.a", "op": ">=", "goal": k, "neg": False}
    obs = lambda ctx, p: {"kind": "inc", "dst": p, "val": 1, "ctx": ctx}
    tl = draw(st.integers(1, 4))             # the lower clause's conditions
    tu = draw(st.integers(1, 9))             # the upper clause's conditions (before, with or after the lower one's)
    te = draw(st.integers(2, 10))            # `go escape` written behind the upper clause
    tm = draw(st.sampled_from([None, None, draw(st.integers(2, 10))]))   # `go other` in mid
    dur = draw(st.sampled_from([None, None, 2, 5]))
    top = {"name": "top", "over": None, "acts": [obs("recur", ".n.b"), {"kind": "aux", "name": "x0", "needs": [geq(tu)]},
                                                 {"kind": "go", "far": "escape", "needs": [geq(te)]}]}
    mid_acts = [{"kind": "aux", "name": "x0", "needs": [geq(tl)]}]
    if tm is not None:
        mid_acts.insert(draw(st.integers(0, 1)), {"kind": "go", "far": "other", "needs": [geq(tm)]})
    mid = {"name": "mid", "over": "top", "acts": mid_acts + [obs("exit", ".n.c")]}
    leaf = {"name": "leaf", "over": "mid", "acts": [obs("recur", ".n.c")]}
    other = {"name": "other", "over": "top", "acts": [obs("recur", ".n.b")]}
    escape = {"name": "escape", "over": None, "acts": [obs("enter", ".n.b")]}
    xa = {"name": "xa", "over": None, "acts": [obs("enter", ".n.c"), obs("recur", ".n.c"), obs("exit", ".n.c")]}
    xframes = [xa]
    if dur is not None:
        xa["acts"].append({"kind": "repeat", "n": dur})
        xframes.append({"name": "xb", "over": None, "acts": [{"kind": "done", "targets": ["me"]}]})
    framers = [{"name": "drv", "sched": "active", "order": "front", "period": None, "first": None,
                "frames": [{"name": "drva", "over": None, "acts": [{"kind": "inc", "dst": ".n.a", "val": 1, "ctx": "recur"}]}]},
               {"name": "m0", "sched": "active", "order": None, "period": None, "first": "mid", "frames": [top, mid, leaf, other, escape]},
               {"name": "x0", "sched": "aux", "order": None, "period": None, "first": None, "frames": xframes}]
    return {"period": "0.125", "ticks": draw(st.integers(8, 16)), "inits": [[p, 0] for p in NUM], "framers": framers}


@st.composite
def cond_scenarios(draw):
    """suspension scenarios (5 of 8), shared guarded conditional aux scenarios (2 of 8) and one aux framer used as the
    conditional aux of two frames of one outline (1 of 8)"""
    k = draw(st.integers(0, 7))
    if k in (0, 4):
        return draw(shared_cond_scenario())
    if k == 7:
        return draw(stacked_cond_scenario())
    return draw(suspend_scenario())


@st.composite
def aux_with_cond_scenario(draw):
    """Directed family for plain auxiliaries: the plain aux A of main frame M has an outline of two levels whose upper
    frame runs a conditional aux C (long lived), so that A's lower frame (with a nested plain aux B) is suspended - and
    M is left (and entered again) at drawn ticks while that is the case: A, and everything entered below it, must be
    fully exited with M."""
    geq = lambda k: {"kind": "cmp", "state": ".n.a", "op": ">=", "goal": k, "neg": False}
    rec = lambda k: {"kind": "recurred", "op": ">=", "goal": k, "neg": False}
    obs = lambda ctx, p: {"kind": "inc", "dst": p, "val": 1, "ctx": ctx}
    t0, t1 = draw(st.integers(1, 4)), draw(st.integers(2, 8))
    A = {"name": "x0", "sched": "aux", "order": None, "period": None, "first": None, "frames": [
        {"name": "a0", "over": None, "acts": [obs("enter", ".n.b"), {"kind": "aux", "name": "x2", "needs": [geq(t0)]}, obs("exit", ".n.b")]},
        {"name": "a1", "over": "a0", "acts": [obs("recur", ".n.c"), {"kind": "aux", "name": "x1", "needs": []}, obs("exit", ".n.c")]}]}
    B = {"name": "x1", "sched": "aux", "order": None, "period": None, "first": None, "frames": [
        {"name": "b0", "over": None, "acts": [obs("enter", ".n.c"), obs("exit", ".n.c")]}]}
    cacts = [obs("recur", ".n.b")]
    if draw(st.booleans()):
        cacts.append({"kind": "go", "far": "c1", "needs": [rec(draw(st.integers(2, 6)))]})
    C = {"name": "x2", "sched": "aux", "order": None, "period": None, "first": None, "frames": [
        {"name": "c0", "over": None, "acts": cacts}, {"name": "c1", "over": None, "acts": [{"kind": "done", "targets": ["me"]}]}]}
    drv = {"name": "drv", "sched": "active", "order": "front", "period": None, "first": None,
           "frames": [{"name": "drva", "over": None, "acts": [{"kind": "inc", "dst": ".n.a", "val": 1, "ctx": "recur"}]}]}
    M = {"name": "m0", "sched": "active", "order": None, "period": None, "first": None, "frames": [
        {"name": "M", "over": None, "acts": [{"kind": "aux", "name": "x0", "needs": []}, {"kind": "go", "far": "N", "needs": [geq(t1)]}]},
        {"name": "N", "over": None, "acts": [{"kind": "go", "far": "M", "needs": [rec(draw(st.integers(1, 2)))]}]}]}
    if draw(st.integers(0, 2)) == 0:
        M["frames"][0]["acts"][1] = {"kind": "bid", "verb": "stop", "targets": ["me"], "ctx": "recur"} if draw(st.booleans()) else M["frames"][0]["acts"][1]
    return {"period": "0.125", "ticks": draw(st.integers(8, 16)), "inits": [[p, 0] for p in NUM], "framers": [drv, M, A, B, C]}


@st.composite
def owner_stays_scenario(draw):
    """Directed family for the ownership clause: an original aux x0 is listed by a frame that stays entered (an over
    frame common to near and far, or a frame of another running framer) and by a second frame that the framer keeps
    trying to enter. x0 may complete (`done me`) while it stays entered and owned: the attempts must be refused for as
    long as the owner is not exited."""
    geq = lambda k: {"kind": "cmp", "state": ".n.a", "op": ">=", "goal": k, "neg": False}
    rec = lambda k: {"kind": "recurred", "op": ">=", "goal": k, "neg": False}
    obs = lambda ctx, p: {"kind": "inc", "dst": p, "val": 1, "ctx": ctx}
    xa = {"name": "xa", "over": None, "acts": [obs("enter", ".n.c"), obs("recur", ".n.c"), obs("exit", ".n.c")]}
    xframes = [xa]
    fin = draw(st.integers(0, 2))
    if fin == 1:
        xa["acts"].append({"kind": "done", "targets": ["me"], "ctx": draw(st.sampled_from(["enter", "recur"]))})
    elif fin == 2:
        xa["acts"].append({"kind": "go", "far": "xb", "needs": [rec(draw(st.integers(1, 3)))]})
        xframes.append({"name": "xb", "over": None, "acts": [{"kind": "done", "targets": ["me"]}]})
    aux = {"name": "x0", "sched": "aux", "order": None, "period": None, "first": None, "frames": xframes}
    use = {"kind": "aux", "name": "x0", "needs": []}
    drv = {"name": "drv", "sched": "active", "order": "front", "period": None, "first": None,
           "frames": [{"name": "drva", "over": None, "acts": [{"kind": "inc", "dst": ".n.a", "val": 1, "ctx": "recur"}]}]}
    t1, t2 = draw(st.integers(1, 5)), draw(st.integers(2, 9))
    if draw(st.booleans()):
        # common over frame T owns x0, the under frame b lists it too
        frames = [{"name": "T", "over": None, "acts": [dict(use), obs("recur", ".n.b"),
                                                        {"kind": "go", "far": "z", "needs": [geq(t1 + t2)]}]},
                  {"name": "a", "over": "T", "acts": [obs("exit", ".n.b"), {"kind": "go", "far": "b", "needs": [geq(t1)]}]},
                  {"name": "b", "over": "T", "acts": [dict(use), obs("enter", ".n.b"),
                                                      {"kind": "go", "far": "a", "needs": [rec(draw(st.integers(1, 2)))]}]},
                  {"name": "z", "over": None, "acts": [{"kind": "go", "far": draw(st.sampled_from(["b", "T"])), "needs": [rec(1)]}]}]
        framers = [drv, {"name": "m0", "sched": "active", "order": None, "period": None, "first": None, "frames": frames}, aux]
    else:
        # a frame of another running framer owns x0
        hold = [{"name": "hold", "over": None, "acts": [dict(use), {"kind": "go", "far": "rest", "needs": [geq(t1 + t2)]}]},
                {"name": "rest", "over": None, "acts": [obs("recur", ".n.b")]}]
        take = [{"name": "idle", "over": None, "acts": [obs("exit", ".n.b"), {"kind": "go", "far": "grab", "needs": [geq(t1)]}]},
                {"name": "grab", "over": None, "acts": [dict(use), obs("enter", ".n.b")]}]
        framers = [drv, {"name": "m0", "sched": "active", "order": None, "period": None, "first": None, "frames": hold},
                   {"name": "m1", "sched": "active", "order": None, "period": None, "first": None, "frames": take}, aux]
    return {"period": "0.125", "ticks": draw(st.integers(8, 16)), "inits": [[p, 0] for p in NUM], "framers": framers}


@st.composite
def refused_while_suspended_scenario(draw):
    """Directed family: while a conditional aux of frame mid runs (frames below mid suspended), a frame above mid
    keeps attempting a transition whose target is refused by its entry guard: the refusal must leave everything as it
    is - in particular the truncated active outline and the suspension of the lower frames."""
    geq = lambda k: {"kind": "cmp", "state": ".n.a", "op": ">=", "goal": k, "neg": False}
    rec = lambda k: {"kind": "recurred", "op": ">=", "goal": k, "neg": False}
    obs = lambda ctx, p: {"kind": "inc", "dst": p, "val": 1, "ctx": ctx}
    t0 = draw(st.integers(1, 3))
    ta = t0 + draw(st.integers(0, 3))
    tg = ta + draw(st.integers(1, 5))
    xa = {"name": "xa", "over": None, "acts": [obs("recur", ".n.b")]}
    xfr = [xa]
    d = draw(st.sampled_from([None, None, 4, 7]))
    if d is not None:
        xa["acts"].append({"kind": "go", "far": "xb", "needs": [geq(t0 + d)]})
        xfr.append({"name": "xb", "over": None, "acts": [{"kind": "done", "targets": ["me"]}]})
    where = draw(st.sampled_from(["top", "top", "mid"]))
    attempt = {"kind": "go", "far": "blocked", "needs": [geq(ta)]}
    top = {"name": "top", "over": None, "acts": [obs("recur", ".n.c")] + ([attempt] if where == "top" else [])}
    mid = {"name": "mid", "over": "top", "acts": ([attempt] if where == "mid" else []) +
           [{"kind": "aux", "name": "x0", "needs": [geq(t0)]}, obs("recur", ".n.c")]}
    low = {"name": "low", "over": "mid", "acts": [obs("enter", ".n.c"), obs("recur", ".n.c"), obs("exit", ".n.c")]}
    blocked = {"name": "blocked", "over": None, "acts": [{"kind": "let", "needs": [geq(tg)]}, obs("enter", ".n.b"),
                                                         {"kind": "go", "far": draw(st.sampled_from(["top", "low", "mid"])), "needs": [rec(1)]}]}
    drv = {"name": "drv", "sched": "active", "order": "front", "period": None, "first": None,
           "frames": [{"name": "drva", "over": None, "acts": [{"kind": "inc", "dst": ".n.a", "val": 1, "ctx": "recur"}]}]}
    m0 = {"name": "m0", "sched": "active", "order": None, "period": None, "first": None, "frames": [top, mid, low, blocked]}
    x0 = {"name": "x0", "sched": "aux", "order": None, "period": None, "first": None, "frames": xfr}
    return {"period": "0.125", "ticks": draw(st.integers(8, 16)), "inits": [[p, 0] for p in NUM], "framers": [drv, m0, x0]}


@st.composite
def guard_family(draw):
    k = draw(st.integers(0, 5))
    if k == 0:
        return draw(owner_stays_scenario())
    if k == 1:
        return draw(refused_while_suspended_scenario())
    return draw(guard_scenario())


@st.composite
def guard_scenario(draw):
    """Directed family for entry guards: a framer that keeps attempting transitions into guarded frames
    (frame `let` guards at one or two levels, plain auxiliaries whose first frames are guarded, the same
    original aux listed by two frames) while a driver makes the guards flip from false to true (and, for
    `==` guards, back to false) at drawn ticks; the guarded frames lead back so attempts repeat."""
    geq = lambda k: {"kind": "cmp", "state": ".n.a", "op": ">=", "goal": k, "neg": False}
    eq = lambda k: {"kind": "cmp", "state": ".n.a", "op": "==", "goal": k, "neg": False}
    lt = lambda k: {"kind": "cmp", "state": ".n.a", "op": "<", "goal": k, "neg": False}
    rec = lambda k: {"kind": "recurred", "op": ">=", "goal": k, "neg": False}

    def guard():
        k = draw(st.integers(1, 7))
        return draw(st.sampled_from([geq, geq, eq, lt]))(k)
    obs = lambda ctx, p: {"kind": "inc", "dst": p, "val": 1, "ctx": ctx}
    frames = []
    # start frame a keeps trying to go to a guarded target
    nested = draw(st.booleans())
    tgt = "c" if nested else "b"
    a_acts = [obs("recur", ".n.c")]
    nd = draw(st.sampled_from(["none", "rec", "updated", "changed"]))
    if nd == "none":
        nds = []
    elif nd == "rec":
        nds = [rec(draw(st.integers(0, 2)))]
    else:
        # .n.c is written every tick by the recur act above: the marker condition holds at every attempt, so a
        # refused attempt must not run the transit (marker reset) action
        nds = [{"kind": nd, "neg": False, "share": ".n.c", "frame": draw(st.sampled_from([None, "me"])), "by": None}]
    a_acts.append({"kind": "go", "far": tgt, "needs": nds})
    if draw(st.booleans()):
        a_acts.append({"kind": "go", "far": "d", "needs": [rec(draw(st.integers(2, 5)))]})
    frames.append({"name": "a", "over": None, "acts": a_acts})
    b_acts = [obs("enter", ".n.b"), obs("exit", ".n.b")]
    if draw(st.integers(0, 3)) > 0:
        b_acts.insert(0, {"kind": "let", "needs": [guard()] + ([guard()] if draw(st.integers(0, 3)) == 0 else [])})
    auxes = []
    use_aux = draw(st.integers(0, 2)) > 0
    if use_aux:
        b_acts.append({"kind": "aux", "name": "x0", "needs": []})
        xa = {"name": "xa", "over": None, "acts": [obs("recur", ".n.c")]}
        if draw(st.integers(0, 2)) > 0:
            xa["acts"].insert(0, {"kind": "let", "needs": [guard()]})
        xframes = [xa]
        fin = draw(st.integers(0, 3))
        if fin == 1:
            # the aux completes in its first run and stays entered (and owned) with its main frame
            xa["acts"].append({"kind": "done", "targets": ["me"], "ctx": "recur"})
        elif fin == 2:
            xa["acts"].append({"kind": "go", "far": "xb", "needs": [rec(draw(st.integers(1, 3)))]})
            xframes.append({"name": "xb", "over": None, "acts": [{"kind": "done", "targets": ["me"]}]})
        auxes.append({"name": "x0", "sched": "aux", "order": None, "period": None, "first": None, "frames": xframes})
    # (from b down into its own under frame c: b stays entered and keeps owning its aux)
    b_acts.append({"kind": "go", "far": draw(st.sampled_from(["a", "a", "d", "me"] + (["c", "c"] if nested else []))),
                   "needs": [rec(draw(st.integers(1, 3)))]})
    frames.append({"name": "b", "over": None, "acts": b_acts})
    if nested:
        c_acts = [obs("enter", ".n.b")]
        if draw(st.integers(0, 2)) > 0:
            c_acts.insert(0, {"kind": "let", "needs": [guard()]})
        if use_aux and draw(st.booleans()):
            c_acts.append({"kind": "aux", "name": "x0", "needs": []})    # same original in parent and child
        c_acts.append({"kind": "go", "far": draw(st.sampled_from(["a", "b", "d"])), "needs": [rec(draw(st.integers(1, 3)))]})
        frames.append({"name": "c", "over": "b", "acts": c_acts})
    d_acts = [obs("enter", ".n.b")]
    if use_aux and draw(st.booleans()):
        d_acts.append({"kind": "aux", "name": "x0", "needs": []})          # same original in a sibling frame
    if draw(st.booleans()):
        d_acts.insert(0, {"kind": "let", "needs": [guard()]})
    d_acts.append({"kind": "go", "far": draw(st.sampled_from(["a", "b", tgt])), "needs": [rec(draw(st.integers(0, 2)))]})
    frames.append({"name": "d", "over": None, "acts": d_acts})
    first = draw(st.sampled_from([None, None, "a", "b", "d"]))
    framers = [{"name": "drv", "sched": "active", "order": draw(st.sampled_from(["front", "back"])), "period": None, "first": None,
                "frames": [{"name": "drva", "over": None, "acts": [{"kind": "inc", "dst": ".n.a", "val": 1, "ctx": "recur"}]}]},
               {"name": "m0", "sched": draw(st.sampled_from(["active", "active", "inactive"])), "order": None, "period": None,
                "first": first, "frames": frames}] + auxes
    if framers[1]["sched"] == "inactive" or draw(st.integers(0, 3)) == 0:
        t = draw(st.integers(1, 5))
        framers.append({"name": "m1", "sched": "active", "order": None, "period": None, "first": None, "frames": [
            {"name": "k", "over": None, "acts": [{"kind": "go", "far": "k2", "needs": [geq(t)]}]},
            {"name": "k2", "over": None, "acts": [{"kind": "bid", "verb": draw(st.sampled_from(["start", "start", "ready", "stop"])),
                                                     "targets": ["m0"]}]}]})
    return {"period": "0.125", "ticks": draw(st.integers(6, 14)), "inits": [[p, 0] for p in NUM], "framers": framers}
