"""FloScript at token level: vocabulary, line tokenizer, grammar-aware random script
generator and token mutators (used by C14; literal helpers are in the C17 module).

A script is a list of lines, a line is a list of tokens; `render` joins tokens by one
blank and lines by newline (indentation has no meaning in FloScript).

The generator is driven by a `random.Random` object (`rnd`) that the checks seed with an
integer drawn by Hypothesis (the shape parameters - kind, mutation count, looseness - are
drawn by Hypothesis too), so a case is a pure function of the Hypothesis example.
References (frame / framer / share names) come from small pools: `loose` scales the
probability of a reference being drawn from the whole pool instead of from the planned
names, which yields dangling, cyclic and duplicate references naturally; the adversarial
templates below force them.

External side effects: generated scripts are only ever *built* (never run). At build
time `logger` and `server` only create objects (directories / sockets are made by their
runners at run time); `load` opens a file: `sanitize` rewrites the operand of every
`load` line to a plain file name of the private temp dir (an existing side file that
has no `load` itself, or a missing name), so nothing outside the temp dir is read and
load chains are acyclic.
"""
import re

VERBS = ['load', 'house', 'init', 'server', 'logger', 'log', 'loggee', 'framer', 'first',
         'frame', 'over', 'under', 'next', 'done', 'timeout', 'repeat',
         'native', 'benter', 'enter', 'recur', 'exit', 'precur', 'renter', 'rexit',
         'print', 'put', 'inc', 'copy', 'set', 'aux', 'rear', 'raze', 'go', 'let', 'do',
         'bid', 'ready', 'start', 'stop', 'run', 'abort', 'use', 'flo', 'give', 'take']
COMPARISONS = ['==', '<', '<=', '>=', '>', '!=']
CONNECTIVES = ['to', 'by', 'with', 'from', 'per', 'for', 'cum', 'qua', 'via',
               'as', 'at', 'in', 'of', 'on', 're', 'is',
               'if', 'be', 'into', 'and', 'not', '+-']


def vocabulary():
    """(verbs, connectives, comparisons) from the tree under test, static lists as fallback."""
    try:
        from ioflo.base import building
        return list(building.VerbList), list(building.Connectives), list(building.Comparisons)
    except Exception:
        return list(VERBS), list(CONNECTIVES), list(COMPARISONS)


WORDS = ['me', 'main', 'all', 'any', 'aux', 'frame', 'framer', 'actor', 'root', 'done',
         'updated', 'changed', 'readied', 'started', 'running', 'stopped', 'aborted',
         'active', 'inactive', 'slave', 'moot', 'front', 'mid', 'back', 'mine', 'value',
         'elapsed', 'recurred', 'goal', 'first', 'last', 'once', 'never', 'always', 'update',
         'change', 'streak', 'deck', 'text', 'binary', 'flush', 'keep', 'cycle', 'size',
         'reuse', 'rx', 'tx', 'next', 'prev', 'state', 'inode']
FRAMERS = ['fa', 'fb', 'fc', 'fd', 'mo']
FRAMES = ['a', 'b', 'c', 'd', 'e', 'top']
SHARES = ['x', 'y', 'z', 's.t', 'goal.heading', '.abs.p', '.abs.q.r', 'meta.failure', 'counter',
          'limit', 'framer.me.state.elapsed', 'frame.me.v', 'actor.me.w', 'me.v', 'state.depth',
          'frame.main.lim', 'framer.main.cnt', 'framer.fa.state.recurred', 'elapsed', 'recurred']
NODES = ['n', 'n.m', '.top.n', 'me.n', 'n.', '.top.n.', 'framer.me.n', 'frame.me.n', 'mine', 'main']
FIELDS = ['value', 'f', 'g', 'lat', 'lon', 'depth']
NUMBERS = ['0', '1', '2', '3', '-1', '0.5', '2.5', '-0.25', '1e3', '1e-3', '0x10', 'ff', '1j', '2+3j',
           '10', '1.', '.5', '+4', '007', '1e400', '-0.0', '9' * 30]
LITERALS = NUMBERS + ['"hello world"', "'single q'", '""', 'True', 'false', 'YES', 'no', 'None', 'none',
                      '10n5e', '1.5x-2y', '1f2s3b', '1n2e3d', '3x4y5z', '1f2s', '120N10.5', '80W30.75',
                      'some.path', '.abs.path', 'a.b.', 'plain']
GARBAGE = ['.', '..', 'a..b', '.a.', 'a.', '_x', '9a', '%', '%s', '{0}', '{', '}', 'a%sb', '%(x)s',
           'été', '١٢', 'a' * 300, 'a' * 27 + '!', '=', '=>', '+', '-', '+-1', ':', 'host:port', ':5', 'a:b:c',
           '\\', 'a\\', '[', ']', '(', ')', ',', ';', '*', '&', '|', '~', '/', './x', '#', 'x#y', '@', '$',
           '0x', '1e', 'e5', '--1', '1..2', '1n', 'n1e', 'NaN', 'inf', '-inf', 'nan', '1_000', ' ', '\t',
           'a\tb', 'None.', 'True.x', 'me', 'me.', '.me', 'framer', 'framer.', 'framer.me', 'framer.x.frame',
           'frame', 'frame.me', 'actor', 'actor.me', 'framer.me.frame.me.actor', 'framer.me.frame.me.actor.me',
           'framer.main.x', 'frame.main.x', 'framer.x.frame.main.y', 'framer.x.actor.me.y']
DO_KINDS = [['doer'], ['doer', 'param'], ['doer', 'lapse'], ['doer', 'since'], ['deed'],
            ['controller', 'pid', 'depth'], ['controller', 'pid', 'speed'], ['simulator', 'motion', 'uuv'],
            ['arbiter', 'switch'], ['arbiter', 'priority'], ['detector', 'position', 'box'],
            ['estimator', 'position', 'nfl'], ['filter', 'windowed'], ['filter', 'sensor', 'heading'],
            ['simulator', 'sensor', 'gps'], ['simulator', 'gradient'], ['controller', 'base'],
            ['nosuch', 'kind'], ['doer', 'param', 'extra']]
CONTEXTS = ['native', 'benter', 'enter', 'recur', 'exit', 'precur', 'renter', 'rexit']
SAFE_LOADS = ['side.flo', 'side2.flo', 'missing.flo']

_CHUNKS = re.compile(r"""#.*|[^ "']+|"[^"]*"|'[^']*'""")   # FloScript's lexical rule (REO_Chunks)


def tokenize_text(text):
    """Script text -> list of token lists (backslash continuations joined, comments dropped)."""
    lines = []
    pending = []
    for raw in text.split("\n"):
        line = raw.rstrip()
        if line.endswith("\\"):
            pending.append(line.rstrip("\\").strip())
            continue
        pending.append(line)
        joined = " ".join(pending).strip()
        pending = []
        toks = []
        for chunk in _CHUNKS.findall(joined):
            if chunk[0] == '#':
                break
            toks.append(chunk)
        if toks:
            lines.append(toks)
    return lines


def render(lines):
    return "\n".join(" ".join(toks) for toks in lines) + "\n"


def sanitize(lines, rnd=None, allowed=SAFE_LOADS):
    """Confine every `load` operand to the private temp dir (see module docstring)."""
    for toks in lines:
        for i, t in enumerate(toks):
            if '\r' in t or '\n' in t:     # a token must never smuggle a line break into the file
                toks[i] = t.replace('\r', '').replace('\n', '')
        if toks and toks[0] == 'load' and len(toks) > 1 and toks[1] not in allowed:
            toks[1] = allowed[rnd.randrange(len(allowed))] if rnd is not None else allowed[0]
    lines[:] = [[t for t in toks if t != ''] for toks in lines]
    lines[:] = [toks for toks in lines if toks]
    return lines


def sanitize_side(lines):
    """Side files must not load anything (keeps load chains acyclic)."""
    return [toks for toks in lines if not (toks and toks[0] == 'load')]


# --------------------------------------------------------------------------------------
VALSHARES = ['x', 'y', 'z', 'counter', 'limit', 's.t', 'goal.heading', '.abs.p', 'meta.failure', 'state.depth']
FLDSHARES = ['pos', '.abs.q.r', 'nav.fix']           # multi field shares (fields from MFIELDS)
MFIELDS = ['f', 'g', 'lat', 'lon', 'depth']
RELSHARES = ['framer.me.state.elapsed', 'frame.me.v', 'actor.me.w', 'me.v', 'frame.main.lim',
             'framer.main.cnt', 'framer.fa.state.recurred']
REALS = ['0', '1', '2', '3', '-1', '0.5', '2.5', '-0.25', '1e3', '1e-3', '0x10', '10', '1.', '.5', '+4', '007']
GOODLITS = REALS + ['"hello world"', "'single q'", '""', 'True', 'false', 'YES', 'no', 'None',
                    '10n5e', '1.5x-2y', '1f2s3b', '1n2e3d', '3x4y5z', '1f2s', '120N10.5', '80W30.75',
                    'some.path', '.abs.path', 'plain', '1j', '2+3j']
GOODNODES = ['n', 'n.m', '.top.n', 'me.n', 'n.', '.top.n.', 'mine', 'main']
GOODKINDS = DO_KINDS[:17]


class NoRef(Exception):
    """no planned framer of the wanted schedule: the action is replaced by a print"""


class Gen(object):
    """Grammar-aware random FloScript generator.

    The program is planned first (framers with schedule and frame names), so references can
    point at things defined later. `loose` in [0, 1] scales the probability of every
    deliberately questionable choice (undefined / wrong-kind references, clause values outside
    their domain, garbage tokens); loose == 0 gives programs that mostly build True.
    """

    def __init__(self, rnd, loose=0.1):
        self.r = rnd
        self.loose = loose
        self.wf = min(1.0, loose * 4.0)
        self.plan = []         # [{'name', 'sched', 'frames'}]
        self.cur = None        # current planned framer
        self.curframe = None
        self.lines = []
        self.inited = []
        self.tags = 0

    # ---- primitive choices
    def ch(self, seq):
        return seq[self.r.randrange(len(seq))]

    def p(self, prob):
        return self.r.random() < prob

    def w(self, prob):
        """questionable choice: scaled by looseness"""
        return self.wf > 0 and self.r.random() < prob * self.wf

    def n(self, lo, hi):
        return self.r.randint(lo, hi)

    def by_sched(self, *scheds):
        return [f['name'] for f in self.plan if f['sched'] in scheds]

    def framer_ref(self, *scheds):
        pool = self.by_sched(*scheds) if scheds else [f['name'] for f in self.plan]
        if self.w(0.3):
            return self.ch(FRAMERS + ['me', 'zz'])
        if pool:
            return self.ch(pool)
        raise NoRef()

    def frame_ref(self, special=True):
        if special and self.p(0.2):
            return self.ch(['next', 'me']) if self.has_next() or self.w(0.5) else 'me'
        if self.cur and self.cur['frames'] and not self.w(0.3):
            return self.ch(self.cur['frames'])
        return self.ch(FRAMES + ['zz'])

    def has_next(self):
        return bool(self.cur) and self.curframe in self.cur['frames'][:-1]

    def number(self):
        return self.ch(NUMBERS + LITERALS) if self.w(0.3) else self.ch(REALS)

    def literal(self):
        if self.w(0.1):
            return self.ch(GARBAGE)
        return self.ch(LITERALS) if self.w(0.3) else self.ch(GOODLITS)

    def relation(self, allow=True):
        if not allow or self.p(0.55):
            return []
        if self.w(0.1):
            return ['of', self.ch(WORDS + FRAMES)]
        k = self.n(0, 3)
        if k == 0:
            return ['of', self.ch(['root', 'me'])]
        if k == 1:
            out = ['of', 'framer'] + ([self.ch([self.framer_ref(), 'me'])] if self.p(0.5) else [])
            return out + (['of', 'frame'] if self.w(0.1) else [])
        if k == 2:
            out = ['of', 'frame'] + ([self.ch([self.frame_ref(False), 'me'])] if self.p(0.6) else [])
            if self.p(0.3):
                out += ['of', 'framer'] + ([self.ch([self.framer_ref(), 'me'])] if self.p(0.6) else [])
            return out
        out = ['of', 'actor'] + ([self.ch(['me', 'doerParam', 'x'])] if self.p(0.5) else [])
        if self.p(0.3):
            out += ['of', 'frame'] + ([self.frame_ref(False)] if self.p(0.5) else [])
        return out

    def vshare(self):
        """[fields in] path [relation] addressing a single-value share"""
        if self.w(0.08):
            return self.fields_any() + [self.ch(GARBAGE + NODES + SHARES)] + self.relation()
        if self.p(0.15):
            s = self.ch(RELSHARES if (self.cur and self.cur['sched'] in ('aux', 'moot')) or self.w(0.5) else RELSHARES[:4])
            return [s] + (self.relation() if self.w(0.2) else [])
        pre = ['value', 'in'] if self.p(0.1) else []
        s = self.ch(VALSHARES)
        return pre + [s] + self.relation(not s.startswith('.'))

    def fshare(self, k=None):
        """fields in path addressing a multi-field share; returns (tokens, nfields)"""
        k = k or self.n(1, 3)
        flds = list(MFIELDS)
        self.r.shuffle(flds)
        flds = flds[:k]
        s = self.ch(FLDSHARES)
        return flds + ['in', s] + self.relation(not s.startswith('.')), k

    def fields_any(self):
        if self.p(0.6):
            return []
        return [self.ch(FIELDS) for _ in range(self.n(1, 3))] + ['in']

    def indirect1(self):
        """an indirect with at most one field"""
        if self.p(0.8):
            return self.vshare()
        return self.fshare(1)[0]

    def node(self):
        if self.w(0.15):
            return [self.ch(NODES + SHARES + GARBAGE)] + self.relation()
        return [self.ch(GOODNODES)]

    def direct1(self):
        return ([] if self.p(0.8) else ['value']) + [self.literal()]

    def directn(self, k):
        flds = list(MFIELDS)
        self.r.shuffle(flds)
        out = []
        for f in flds[:k]:
            out += [f if not self.w(0.05) else self.ch(GARBAGE + ['value']), self.literal()]
        return out

    def direct(self):
        return self.direct1() if self.p(0.6) else self.directn(self.n(1, 3))

    def transfer(self, verb, conn_data, conn_src, data_first=False, numeric=False):
        """put/inc/set/init style command bodies with matching field counts"""
        if self.p(0.65):     # single value
            dst = self.vshare()
            lit = [self.number()] if numeric else self.direct1()
            src = self.vshare()
        else:
            dst, k = self.fshare()
            lit = self.directn(k)
            if numeric:
                lit = [t if i % 2 == 0 else self.number() for i, t in enumerate(lit)]
            src = self.fshare(k)[0]
        if self.w(0.1):
            dst, lit, src = self.ch([(self.vshare(), self.directn(2), self.fshare()[0]),
                                     (self.fshare()[0], self.direct1(), self.vshare())])
        if data_first:       # put data into dst / copy src into dst
            return [verb] + (lit if conn_data else src) + ['into'] + dst
        if conn_src and (not conn_data or self.p(0.3)):
            return [verb] + dst + [conn_src] + src
        return [verb] + dst + [conn_data] + lit

    # ---- needs
    def need(self):
        neg = ['not'] if self.p(0.15) else []
        k = self.n(0, 12)
        if self.w(0.06):
            return neg + [self.ch(WORDS + GARBAGE), self.ch(CONNECTIVES + COMPARISONS), self.literal()]
        if k <= 2:     # basic need
            out = self.indirect1()
            if self.p(0.85):
                out += [self.ch(COMPARISONS)]
                out += [self.ch(GOODLITS[:24]) if not self.w(0.2) else self.literal()] if self.p(0.65) else self.indirect1()
                if self.p(0.25):
                    out += ['+-', self.number()]
        elif k == 3:   # framer state need
            out = [self.ch(['elapsed', 'recurred'])]
            if self.p(0.4):
                out += ['re'] + ([self.ch(['me', self.cur['name'] if self.cur else 'me'])] if self.p(0.6) else [])
            out += [self.ch(COMPARISONS), self.ch(['goal', self.number(), self.number()])]
            if self.p(0.2):
                out += ['+-', self.number()]
        elif k == 4:
            out = [self.ch(['elapsed', 'recurred'] + (['foo'] if self.w(0.3) else [])), 're', self.ch(COMPARISONS)] + self.indirect1()
        elif k == 5:   # status
            out = [self.framer_ref(), 'is', self.ch(['readied', 'started', 'running', 'stopped', 'aborted'])]
        elif k == 6:   # done
            out = [self.framer_ref('aux', 'slave'), 'is', 'done']
        elif k in (7, 8):   # aux done
            out = list(self.ch([['aux', self.framer_ref('aux')], ['any'], ['all'], [self.framer_ref('aux')]]))
            plain = len(out) == 1 and out[0] not in ('any', 'all')
            if self.p(0.5) or plain:
                out += ['in', 'frame'] + ([self.frame_ref()] if self.p(0.6) else [])
            if self.p(0.3):
                out += ['in', 'framer'] + ([self.ch(['me', self.cur['name'] if self.cur else 'me', self.framer_ref()])] if self.p(0.6) else [])
            out += ['is', 'done']
        elif k in (9, 10):  # marker
            out = self.vshare()
            if out[:2] == ['value', 'in']:
                out = out[2:]
            out += ['is', self.ch(['updated', 'changed'])]
            if self.p(0.5):
                out += ['in', 'frame'] + ([self.frame_ref(False)] if self.p(0.6) else [])
            if self.p(0.4):
                out += ['by', self.ch(['m1', '"mark two"', 'm2'])]
        elif k == 11:  # boolean
            out = self.indirect1()
        else:
            out = [self.framer_ref(), 'is', self.ch(['running', 'done'] if not self.w(0.5) else WORDS)]
        return neg + out

    def needs(self):
        out = self.need()
        for _ in range(self.n(1, 2) if self.p(0.3) else 0):
            out += ['and'] + self.need()
        return out

    # ---- commands
    def action(self):
        try:
            return self._action()
        except NoRef:
            return ['print', 'noref']

    def _action(self):
        k = self.n(0, 30)
        if k == 0:
            return ['print'] + [self.ch(['hello', 'world', '"quoted text"', '1']) for _ in range(self.n(0, 3))]
        if k in (1, 2):
            return self.transfer('put', 'into', None, data_first=True)
        if k == 3:
            return self.transfer('inc', 'with', 'from', numeric=True)
        if k == 4:
            return self.transfer('copy', None, 'into', data_first=True)
        if k in (5, 6):
            if self.p(0.3):
                conn = self.ch(['with', 'to', 'by', 'from'])
                return ['set', self.ch(['elapsed', 'recurred']), conn] + \
                    ([self.number()] if conn in ('with', 'to') else self.vshare())
            return self.transfer('set', 'with', 'from')
        if k in (7, 8, 9):
            return ['go', self.frame_ref()] + (['if'] + self.needs() if self.p(0.7) else [])
        if k == 10:
            return ['let'] + (['me'] if self.p(0.3) else []) + ['if'] + self.needs()
        if k in (11, 12, 13):
            out = ['do'] + list(self.ch(DO_KINDS if self.w(0.3) else GOODKINDS))
            clauses = []
            if self.p(0.3):
                clauses.append(['as', self.ch(['my', 'big', 'x']), self.ch(['name', 'one', 'y'])][:self.n(2, 3)])
            if self.p(0.3):
                clauses.append(['at', self.ch(CONTEXTS + (['transit'] if self.w(0.3) else []))])
            if self.p(0.3):
                clauses.append(['via'] + self.node())
            if self.p(0.25):
                clauses.append(['with'] + self.direct())
            if self.p(0.2):
                clauses.append(['per'] + (self.direct() if self.w(0.3) else [self.ch(MFIELDS), self.ch(['shape.oval', 'me.big', '"a.b"', 'round', '.abs.x'])]))
            if self.w(0.3):
                clauses.append(['cum'] + self.direct())
            if self.p(0.15):
                clauses.append(['from'] + self.fshare()[0])
            if self.p(0.1):
                clauses.append(['for'] + self.fshare()[0])
            if self.w(0.2):
                clauses.append(['qua'] + self.fshare()[0])
            self.r.shuffle(clauses)
            for c in clauses:
                out += c
            return out
        if k in (14, 15):
            out = ['bid', self.ch(['start', 'run', 'stop', 'abort', 'ready'])]
            out += [self.ch([self.framer_ref('active', 'inactive'), 'me', 'all']) for _ in range(self.n(0, 2))]
            if self.p(0.4):
                out += ['at'] + ([self.number()] if self.p(0.6) else self.indirect1())
            return out
        if k == 16:
            return [self.ch(['ready', 'start', 'stop', 'run', 'abort']), self.framer_ref('slave')]
        if k == 17:
            return ['done'] + [self.ch([self.framer_ref('aux', 'slave'), 'me']) for _ in range(self.n(0, 2))]
        if k in (18, 19) and not (self.has_next() or self.w(0.5)):
            return ['print', 'last']
        if k == 18:
            return ['timeout', self.number()]
        if k == 19:
            return ['repeat', self.number()]
        if k in (20, 21, 22):
            kind = self.n(0, 2)
            if kind == 0:
                return ['aux', self.framer_ref('aux')]
            if kind == 1:
                return ['aux', self.framer_ref('aux'), 'if'] + self.needs()
            self.tags += 1
            out = ['aux', self.framer_ref('moot'), 'as',
                   self.ch(['mine', 'cl%d' % self.tags] + (['cl1', self.framer_ref()] if self.w(0.5) else []))]
            if self.p(0.3):
                out += ['via'] + self.node()
            if self.w(0.2):
                out += ['if'] + self.needs()
            return out
        if k == 23:
            out = ['rear', self.framer_ref('moot')]
            if self.p(0.3):
                out += ['as', self.ch(['mine'] + (['cl3'] if self.w(0.5) else []))]
            if self.p(0.3):
                out += ['be', self.ch(['aux'] + (['slave', 'active', 'moot'] if self.w(0.5) else []))]
            if not self.w(0.2):
                out += ['in', 'frame'] + ([self.frame_ref(False)] if not self.w(0.2) else [])
            return out
        if k == 24:
            out = ['raze', self.ch(['all', 'first', 'last'] + (['some'] if self.w(0.3) else []))]
            if self.p(0.5):
                out += ['in', 'frame'] + ([self.frame_ref()] if self.p(0.7) else [])
            return out
        if k == 25:
            return [self.ch(CONTEXTS)]
        if k == 26:
            if self.p(0.3):
                return ['next'] + ([self.frame_ref(False)] if self.p(0.8) else [])
            return [self.ch(['over', 'under']), self.frame_ref(False)] if self.w(0.5) else ['print', 'struct']
        if k == 27:
            return [self.ch(['use', 'flo', 'give', 'take'])] + [self.literal() for _ in range(self.n(0, 2))]
        if k == 28:
            return self.init_line()
        if k == 29 and self.w(0.5):
            return ['first', self.frame_ref(False)]
        return ['print', 'hello']

    def init_line(self):
        if self.inited and self.p(0.2):
            src = self.ch(self.inited)
            return ['init', self.ch(VALSHARES[:8]) if len(src) == 1 else self.ch(FLDSHARES[:2]), 'from'] + src
        if self.w(0.1):
            return ['init'] + self.fields_any() + [self.ch(SHARES)] + [self.ch(['with', 'from', 'to'])] + self.direct()
        if self.p(0.7):
            s = self.ch(VALSHARES[:8])
            self.inited.append([s])
            return ['init', s, 'with'] + self.direct1()
        k = self.n(1, 3)
        s = self.ch(FLDSHARES[:2])
        d = self.directn(k)
        self.inited.append(d[0::2] + ['in', s])
        return ['init', s, 'with'] + d

    def framer_line(self, f):
        out = ['framer', f['name']]
        clauses = [['be', f['sched']]] if f['sched'] != 'inactive' or self.p(0.5) else []
        if self.p(0.3):
            clauses.append(['at', self.number()])
        if self.p(0.3) and f['frames']:
            clauses.append(['first', self.ch(f['frames']) if not self.w(0.2) else self.ch(FRAMES + ['zz'])])
        if self.p(0.15):
            clauses.append(['in', self.ch(['front', 'mid', 'back'] + (['side'] if self.w(0.5) else []))])
        if self.p(0.2):
            clauses.append(['via'] + self.node())
        self.r.shuffle(clauses)
        for c in clauses:
            out += c
        return out

    def frame_line(self, name, earlier):
        out = ['frame', name]
        if earlier and self.p(0.45):
            out += ['in', self.ch(earlier) if not self.w(0.3) else self.ch(self.cur['frames'] + ['zz'])]
        if self.p(0.15):
            out += ['via'] + self.node()
        return out

    def logger_block(self):
        out = []
        line = ['logger', self.ch(['lg', 'lg2'] + (['fa'] if self.w(0.3) else []))]
        clauses = [['to', self.ch(['logs', './logs', 'l/m'])], ['at', self.number()],
                   ['be', self.ch(['active', 'inactive', 'slave'] + (['aux'] if self.w(0.3) else []))],
                   ['in', self.ch(['front', 'mid', 'back'])],
                   ['flush', self.number()], ['keep', self.number()], ['cycle', self.number()],
                   ['size', self.number()], ['reuse']]
        self.r.shuffle(clauses)
        for c in clauses[:self.n(0, 4)]:
            line += c
        out.append(line)
        nlog = 0
        for _ in range(self.n(0, 2)):
            nlog += 1
            rule = self.ch(['once', 'never', 'always', 'update', 'change', 'streak', 'deck', 'Update'] + (['bad'] if self.w(0.3) else []))
            line = ['log', 'l%d' % nlog if not self.w(0.2) else 'l1']
            clauses = [['to', 'file%d' % nlog if not self.w(0.2) else 'file1'],
                       ['as', self.ch(['text', 'binary'] + (['xml'] if self.w(0.3) else []))], ['on', rule]]
            self.r.shuffle(clauses)
            for c in clauses[:self.n(0, 3)]:
                line += c
            out.append(line)
            for i in range(self.n(0, 2)):
                line = ['loggee']
                for j in range(self.n(1, 2)):
                    if self.p(0.6):
                        line += [self.ch(VALSHARES)]
                    else:
                        flds = list(MFIELDS)
                        self.r.shuffle(flds)
                        line += flds[:self.n(1, 3)] + ['in', self.ch(FLDSHARES)]   # loggee paths take no relation
                    if self.p(0.6):
                        line += ['as', 't%d%d%d' % (nlog, i, j) if not self.w(0.3) else self.ch(['t1', '"tag three"', 'as'])]
                out.append(line)
        return out

    def server_line(self):
        line = ['server', self.ch(['sv', 'sv2'] + (['fa'] if self.w(0.3) else []))]
        clauses = [['to', self.ch(['logs', './logs'])], ['at', self.number()],
                   ['be', self.ch(['active', 'inactive', 'slave'] + (['aux'] if self.w(0.3) else []))],
                   ['in', self.ch(['front', 'mid', 'back'])],
                   ['rx', self.ch([':55551', 'localhost:55552', 'localhost'] + ([':', 'h:', ':x', 'a:1:2'] if self.w(0.5) else []))],
                   ['tx', self.ch([':55553', 'localhost:55554'] + ([':y'] if self.w(0.5) else []))]]
        if self.w(0.5):
            clauses += [['per'] + self.direct(), ['for'] + self.fields_any() + [self.ch(SHARES[:10])]]
        if self.inited and self.p(0.5):
            clauses.append(['for'] + self.ch(self.inited))
        self.r.shuffle(clauses)
        for c in clauses[:self.n(0, 4)]:
            line += c
        return line

    def make_plan(self, nframers=None):
        nframers = nframers or self.n(1, 5)
        names = list(FRAMERS)
        self.r.shuffle(names)
        scheds = ['aux', 'moot', 'slave', 'inactive']
        self.r.shuffle(scheds)
        for i in range(nframers):
            sched = 'active' if i == 0 and self.p(0.85) else \
                (scheds[i - 1] if self.p(0.7) else self.ch(['active', 'inactive', 'aux', 'aux', 'slave', 'moot', 'moot']))
            fnames = list(FRAMES)
            self.r.shuffle(fnames)
            name = names[i] if not self.w(0.15) else self.ch(FRAMERS)
            frames = fnames[:self.n(1, 4)]
            if self.w(0.15):
                frames.append(self.ch(frames))
            self.plan.append({'name': name, 'sched': sched, 'frames': frames})

    def program(self, nframers=None):
        L = self.lines
        self.make_plan(nframers)
        L.append(['house', self.ch(['h1', 'h2', 'home'])])
        for _ in range(self.n(0, 3)):
            L.append(self.init_line())
        if self.p(0.15):
            L.extend(self.logger_block())
        if self.p(0.1):
            L.append(self.server_line())
        for f in self.plan:
            self.cur = f
            L.append(self.framer_line(f))
            if self.w(0.2):
                L.append(['first', self.ch(FRAMES)])
            for j, fr in enumerate(f['frames']):
                self.curframe = fr
                L.append(self.frame_line(fr, f['frames'][:j]))
                for _ in range(self.n(0, 4)):
                    L.append(self.action())
            if self.p(0.08):
                L.append(['load', self.ch(SAFE_LOADS[:2]) if not self.w(0.5) else 'missing.flo'])
        if self.p(0.1):
            L.extend(self.logger_block())
        if self.w(0.1):
            L.append(['house', self.ch(['h1', 'h2'])])
            L.append(['framer', self.ch(FRAMERS)])
            L.append(['frame', self.ch(FRAMES)])
        return L


def gen_program(rnd, loose=0.1):
    g = Gen(rnd, loose)
    return g.program()


def gen_side(rnd):
    """A side file for `load`: frames/actions continuing the current framer (no load)."""
    g = Gen(rnd, 0.1)
    g.make_plan(1)
    g.cur = g.plan[0]
    g.cur['name'] = 'sd'
    out = []
    if g.p(0.5):
        out.append(g.framer_line(g.cur))
    for j, fr in enumerate(g.cur['frames']):
        out.append(['frame', 's' + fr])
        for _ in range(g.n(0, 3)):
            out.append(g.action())
    return sanitize_side(out)


# --------------------------------------------------------------------------------------
def random_token(rnd, verbs, conns, comps):
    k = rnd.randrange(10)
    if k == 0:
        return verbs[rnd.randrange(len(verbs))]
    if k in (1, 2):
        return conns[rnd.randrange(len(conns))]
    if k == 3:
        return comps[rnd.randrange(len(comps))]
    if k == 4:
        return NUMBERS[rnd.randrange(len(NUMBERS))]
    if k == 5:
        return LITERALS[rnd.randrange(len(LITERALS))]
    if k == 6:
        return GARBAGE[rnd.randrange(len(GARBAGE))]
    if k == 7:
        return WORDS[rnd.randrange(len(WORDS))]
    if k == 8:
        pool = FRAMERS + FRAMES
        return pool[rnd.randrange(len(pool))]
    pool = SHARES + NODES + FIELDS
    return pool[rnd.randrange(len(pool))]


MUTATIONS = ['del', 'dup', 'swap', 'reserved', 'number', 'quoted', 'garbage', 'any', 'insert',
             'delline', 'dupline', 'swapline', 'moveline', 'join', 'split', 'name', 'verb']


def mutate(lines, rnd, k, vocab=None):
    """Apply k random token-level mutations in place; returns the list of mutation kinds."""
    verbs, conns, comps = vocab or (VERBS, CONNECTIVES, COMPARISONS)
    kinds = []
    for _ in range(k):
        if not lines:
            break
        kind = MUTATIONS[rnd.randrange(len(MUTATIONS))]
        li = rnd.randrange(len(lines))
        toks = lines[li]
        ti = rnd.randrange(len(toks)) if toks else 0
        if kind == 'del' and toks:
            del toks[ti]
            if not toks:
                del lines[li]
        elif kind == 'dup' and toks:
            toks.insert(ti, toks[ti])
        elif kind == 'swap' and len(toks) > 1:
            tj = min(ti + 1, len(toks) - 1)
            toks[ti], toks[tj] = toks[tj], toks[ti]
        elif kind == 'reserved' and toks:
            pool = conns + comps
            toks[ti] = pool[rnd.randrange(len(pool))]
        elif kind == 'number' and toks:
            toks[ti] = NUMBERS[rnd.randrange(len(NUMBERS))]
        elif kind == 'quoted' and toks:
            toks[ti] = ['"q s"', "'q'", '""', '"in"', '"%s"', '"a.b"'][rnd.randrange(6)]
        elif kind == 'garbage' and toks:
            toks[ti] = GARBAGE[rnd.randrange(len(GARBAGE))]
        elif kind == 'any' and toks:
            toks[ti] = random_token(rnd, verbs, conns, comps)
        elif kind == 'insert':
            toks.insert(ti, random_token(rnd, verbs, conns, comps))
        elif kind == 'delline':
            del lines[li]
        elif kind == 'dupline':
            lines.insert(li, list(toks))
        elif kind == 'swapline' and len(lines) > 1:
            lj = rnd.randrange(len(lines))
            lines[li], lines[lj] = lines[lj], lines[li]
        elif kind == 'moveline' and len(lines) > 1:
            t = lines.pop(li)
            lines.insert(rnd.randrange(len(lines) + 1), t)
        elif kind == 'join' and li + 1 < len(lines):
            lines[li] = toks + lines.pop(li + 1)
        elif kind == 'split' and len(toks) > 1 and ti > 0:
            lines[li] = toks[:ti]
            lines.insert(li + 1, toks[ti:])
        elif kind == 'name' and toks:
            pool = FRAMERS + FRAMES
            toks[ti] = pool[rnd.randrange(len(pool))]
        elif kind == 'verb' and toks:
            toks[0] = verbs[rnd.randrange(len(verbs))]
        else:
            continue
        kinds.append(kind)
    # drop empty tokens / lines produced by mutations
    lines[:] = [[t for t in toks if t != ''] for toks in lines]
    lines[:] = [toks for toks in lines if toks]
    return kinds


def gen_soup(rnd, vocab=None):
    """Token soup: a valid skeleton (so that verbs reach their parse code) + lines of random
    tokens that start with a verb."""
    verbs, conns, comps = vocab or (VERBS, CONNECTIVES, COMPARISONS)
    lines = []
    if rnd.random() < 0.9:
        lines += [['house', 'h1'], ['framer', 'fa', 'be', 'active'], ['frame', 'a']]
    for _ in range(rnd.randint(1, 8)):
        n = rnd.randint(0, 8)
        line = [verbs[rnd.randrange(len(verbs))]] if rnd.random() < 0.9 else []
        for _ in range(n):
            line.append(random_token(rnd, verbs, conns, comps))
        if line:
            lines.append(line)
    return lines


# --------------------------------------------------------------------------------------
def gen_adversarial(rnd):
    """Scripts built around cyclic / dangling / duplicate references."""
    g = Gen(rnd, 0.3)
    L = [['house', 'h1']]
    k = rnd.randrange(20)
    if k == 15:
        k = 14
    if k == 17:
        k = 16
    if k == 19:
        k = 18
    names = list(FRAMES)
    rnd.shuffle(names)
    n = rnd.randint(2, 5)
    names = names[:n]
    if k == 0:      # `in` relation: a random functional graph (cycles, self loops, dangling)
        L.append(['framer', 'fa', 'be', 'active'])
        for nm in names:
            line = ['frame', nm]
            if rnd.random() < 0.85:
                line += ['in', g.ch(names + ['zz'])]
            L.append(line)
    elif k == 1:    # over / under commands
        L.append(['framer', 'fa', 'be', 'active'])
        for nm in names:
            L.append(['frame', nm])
            for _ in range(rnd.randint(0, 2)):
                L.append([g.ch(['over', 'under']), g.ch(names + ['zz'])])
    elif k == 2:    # mix of in / over / under / next / first
        L.append(['framer', 'fa', 'be', 'active', 'first', g.ch(names + ['zz'])])
        for nm in names:
            line = ['frame', nm]
            if rnd.random() < 0.5:
                line += ['in', g.ch(names)]
            L.append(line)
            for _ in range(rnd.randint(0, 3)):
                v = g.ch(['over', 'under', 'next', 'first', 'go'])
                L.append([v, g.ch(names + ['zz', 'next', 'me'])])
    elif k == 3:    # aux graphs between framers (self, cyclic, dangling, wrong schedule)
        fr = FRAMERS[:rnd.randint(2, 4)]
        for f in fr:
            L.append(['framer', f, 'be', g.ch(['active', 'aux', 'aux', 'slave', 'moot', 'inactive'])])
            L.append(['frame', g.ch(names)])
            for _ in range(rnd.randint(0, 2)):
                line = ['aux', g.ch(fr + ['zz'])]
                if rnd.random() < 0.3:
                    line += ['if', 'x', '==', '1']
                L.append(line)
    elif k == 4:    # clone graphs (moot cloning itself / each other / dangling / duplicate tags)
        fr = FRAMERS[:rnd.randint(2, 4)]
        for f in fr:
            L.append(['framer', f, 'be', g.ch(['active', 'moot', 'moot', 'aux'])])
            L.append(['frame', g.ch(names)])
            for _ in range(rnd.randint(0, 2)):
                line = ['aux', g.ch(fr + ['zz']), 'as', g.ch(['mine', 'c1', 'c2', 'c1'] + fr)]
                if rnd.random() < 0.3:
                    line += ['via', g.ch(NODES)]
                L.append(line)
            if rnd.random() < 0.3:
                L.append(['rear', g.ch(fr + ['zz']), 'in', 'frame', g.ch(names + ['zz'])])
            if rnd.random() < 0.2:
                L.append(['raze', g.ch(['all', 'first', 'last']), 'in', 'frame', g.ch(names + ['zz'])])
    elif k == 5:    # duplicate names: houses, framers, frames, loggers, logs, servers
        L.append(['framer', 'fa', 'be', 'active'])
        L.append(['frame', 'a'])
        dup = g.ch(['house', 'framer', 'frame', 'logger', 'log', 'server', 'mixed'])
        if dup == 'house':
            L.append(['house', 'h1'])
        elif dup == 'framer':
            L += [['framer', 'fa'], ['frame', 'a']]
        elif dup == 'frame':
            L += [['frame', 'a']]
        elif dup == 'logger':
            L += [['logger', 'lg'], ['logger', 'lg']]
        elif dup == 'log':
            L += [['logger', 'lg'], ['log', 'l1'], ['loggee', 'x'], ['log', 'l1'], ['loggee', 'x', 'x']]
        elif dup == 'server':
            L += [['server', 'sv'], ['server', 'sv']]
        else:
            L += [[g.ch(['logger', 'server']), 'fa'], ['framer', g.ch(['lg', 'sv', 'fa'])], ['frame', 'a'],
                  [g.ch(['logger', 'server']), 'lg']]
    elif k == 6:    # taskers of the wrong kind referenced as framers / auxes / done / status
        L += [['logger', 'lg'], ['server', 'sv'], ['framer', 'fa', 'be', 'active'], ['frame', 'a']]
        for _ in range(rnd.randint(1, 3)):
            t = g.ch(['lg', 'sv', 'fa', 'zz', 'me'])
            L.append(g.ch([['aux', t], ['aux', t, 'as', 'c1'], ['aux', t, 'if', 'x'], ['done', t], ['bid', 'stop', t],
                           ['start', t], ['ready', t], ['go', 'next', 'if', t, 'is', 'done'],
                           ['go', 'next', 'if', t, 'is', 'running'], ['go', 'next', 'if', 'aux', t, 'is', 'done'],
                           ['rear', t, 'in', 'frame', 'a'], ['go', 'next', 'if', 'any', 'in', 'framer', t, 'is', 'done'],
                           ['put', '1', 'into', 'x', 'of', 'framer', t],
                           ['go', 'next', 'if', 'all', 'in', 'frame', 'zz', 'in', 'framer', t, 'is', 'done']]))
    elif k == 7:    # dangling targets everywhere
        L += [['framer', 'fa', 'be', 'active'], ['frame', 'a']]
        for _ in range(rnd.randint(1, 4)):
            L.append(g.ch([['go', 'zz'], ['go', 'next'], ['timeout', '1'], ['repeat', '2'], ['next', 'zz'], ['next'],
                           ['over', 'zz'], ['under', 'zz'], ['first', 'zz'], ['aux', 'zz'], ['bid', 'start', 'zz'],
                           ['done', 'zz'], ['stop', 'zz'], ['rear', 'zz', 'in', 'frame', 'zz'],
                           ['raze', 'all', 'in', 'frame', 'zz'], ['go', 'a', 'if', 'x', 'is', 'updated', 'in', 'frame', 'zz'],
                           ['go', 'a', 'if', 'x', 'of', 'frame', 'zz', '==', '1'],
                           ['go', 'a', 'if', 'x', 'of', 'framer', 'zz', '==', '1'],
                           ['put', '1', 'into', 'x', 'of', 'frame', 'main'], ['put', '1', 'into', 'x', 'of', 'framer', 'main'],
                           ['go', 'a', 'if', 'zz', 'is', 'done'], ['go', 'a', 'if', 'aux', 'zz', 'is', 'done'],
                           ['go', 'a', 'if', 'all', 'in', 'frame', 'zz', 'is', 'done']]))
    elif k == 8:    # framer without frames / first pointing elsewhere / empty house
        L += g.ch([[['framer', 'fa', 'be', 'active']],
                   [['framer', 'fa', 'be', 'active', 'first', 'zz'], ['frame', 'a']],
                   [['framer', 'fa', 'be', 'active'], ['framer', 'fb', 'be', 'aux'], ['frame', 'a'], ['aux', 'fa']],
                   [],
                   [['framer', 'fa', 'be', 'moot'], ['frame', 'a']],
                   [['framer', 'fa', 'be', 'aux']]])
    elif k == 9:    # long chains / wide unders
        L.append(['framer', 'fa', 'be', 'active'])
        m = rnd.randint(5, 40)
        for i in range(m):
            line = ['frame', 'n%d' % i]
            if i and rnd.random() < 0.9:
                line += ['in', 'n%d' % (i - 1 if rnd.random() < 0.7 else rnd.randrange(m))]
            L.append(line)
    elif k == 10:   # clone chains: moot framers that each clone the next (and maybe back)
        m = rnd.randint(2, 4)
        L += [['framer', 'fa', 'be', 'active'], ['frame', 'a'], ['aux', 'm0', 'as', g.ch(['mine', 'c0'])]]
        for i in range(m):
            L += [['framer', 'm%d' % i, 'be', 'moot'], ['frame', 'a']]
            tgt = i + 1 if rnd.random() < 0.7 else rnd.randrange(m + 1)
            L.append(['aux', 'm%d' % tgt, 'as', g.ch(['mine', 'c%d' % i])])
    elif k == 11:   # lexically valid but structurally odd relative paths in every path position
        odd = ['framer', 'frame', 'actor', 'me', 'framer.me', 'framer.zz', 'framer.main', 'framer.me.frame',
               'framer.me.frame.me', 'framer.me.frame.zz.x', 'framer.me.frame.me.actor', 'framer.me.frame.me.actor.me',
               'framer.me.frame.me.actor.me.x', 'framer.main.x', 'framer.main.frame.main.x', 'frame.main.x',
               'frame.zz.x', 'frame.me', 'actor.me', 'actor.me.x', 'actor.zz.x', 'me.x', 'me.me', 'framer.me.actor.me.x',
               'framer.fa.frame.a.x', 'framer.fb.frame.a.x', 'framer.me.state', 'framer.me.state.elapsed',
               'framer.me.goal', 'x.', 'framer.', 'frame.', 'actor.', 'me.', 'framer.me.', 'framer.me.frame.', 'mine', 'main']
        rel = [[], [], ['of', 'me'], ['of', 'framer'], ['of', 'frame'], ['of', 'actor'], ['of', 'frame', 'main'],
               ['of', 'framer', 'main'], ['of', 'actor', 'me', 'of', 'frame', 'main'], ['of', 'frame', 'zz'],
               ['of', 'framer', 'zz'], ['of', 'frame', 'a', 'of', 'framer', 'fb'], ['of', 'root']]
        sched = g.ch(['active', 'aux', 'moot', 'slave'])
        L += [['framer', 'fa', 'be', 'active'], ['frame', 'a']]
        if sched != 'active':
            L += [['aux', 'fb'] if sched == 'aux' else (['aux', 'fb', 'as', g.ch(['mine', 'cl'])] if sched == 'moot' else ['start', 'fb'])]
            L += [['framer', 'fb', 'be', sched] + (['via', g.ch(odd)] if rnd.random() < 0.3 else []),
                  ['frame', 'a'] + (['via', g.ch(odd)] if rnd.random() < 0.3 else [])]
        for _ in range(rnd.randint(1, 3)):
            pth = [g.ch(odd)] + g.ch(rel)
            L.append(g.ch([['put', '1', 'into'] + pth, ['put', 'f', '1', 'g', '2', 'into'] + pth, ['copy'] + pth + ['into', 'x'],
                           ['copy', 'x', 'into'] + pth, ['inc'] + pth + ['with', '1'], ['inc', 'x', 'from'] + pth,
                           ['set'] + pth + ['with', '1'], ['set', 'x', 'from'] + pth, ['go', 'a', 'if'] + pth,
                           ['go', 'a', 'if'] + pth + ['==', '1'], ['go', 'a', 'if', 'x', '=='] + pth,
                           ['go', 'a', 'if', 'f', 'in'] + pth + ['==', 'g', 'in'] + pth,
                           ['go', 'a', 'if'] + pth + ['is', 'updated'], ['go', 'a', 'if'] + pth + ['is', 'changed', 'in', 'frame', 'a'],
                           ['go', 'a', 'if', 'elapsed', '>='] + pth, ['bid', 'start', 'fa', 'at'] + pth,
                           ['do', 'doer', 'param', 'via'] + pth, ['do', 'doer', 'param', 'from'] + pth,
                           ['do', 'doer', 'param', 'for'] + pth, ['do', 'doer', 'param', 'qua'] + pth,
                           ['do', 'doer', 'param', 'per', 'f', pth[0]], ['do', 'controller', 'pid', 'depth', 'via'] + pth,
                           ['do', 'doer', 'param', 'via', 'n', 'per', 'f', pth[0], 'for', 'g', 'in'] + pth,
                           ['aux', 'fb', 'via'] + pth, ['let', 'if'] + pth, ['set', 'elapsed', 'from'] + pth,
                           ['aux', 'fb', 'if'] + pth, ['loggee'] + pth]))
    elif k == 14:   # aux command shapes around its guards: original / clone / dangling target x as x via x 0..3 needs
        simple = [['x'], ['x', '==', '1'], ['elapsed', '>=', '1'], ['not', 'y'], ['.ready'], ['.armed', '>', '2'],
                  ['x', 'of', 'framer'], ['recurred', '>=', '2']]
        L += [['framer', 'fa', 'be', 'active'], ['frame', 'a']]
        for _ in range(rnd.randint(1, 2)):
            line = ['aux', g.ch(['mo', 'mo', 'fb', 'zz'])]
            if rnd.random() < 0.7:
                line += ['as', g.ch(['mine', 'c1', 'c2'])]
            if rnd.random() < 0.3:
                line += ['via', g.ch(NODES)]
            m = g.ch([0, 1, 1, 2, 2, 3])
            if m:
                line += ['if']
                for i in range(m):
                    try:
                        nd = list(g.ch(simple)) if rnd.random() < 0.75 else g.need()
                    except NoRef:
                        nd = ['x']
                    line += (['and'] if i else []) + nd
            L.append(line)
        L += [['go', 'next'], ['frame', 'b'], ['print', 'hi'],
              ['framer', 'fb', 'be', 'aux'], ['frame', 'a'], ['done'],
              ['framer', 'mo', 'be', 'moot'], ['frame', 'a'], ['done']]
    elif k == 16:   # init ... from ...: source / destination field lists of every shape (missing source fields,
        # different names, different counts, value share vs field share, dangling source share)
        flds = ['x', 'y', 'z', 'value']
        srcs = ['.a', '.b.c', 'zz.q']
        L.append(['init', '.a', 'with'] + g.ch([['x', '1'], ['x', '1', 'y', '2'], ['5'], ['value', '3', 'z', '"s"']]))
        if rnd.random() < 0.7:
            L.append(['init', '.b.c', 'with'] + g.ch([['5'], ['y', '2'], ['x', '1', 'z', '0']]))
        for _ in range(rnd.randint(1, 3)):
            line = ['init']
            if rnd.random() < 0.6:
                line += [g.ch(flds) for _ in range(rnd.randint(1, 2))] + ['in']
            line += [g.ch(['.b.c', '.d', '.a', 'rel.e'])]
            line += ['from']
            if rnd.random() < 0.6:
                line += [g.ch(flds) for _ in range(rnd.randint(1, 3))] + ['in']
            line += [g.ch(srcs[:2] if rnd.random() < 0.85 else srcs)]
            L.append(line)
        L += [['framer', 'fa', 'be', 'active'], ['frame', 'a'], ['print', 'hi']]
    elif k == 18:   # a tasker that is no framer (a logger) named wherever a framer name is expected
        other = g.ch(['blackbox', 'blackbox', 'helper', 'zz'])
        L.append(['logger', 'blackbox', 'to', '/dev/null/vp14'])
        L += [['framer', 'fa', 'be', 'active'], ['frame', 'a']]
        for _ in range(rnd.randint(1, 3)):
            L.append(g.ch([
                ['go', 'b', 'if', 'aux', 'helper', 'in', 'framer', other, 'is', 'done'],
                ['go', 'b', 'if', g.ch(['any', 'all']), 'in', 'frame', g.ch(['a', 'b', 'ha']), 'in', 'framer', other, 'is', 'done'],
                ['go', 'b', 'if', 'aux', 'helper', 'in', 'frame', 'a', 'in', 'framer', other, 'is', 'done'],
                ['go', 'b', 'if', other, 'is', 'done'],
                ['go', 'b', 'if', 'aux', other, 'is', 'done'],
                ['aux', other], ['aux', other, 'if', '.x', '==', '1'], ['aux', other, 'as', g.ch(['mine', 'cl'])],
                ['rear', other, 'as', 'mine', 'be', 'aux', 'in', 'frame', 'a'],
                ['done', other], [g.ch(['ready', 'start', 'run', 'stop', 'abort']), other],
                ['bid', g.ch(['start', 'stop', 'run']), other],
                ['go', 'b', 'if', 'elapsed', 're', other, '>=', '1'],
                ['put', '1', 'into', 'x', 'of', 'framer', other],
            ]))
        L += [['frame', 'b'], ['print', 'hi'], ['framer', 'helper', 'be', 'aux'], ['frame', 'ha'], ['print', 'h']]
    else:           # a generated program plus extra structural commands with loose references
        L = Gen(rnd, 0.5).program()
    return L
