"""Run a program AST on real ioflo and record an observable trace.

All instrumentation is harness-side: after a successful build every act in every frame's
context lists (and every sub-need / transit act of transitions and conditional auxes) is
wrapped by a Probe, every tasker's runner generator by a RunnerProxy, and the store's
changeStamp by the tick bound of vp.flo.build. No repo change is needed.

Trace (JSON-like):
  {"build": "True"|"False"|<exception name>, "detail": str,
   "ticks": [ {"events": [...], "snap": {...}} , ...],      # one per tick actually run
   "final": {"events": [...], "snap": {...}},               # abort sweep after the loop
   "exc": None | exception class name (re-raised by Skedder.run), "interrupted": bool}
Events:
  ["send", tasker, control, status]                 control sent to a tasker's runner, status yielded
  ["act", framer, frame, ctx, line, kind, res]      res: bool for benter/precur kinds, else None
  ["need", framer, frame, line, idx, res]           idx-th need of the go / aux-if on `line`
  ["tract", framer, frame, line]                    transit sub-context act (marker reset)
  ["f", framer, frame, meth]                        Frame.enter/exit/renter/rexit/recur/precur called
  ["state", framer, status, active, [actives]]      after every send to a framer's runner
  ["enterall", framer] / ["exitall", framer, abort] Framer.enterAll / exitAll called
"""
from vp.core import env
from vp.flo import ast as A
from vp.flo.build import build_text, TickBound

KIND_OF = {
    "PokeDirect": "put", "PokeIndirect": "copy", "IncDirect": "inc", "IncIndirect": "inc",
    "GoalDirect": "set", "GoalIndirect": "set", "Transiter": "go", "Suspender": "auxif",
    "WantStart": "bid", "WantStop": "bid", "WantRun": "bid", "WantAbort": "bid", "WantReady": "bid",
    "CompleteDone": "done", "FiatReady": "fiat", "FiatStart": "fiat", "FiatRun": "fiat",
    "FiatStop": "fiat", "FiatAbort": "fiat", "MarkerUpdate": "mark", "MarkerChange": "mark",
    "Printer": "print", "Rearer": "rear", "Razer": "raze",
}

CONTROL = {0: "stop", 1: "start", 2: "run", 3: "abort", 4: "ready"}
STATUS = {0: "stopped", 1: "started", 2: "running", 3: "aborted", 4: "readied"}


def kind_of(act):
    from ioflo.base import acting
    if isinstance(act, acting.SideAct):
        return "deact"
    name = type(act.actor).__name__
    if name.startswith("Need"):
        return "need"
    return KIND_OF.get(name, name)


class Probe(object):
    """Callable standing in for an Act in a frame's context list."""
    __slots__ = ("act", "log", "ev", "boolres", "pre", "post")

    def __init__(self, act, log, ev, boolres, pre=None, post=None):
        self.act = act
        self.log = log
        self.ev = ev
        self.boolres = boolres
        self.pre = pre
        self.post = post

    def __call__(self):
        log = self.log
        if self.pre is not None:
            self.pre(self)
        if self.boolres:
            # result is only known afterwards; reserve the position so nested events
            # (needs, enters caused by a transition) come after their cause
            pos = len(log.cur)
            log.cur.append(None)
            try:
                res = self.act()
            except BaseException:
                log.cur[pos] = self.ev + ["raised"]
                raise
            log.cur[pos] = self.ev + [bool(res)]
        else:
            log.cur.append(self.ev + [None])
            res = self.act()
        if self.post is not None:
            self.post(self, res)
        return res

    # things ioflo may look at on an act
    def __getattr__(self, name):
        return getattr(self.act, name)


class SubProbe(object):
    """Wraps a need (or transit act) nested in a Transiter / Suspender."""
    __slots__ = ("act", "log", "ev", "isneed")

    def __init__(self, act, log, ev, isneed):
        self.act = act
        self.log = log
        self.ev = ev
        self.isneed = isneed

    def __call__(self):
        if self.isneed:
            res = self.act()
            self.log.cur.append(self.ev + [bool(res)])
            return res
        self.log.cur.append(list(self.ev))
        return self.act()

    def __getattr__(self, name):
        return getattr(self.act, name)


class RunnerProxy(object):
    def __init__(self, tasker, log, hook=None):
        self.tasker = tasker
        self.gen = tasker.runner
        self.log = log
        self.hook = hook

    def send(self, control):
        pos = len(self.log.cur)
        self.log.cur.append(None)
        try:
            status = self.gen.send(control)
        except StopIteration:
            self.log.cur[pos] = ["send", self.tasker.name, CONTROL.get(control, str(control)), "dead"]
            raise
        except BaseException:
            self.log.cur[pos] = ["send", self.tasker.name, CONTROL.get(control, str(control)), "raised"]
            raise
        self.log.cur[pos] = ["send", self.tasker.name, CONTROL.get(control, str(control)),
                             STATUS.get(status, str(status))]
        t = self.tasker
        if hasattr(t, "actives"):
            self.log.cur.append(["state", t.name, STATUS.get(t.status, str(t.status)),
                                 t.active.name if t.active is not None else None,
                                 [f.name for f in t.actives]])
        if self.hook is not None:
            self.hook(self.tasker, control, status)
        return status

    def close(self):
        return self.gen.close()

    def __getattr__(self, name):
        return getattr(self.gen, name)


class Log(object):
    def __init__(self):
        self.cur = []


def instrument(house, log, pre=None, post=None, send_hook=None):
    """Wrap every act of every framer of the built house. Returns list of framers."""
    from ioflo.base import framing
    from ioflo.base.globaling import MOOT
    done = getattr(house, "_vp_instrumented", None)
    if done is None:
        done = house._vp_instrumented = set()
    # moot framers are templates: never resolved, deep-copied when cloned -> left untouched
    framers = [t for t in house.taskers if isinstance(t, framing.Framer) and t.schedule != MOOT]
    # clones reared at run time are registered in the house's tasker registry only
    for t in list(house.names.get("tasker", {}).values()) if hasattr(house, "names") else []:
        if isinstance(t, framing.Framer) and t.schedule != MOOT and t not in framers:
            framers.append(t)
    for fr in framers:
        if id(fr) in done:
            continue
        done.add(id(fr))
        for frame in fr.frameNames.values():
            for ctx, lst in (("benter", frame.beacts), ("precur", frame.preacts), ("enter", frame.enacts),
                             ("renter", frame.renacts), ("recur", frame.reacts), ("exit", frame.exacts),
                             ("rexit", frame.rexacts)):
                for i, act in enumerate(lst):
                    line = (act.count or 0) - 1
                    kind = kind_of(act)
                    ev = ["act", fr.name, frame.name, ctx, line, kind]
                    boolres = ctx in ("benter", "precur") or kind == "fiat"
                    if kind in ("go", "auxif"):
                        needs = act.parms.get("needs") or []
                        for j, nd in enumerate(needs):
                            needs[j] = SubProbe(nd, log, ["need", fr.name, frame.name, line, j], True)
                        tr = act.actor._tracts
                        for j, t in enumerate(tr):
                            tr[j] = SubProbe(t, log, ["tract", fr.name, frame.name, (t.count or 0) - 1], False)
                    lst[i] = Probe(act, log, ev, boolres, pre, post)
            for meth in ("enter", "exit", "renter", "rexit", "recur", "precur"):
                _wrap_frame_method(frame, fr.name, meth, log)
        _wrap_framer_methods(fr, log)
    for t in list(house.taskers) + framers:
        if not isinstance(t.runner, RunnerProxy):
            t.runner = RunnerProxy(t, log, send_hook)
    return framers


def _wrap_framer_methods(fr, log):
    """Log Framer.enterAll / exitAll boundaries: ["enterall", framer], ["exitall", framer, abort]."""
    orig_enter = fr.enterAll
    orig_exit = fr.exitAll

    def enterAll(*pa, **kw):
        log.cur.append(["enterall", fr.name])
        return orig_enter(*pa, **kw)

    def exitAll(abort=False, *pa, **kw):
        log.cur.append(["exitall", fr.name, bool(abort)])
        return orig_exit(abort, *pa, **kw)
    fr.enterAll = enterAll
    fr.exitAll = exitAll


def _wrap_frame_method(frame, framer_name, meth, log):
    """Shadow a Frame method on the instance so that every call is logged as
    ["f", framer, frame, meth] (frames without acts are observable too)."""
    orig = getattr(frame, meth)
    ev = ["f", framer_name, frame.name, meth]

    def wrapper(*pa, **kw):
        log.cur.append(list(ev))
        return orig(*pa, **kw)
    setattr(frame, meth, wrapper)


def snapshot(house, framers, paths, stamp2tick):
    snap = {"framers": {}, "shares": {}}
    for fr in framers:
        snap["framers"][fr.name] = {
            "status": STATUS.get(fr.status, str(fr.status)),
            "desire": CONTROL.get(fr.desire, str(fr.desire)),
            "active": fr.active.name if fr.active is not None else None,
            "actives": [f.name for f in fr.actives],
            "done": bool(fr.done),
            "elapsed": fr.elapsedShr.value,
            "recurred": fr.recurredShr.value,
            "period": fr.period,
        }
    for p in paths:
        sh = house.store.fetchShare(p)
        if sh is None:
            snap["shares"][p] = None
        else:
            st = sh.stamp
            snap["shares"][p] = {"items": [[k, v] for k, v in sh.items()],
                                 "stamp": None if st is None else stamp2tick.get(st, ("?", st))}
    return snap


def pool_paths(prog):
    """All absolute store paths mentioned by the program (in first-mention order)."""
    seen = []

    def add(p):
        if isinstance(p, str) and p.startswith(".") and p not in seen:
            seen.append(p)

    def need_paths(n):
        add(n.get("state"))
        add(n.get("share"))
        g = n.get("goal")
        if isinstance(g, dict):
            add(g.get("path"))

    for fr in prog["framers"]:
        for f in fr["frames"]:
            for a in f["acts"]:
                add(a.get("dst"))
                add(a.get("src"))
                for n in a.get("needs") or []:
                    need_paths(n)
    return seen


def dump_store(house):
    """{share path: [[field, value], ...]} for every share of the house's store"""
    out = {}

    def walk(node, prefix):
        from ioflo.base import storing
        for name, child in node.items():
            path = prefix + "." + name if prefix else name
            if isinstance(child, storing.Share):
                out[path] = [[k, repr(v) if not isinstance(v, (int, float, str, bool, type(None))) else v] for k, v in child.items()]
            elif isinstance(child, storing.Node):
                walk(child, path)
    walk(house.store.shares, "")
    return out


def run_text(text, ticks, period="0.125", paths=()):
    """Build + run an arbitrary script text with the same instrumentation (framers created at run
    time, e.g. reared clones, are instrumented at the next tick boundary). Adds trace["store"] (all
    shares after the run) and trace["names"] (framer/tasker registry names after the run)."""
    env.quiet_ioflo()
    b = build_text(text, period=float(period))
    trace = {"build": b.outcome, "detail": "" if b.exc is None else str(b.exc)[:300], "ticks": [],
             "final": None, "exc": None, "interrupted": False, "text": text}
    if not b.ok:
        return trace
    house = b.houses[0]
    log = Log()
    holder = {"framers": instrument(house, log)}
    stamp2tick = {}

    def on_tick(i, stamp):
        stamp2tick[stamp] = i
        if i > 0:
            holder["framers"] = instrument(house, log)
            trace["ticks"].append({"events": log.cur, "snap": snapshot(house, holder["framers"], paths, stamp2tick)})
            log.cur = []
    sk = b.skedder
    tb = TickBound(sk, ticks, on_tick)
    try:
        sk.run()
    except Exception as ex:
        trace["exc"] = type(ex).__name__
        trace["exc_detail"] = str(ex)[:300]
    trace["interrupted"] = tb.interrupted
    holder["framers"] = instrument(house, log)
    trace["final"] = {"events": log.cur, "snap": snapshot(house, holder["framers"], paths, stamp2tick)}
    trace["nticks"] = tb.tick + 1
    trace["store"] = dump_store(house)
    house.assignRegistries()
    from ioflo.base import framing
    trace["names"] = sorted(framing.Framer.Names.keys())
    return trace


def run_real(prog, ticks=None, crash=None, text=None, rerun=None):
    """Build + run on ioflo. crash = None | {"tick": t, "nth": k, "exc": "RuntimeError"|"KeyboardInterrupt"}
    raises that exception from the k-th probed act call of tick t (before the act runs);
    {"tick": t, "between": True} raises KeyboardInterrupt from changeStamp before tick t."""
    env.quiet_ioflo()
    if text is None:
        text, _ = A.render(prog)
    ticks = prog.get("ticks", 10) if ticks is None else ticks
    period = float(prog.get("period", "0.125"))
    b = build_text(text, period=period)
    trace = {"build": b.outcome, "detail": "" if b.exc is None else str(b.exc)[:300], "ticks": [],
             "final": None, "exc": None, "interrupted": False, "text": text}
    if not b.ok:
        return trace
    house = b.houses[0]
    log = Log()
    state = {"tick": 0, "calls": 0}

    class Crash(RuntimeError):
        pass

    def pre(probe):
        state["calls"] += 1
        if crash and not crash.get("between") and state["tick"] == crash["tick"] and state["calls"] == crash["nth"]:
            if crash.get("exc") == "KeyboardInterrupt":
                raise KeyboardInterrupt()
            raise Crash("injected")

    framers = instrument(house, log, pre=pre)
    calls_per_tick = []
    paths = pool_paths(prog)
    stamp2tick = {}

    def on_tick(i, stamp):
        stamp2tick[stamp] = i
        if i > 0:
            trace["ticks"].append({"events": log.cur, "snap": snapshot(house, framers, paths, stamp2tick)})
            log.cur = []
            calls_per_tick.append(state["calls"])
        state["tick"] = i
        state["calls"] = 0
        # external writes injected at the start of this tick: a field is added to a share from outside the script
        # (what a behavior or host program does with share.update(field=value))
        for itick, ipath, ifield, ivalue in prog.get("inject") or ():
            if itick == i:
                house.store.fetchShare(ipath.lstrip(".")).update(**{ifield: ivalue})
                log.cur.append(["inject", ipath, ifield, ivalue])

    sk = b.skedder
    tb = TickBound(sk, ticks, on_tick)
    if crash and crash.get("between"):
        store = house.store
        inner = store.changeStamp

        def cs(stamp):
            if crash and tb.tick + 1 == crash["tick"]:
                raise KeyboardInterrupt()
            inner(stamp)
        store.changeStamp = cs
    try:
        sk.run()
    except Exception as ex:
        trace["exc"] = "Crash" if isinstance(ex, Crash) else type(ex).__name__
        trace["exc_detail"] = str(ex)[:300]
    trace["interrupted"] = tb.interrupted
    # the events since the last tick boundary belong to the last tick run + the abort sweep
    trace["final"] = {"events": log.cur, "snap": snapshot(house, framers, paths, stamp2tick)}
    trace["nticks"] = tb.tick + 1
    trace["calls"] = calls_per_tick     # probed act calls in each completed tick (crash point space)
    if rerun and not trace["exc"]:
        # the same Skedder is run again (Skedder.run re-readies every taskable: a new mission with the same objects);
        # the second run is recorded as a trace of its own under trace["rerun"]
        t2 = {"build": trace["build"], "detail": "", "ticks": [], "final": None, "exc": None, "interrupted": False, "text": text}
        log.cur = []
        state["tick"] = 0
        state["calls"] = 0
        calls2 = []
        stamp2tick.clear()

        def on_tick2(i, stamp):
            stamp2tick[stamp] = i
            if i > 0:
                t2["ticks"].append({"events": log.cur, "snap": snapshot(house, framers, paths, stamp2tick)})
                log.cur = []
                calls2.append(state["calls"])
            state["tick"] = i
            state["calls"] = 0
        tb.tick = -1
        tb.max_ticks = rerun
        tb.interrupted = False
        tb.on_tick = on_tick2
        crash = None
        try:
            sk.run()
        except Exception as ex:
            t2["exc"] = type(ex).__name__
            t2["exc_detail"] = str(ex)[:300]
        t2["interrupted"] = tb.interrupted
        t2["final"] = {"events": log.cur, "snap": snapshot(house, framers, paths, stamp2tick)}
        t2["nticks"] = tb.tick + 1
        t2["calls"] = calls2
        trace["rerun"] = t2
    return trace
