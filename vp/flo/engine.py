"""Shared execution engine for the FloScript run-time properties (C03-C12, C20, C21).

run_case(case) builds + runs one generated program on real ioflo (vp.flo.run), runs the
reference interpreter (vp.flo.ref) and returns both traces, their first divergence and a
feature summary used for class labels / non-triviality rules.
"""
import json

from vp.flo import ast as A
from vp.flo.run import run_real
from vp.flo.ref import run_ref, Ref
from vp.flo.diff import diff_traces


def all_events(trace):
    """Yield (tick index, event index, event) over the whole run (final block included)."""
    for t, tk in enumerate(trace["ticks"]):
        for i, e in enumerate(tk["events"]):
            yield t, i, e
    if trace.get("final"):
        t = len(trace["ticks"])
        for i, e in enumerate(trace["final"]["events"]):
            yield t, i, e


def features(prog, trace):
    f = {"go_true": 0, "go_false": 0, "auxif_true": 0, "auxif_false": 0, "fiat": 0, "bid": 0, "done": 0,
         "guard_false": 0, "guard_true": 0, "ctxs": set(), "enter": 0, "exit": 0, "renter": 0, "rexit": 0,
         "sends": 0, "ticks": trace.get("nticks", 0), "data": 0, "slave_sends": 0, "refused_by_guard": 0}
    last_go = None
    for t, i, e in all_events(trace):
        k = e[0]
        if k == "act":
            kind, res = e[5], e[6]
            f["ctxs"].add(e[3])
            if kind == "go":
                f["go_true" if res else "go_false"] += 1
            elif kind == "auxif":
                f["auxif_true" if res else "auxif_false"] += 1
            elif kind in ("fiat", "bid", "done"):
                f[kind] += 1
            elif kind == "need":
                f["guard_true" if res else "guard_false"] += 1
            elif kind in ("put", "inc", "copy", "set"):
                f["data"] += 1
        elif k == "f":
            if e[3] in ("enter", "exit", "renter", "rexit"):
                f[e[3]] += 1
        elif k == "send":
            f["sends"] += 1
    f["ctxs"] = sorted(f["ctxs"])
    return f


def run_case(case, ref_opts=None, want_ref=True):
    """case: {"prog": AST, "crash": None|{...}} -> dict(real, ref, diff, feats, text)"""
    prog = case["prog"]
    text, _ = A.render(prog)
    crash = case.get("crash")
    real = run_real(prog, text=text, crash=crash)
    out = {"real": real, "ref": None, "diff": None, "text": text, "feats": None}
    if real["build"] != "True":
        out["diff"] = ("build-%s" % real["build"], "generated well-formed program did not build: %s %s\n%s" % (
            real["build"], real["detail"], text))
        return out
    out["feats"] = features(prog, real)
    if want_ref:
        ref = run_ref(prog, opts=ref_opts, crash=crash)
        out["ref"] = ref
        d = diff_traces(real, ref)
        if d:
            out["diff"] = (d[0], d[1] + "\n" + text)
    return out


def structure(prog):
    """Static structure (frames, outlines, heads, act lists) computed from the AST alone."""
    if not all("line" in a for fr in prog["framers"] for f in fr["frames"] for a in f["acts"]):
        A.render(prog)
    return Ref(prog)


def prog_key(prog):
    return json.dumps(prog, sort_keys=True, default=str)
