"""History invariants over a real ioflo trace (vp.flo.run), independent of the reference
interpreter's dynamics: they use only the program AST's *static* structure (frame forest,
outlines, act lists, auxiliaries per frame) and the recorded events / snapshots.

Each inv_* returns a list of (signature, explanation).
"""
from vp.flo.engine import structure, all_events


class Static(object):
    """Static facts from the AST."""

    def __init__(self, prog):
        self.ref = structure(prog)
        self.prog = prog
        self.framers = self.ref.framers

    def frame(self, F, name):
        return self.framers[F].frames[name]

    def outline(self, F, name):
        return [f.name for f in self.frame(F, name).outline]

    def head(self, F, name):
        return [f.name for f in self.frame(F, name).head]

    def plain_auxes(self, F, name):
        return [x.name for x in self.frame(F, name).auxes]

    def first_outline(self, F):
        return [f.name for f in self.framers[F].first.outline]

    def benter_lines(self, F, name):
        """[(line, index among the benter acts)] of need guards of the frame"""
        return [ra.line for ra in self.frame(F, name).lists["benter"] if ra.kind == "need"]

    def act_by_line(self, line):
        for fr in self.prog["framers"]:
            for f in fr["frames"]:
                for a in f["acts"]:
                    if a.get("line") == line:
                        return fr, f, a
        return None, None, None

    def far_of(self, F, frame, line):
        fr, f, a = self.act_by_line(line)
        fm = self.frame(F, frame)
        if a["kind"] in ("timeout", "repeat") or a.get("far") == "next":
            return fm.next.name
        if a["far"] == "me":
            return frame
        return a["far"]

    def cond_auxes_of_frame(self, F, name):
        """[(line, aux name)] conditional auxiliaries declared in the frame, in order"""
        return [(ra.line, ra.a["name"]) for ra in self.frame(F, name).lists["precur"] if ra.kind == "auxif"]

    def roles(self):
        return {fr["name"]: fr["sched"] for fr in self.prog["framers"]}


def flat(trace):
    return [(t, e) for t, i, e in all_events(trace)]


def snaps(trace):
    out = [tk["snap"] for tk in trace["ticks"]]
    if trace.get("final"):
        out.append(trace["final"]["snap"])
    return out


# --------------------------------------------------------------------------------------- C05
def inv_c05(prog, trace):
    """After every framer run: actives == outline of the active frame (cut at the main frame
    of a running conditional aux); stopped/aborted framers have no active frames."""
    S = Static(prog)
    fails = []
    running = {}   # framer -> {line: main frame} conditional auxes currently running
    E = flat(trace)
    for idx, (t, e) in enumerate(E):
        if e[0] == "act" and e[5] == "auxif":
            F, M, line, res = e[1], e[2], e[4], e[6]
            d = running.setdefault(F, {})
            if res is True:
                d[line] = M
            else:
                d.pop(line, None)
        elif e[0] == "f" and e[3] == "exit":
            F, X = e[1], e[2]
            d = running.get(F)
            if d:
                for line in [l for l, m in d.items() if m == X]:
                    del d[line]
        elif e[0] == "state":
            F, status, active, actives = e[1], e[2], e[3], e[4]
            if F not in S.framers:
                continue
            if status in ("started", "running"):
                if active is None:
                    fails.append(("c05-running-without-active", "tick %d: framer %s %s has no active frame" % (t, F, status)))
                    continue
                full = S.outline(F, active)
                mains = [m for m in (running.get(F) or {}).values() if m in full]
                if mains:
                    top = min(mains, key=full.index)
                    expect = full[:full.index(top) + 1]
                else:
                    expect = full
                if actives != expect:
                    fails.append(("c05-outline" + ("-suspended" if mains else ""),
                                  "tick %d: framer %s active=%s actives=%r expected %r (full outline %r, running conditional aux mains %r)"
                                  % (t, F, active, actives, expect, full, mains)))
            else:
                if actives or active is not None:
                    fails.append(("c05-idle-has-actives", "tick %d: framer %s is %s but active=%r actives=%r" % (t, F, status, active, actives)))
                running.pop(F, None)
    return fails


# --------------------------------------------------------------------------------------- C06
def inv_c06(prog, trace, crash=False):
    """(i) enter/exit alternate per frame; (ii) at tick boundaries the entered-not-exited frames
    are the full outlines of running framers and active auxes; (iii) transition order;
    (iv) stop/abort exits every entered frame bottom-up."""
    S = Static(prog)
    fails = []
    stack = {}    # framer -> list of entered frames in entry order
    E = flat(trace)
    snapl = snaps(trace)
    nticks = len(trace["ticks"])

    def check_boundary(t, snap, final):
        for F, st in snap["framers"].items():
            if F not in S.framers or S.roles().get(F) == "moot":
                continue
            ent = stack.get(F, [])
            role = S.roles()[F]
            if role == "aux":
                expect = S.outline(F, st["active"]) if st["active"] is not None else []
            else:
                expect = S.outline(F, st["active"]) if st["status"] in ("started", "running") and st["active"] else []
            if ent != expect:
                fails.append(("c06-entered-set", "%s tick %d: framer %s (%s, active=%s) entered-not-exited %r expected %r"
                              % ("after run," if final else "end of", t, F, st["status"], st["active"], ent, expect)))

    cur_t = 0
    i = 0
    n = len(E)
    while i < n:
        t, e = E[i]
        while cur_t < t:
            check_boundary(cur_t, snapl[cur_t], False)
            cur_t += 1
        if e[0] == "f" and e[3] in ("enter", "exit"):
            F, X = e[1], e[2]
            st = stack.setdefault(F, [])
            if e[3] == "enter":
                if X in st:
                    fails.append(("c06-double-enter", "tick %d: frame %s of %s entered while already entered (entered: %r)" % (t, X, F, st)))
                else:
                    st.append(X)
            else:
                if X not in st:
                    fails.append(("c06-exit-without-enter", "tick %d: frame %s of %s exited but not entered (entered: %r)" % (t, X, F, st)))
                else:
                    if st[-1] != X:
                        fails.append(("c06-exit-not-bottom-up", "tick %d: frame %s of %s exited while lower frames %r still entered" % (
                            t, X, F, st[st.index(X) + 1:])))
                    st.remove(X)
        elif e[0] == "act" and e[5] == "go" and e[6] is True:
            F, X, line = e[1], e[2], e[4]
            cur = list(stack.get(F, []))
            far = S.far_of(F, X, line)
            tgt = S.outline(F, far)
            k = None
            for j in range(min(len(cur), len(tgt))):
                if cur[j] == far or cur[j] != tgt[j]:
                    k = j
                    break
            # collect this framer's frame-level events of the transition block
            seq = []
            tract_after_f = False
            j = i + 1
            while j < n:
                e2 = E[j][1]
                if e2[0] == "state" and e2[1] == F:
                    break
                if e2[0] == "f" and e2[1] == F and e2[3] in ("recur", "precur"):
                    break
                if e2[0] == "act" and e2[1] == F and e2[3] == "precur":
                    break
                if e2[0] == "f" and e2[1] == F:
                    seq.append((e2[3], e2[2]))
                if e2[0] == "tract" and e2[1] == F and seq:
                    tract_after_f = True
                j += 1
            if tract_after_f:
                fails.append(("c06-transit-act-late", "tick %d: transit act of line %d ran after frame exits/enters began" % (t, line)))
            if k is None:
                fails.append(("c06-transition-without-difference", "tick %d: transition of %s on line %d taken although target outline %r does not differ from entered %r" % (t, F, line, tgt, cur)))
            else:
                expect = [("exit", x) for x in reversed(cur[k:])] + [("rexit", x) for x in reversed(cur[:k])] + \
                    [("renter", x) for x in cur[:k]] + [("enter", x) for x in tgt[k:]]
                if S.roles().get(F) == "aux":
                    # an aux framer has no per-run boundary event: later frame events in the same
                    # tick may be caused by its main framer, so only the transition's own events count
                    seq = seq[:len(expect)]
                if seq != expect:
                    fails.append(("c06-transition-order", "tick %d: transition of %s on line %d (entered %r -> %s %r): frame events %r expected %r" % (
                        t, F, line, cur, far, tgt, seq, expect)))
        elif e[0] == "send" and e[2] in ("stop", "abort") and e[3] in ("stopped", "aborted"):
            F = e[1]
            if F in S.framers:
                cur = list(stack.get(F, []))
                seq = []
                j = i + 1
                while j < n:
                    e2 = E[j][1]
                    if e2[0] == "state" and e2[1] == F:
                        break
                    if e2[0] == "f" and e2[1] == F:
                        seq.append((e2[3], e2[2]))
                    j += 1
                expect = [("exit", x) for x in reversed(cur)]
                if seq != expect:
                    fails.append(("c06-stop-abort-exits", "tick %d: %s of %s with entered %r: frame events %r expected %r" % (
                        t, e[2], F, cur, seq, expect)))
        i += 1
    while cur_t < len(snapl):
        final = cur_t == len(snapl) - 1
        if not (crash and final):
            check_boundary(cur_t, snapl[cur_t], final)
        cur_t += 1
    return fails


# --------------------------------------------------------------------------------------- C08
def inv_c08(prog, trace):
    """Entry guards never bypassed; refused attempts have no effect."""
    S = Static(prog)
    fails = []
    E = flat(trace)
    n = len(E)
    last_true = {}    # (F, X, line) -> event index
    last_false = {}
    last_enter = {}   # (F, X) -> event index of previous enter
    owner = {}        # original aux framer -> (F, X) main frame that entered it
    for i, (t, e) in enumerate(E):
        if e[0] == "act" and e[3] == "benter" and e[5] == "need":
            key = (e[1], e[2], e[4])
            # several needs of one `let` line share the line: keep per (line, ordinal)
            ordn = 0
            while (key + (ordn,)) in last_true and last_true[key + (ordn,)] == i:
                ordn += 1
            (last_true if e[6] else last_false)[key] = i
        elif e[0] == "f" and e[3] == "enter":
            F, X = e[1], e[2]
            if F not in S.framers:
                continue
            prev = last_enter.get((F, X), -1)
            for line in set(S.benter_lines(F, X)):
                k = last_true.get((F, X, line), -1)
                kf = last_false.get((F, X, line), -1)
                if k <= prev or kf > k:
                    fails.append(("c08-guard-bypassed", "tick %d: frame %s of %s entered but its guard on line %d was not evaluated true "
                                  "for this entry (last true @%d, last false @%d, previous entry @%d)" % (t, X, F, line, k, kf, prev)))
            last_enter[(F, X)] = i
            for A in S.plain_auxes(F, X):
                own = owner.get(A)
                if own is not None and own != (F, X):
                    fails.append(("c08-aux-owned", "tick %d: frame %s of %s entered while its auxiliary %s is owned by frame %s of %s" % (
                        t, X, F, A, own[1], own[0])))
                owner[A] = (F, X)
        elif e[0] == "f" and e[3] == "exit":
            F, X = e[1], e[2]
            for A, own in list(owner.items()):
                if own == (F, X):
                    del owner[A]
        elif e[0] == "act" and e[5] == "go" and e[6] is False and S.roles().get(e[1]) != "aux":
            # (aux framers have no closing state event: their later frame events in the same tick
            # may be caused by their main framer, so the attribution is only made for taskables/slaves)
            F = e[1]
            j = i + 1
            while j < n:
                e2 = E[j][1]
                if e2[0] == "act" and e2[1] == F and e2[3] == "precur":
                    break
                if e2[0] == "f" and e2[1] == F and e2[3] in ("recur", "precur"):
                    break
                if e2[0] == "state" and e2[1] == F:
                    break
                if (e2[0] == "f" and e2[1] == F and e2[3] in ("enter", "exit", "renter", "rexit")) or \
                        (e2[0] == "tract" and e2[1] == F):
                    fails.append(("c08-refused-transition-has-effect", "tick %d: refused transition of %s on line %d was followed by %r" % (t, F, e[4], e2)))
                    break
                j += 1
        elif e[0] == "send" and e[2] in ("start", "ready") and e[3] == "stopped":
            F = e[1]
            j = i + 1
            while j < n:
                e2 = E[j][1]
                if e2[0] == "state" and e2[1] == F:
                    break
                if e2[0] == "f" and e2[1] == F:
                    fails.append(("c08-refused-start-has-effect", "tick %d: refused %s of %s was followed by %r" % (t, e[2], F, e2)))
                    break
                j += 1
    # clocks and outline unchanged by refused transitions: a taskable framer that ran (send run ->
    # running) in tick t without taking a transition keeps its outline and its clocks advance by one tick
    snapl = snaps(trace)
    P = float(prog.get("period", "0.125"))
    per_tick = {}
    for t, e in E:
        per_tick.setdefault(t, []).append(e)
    for t in range(1, len(trace["ticks"])):
        evs = per_tick.get(t, [])
        for F, st in snapl[t]["framers"].items():
            if F not in S.framers or S.roles()[F] not in ("active", "inactive"):
                continue
            prev = snapl[t - 1]["framers"][F]
            ran = [e for e in evs if e[0] == "send" and e[1] == F]
            if len(ran) != 1 or ran[0][2] != "run" or ran[0][3] != "running" or prev["status"] not in ("started", "running"):
                continue
            changed = any(e[0] == "act" and e[1] == F and e[5] in ("go", "auxif") and e[6] is True for e in evs) or \
                any(e[0] == "act" and e[1] == F and e[5] == "auxif" for e in evs)
            if changed:
                continue
            if st["actives"] != prev["actives"] or st["active"] != prev["active"]:
                fails.append(("c08-outline-changed-without-transition", "tick %d: framer %s outline %r -> %r without a taken transition" % (
                    t, F, prev["actives"], st["actives"])))
            if st["recurred"] != prev["recurred"] + 1:
                fails.append(("c08-recurred-disturbed", "tick %d: framer %s recurred %r -> %r without a taken transition" % (t, F, prev["recurred"], st["recurred"])))
    return fails


# --------------------------------------------------------------------------------------- C09
def inv_c09(prog, trace):
    """Plain auxiliaries live exactly as long as their main frame; done-conditions observe the
    completion state."""
    S = Static(prog)
    fails = []
    E = flat(trace)
    n = len(E)
    entered = {}       # framer -> list of entered frames
    done = {}          # framer name -> modelled completion state (aux / slave framers)
    roles = S.roles()
    for name, r in roles.items():
        done[name] = True

    def next_own_events(i, names, limit=400):
        out = []
        j = i + 1
        while j < n and len(out) < limit:
            e2 = E[j][1]
            if e2[0] == "f" and e2[1] in names:
                out.append(e2)
            j += 1
        return out

    for i, (t, e) in enumerate(E):
        if e[0] == "f" and e[3] == "enter":
            F, X = e[1], e[2]
            st = entered.setdefault(F, [])
            if X not in st:
                st.append(X)
            if F in S.framers:
                # each plain aux of X starts at its first frame right after X's enter acts
                for A in S.plain_auxes(F, X):
                    fo = S.first_outline(A)
                    evs = [x for x in next_own_events(i, {A}, 50)]
                    got = [(x[3], x[2]) for x in evs[:len(fo)]]
                    if got != [("enter", f) for f in fo]:
                        fails.append(("c09-aux-not-started-with-main", "tick %d: main frame %s of %s entered but aux %s next frame events %r, expected enters of %r" % (
                            t, X, F, A, got, fo)))
        elif e[0] == "f" and e[3] == "exit":
            F, X = e[1], e[2]
            st = entered.get(F, [])
            if X in st:
                st.remove(X)
            if F in S.framers:
                if not st and roles.get(F) in ("aux", "slave"):
                    pass
                for A in S.plain_auxes(F, X):
                    ent = list(entered.get(A, []))
                    if ent:
                        evs = next_own_events(i, {A}, 50)
                        got = [(x[3], x[2]) for x in evs[:len(ent)]]
                        if got != [("exit", f) for f in reversed(ent)]:
                            fails.append(("c09-aux-not-exited-with-main", "tick %d: main frame %s of %s exited but aux %s (entered %r) next frame events %r" % (
                                t, X, F, A, ent, got)))
        elif e[0] == "enterall":
            done[e[1]] = False
        elif e[0] == "exitall":
            if not e[2]:
                done[e[1]] = True
        elif e[0] == "f" and e[3] == "recur":
            F, X = e[1], e[2]
            if F in S.framers:
                # the aux's recur comes right after its main frame's recur acts
                auxes = S.plain_auxes(F, X)
                j = i + 1
                while j < n and E[j][1][0] == "act" and E[j][1][1] == F and E[j][1][2] == X and E[j][1][3] == "recur":
                    j += 1
                    # nested events of fiats etc. are skipped below
                if auxes:
                    A = auxes[0]
                    ent = entered.get(A, [])
                    if ent:
                        evs = next_own_events(i, set(auxes) | {F}, 80)
                        # first frame-level event after X's recur must belong to the first aux (its top entered frame recurs)
                        nxt = [x for x in evs if not (x[1] == F and x[2] == X)]
                        if nxt:
                            x = nxt[0]
                            if not (x[1] == A and x[3] == "recur"):
                                fails.append(("c09-aux-recur-order", "tick %d: after recur of main frame %s of %s the next frame event is %r, expected recur of aux %s" % (
                                    t, X, F, x, A)))
        elif e[0] == "act" and e[5] == "done":
            fr, f, a = S.act_by_line(e[4])
            for tg in a["targets"]:
                done[e[1] if tg == "me" else tg] = True
        elif e[0] == "send":
            # slaves: done reset on start (enterAll), set on abort (exitAll) -- tracked through frame events
            pass
        elif e[0] == "need" or (e[0] == "act" and e[5] == "need"):
            # compare done-conditions with the modelled completion state
            if e[0] == "need":
                F, X, line, idxn, res = e[1], e[2], e[3], e[4], e[5]
                fr, f, a = S.act_by_line(line)
                if a["kind"] in ("timeout", "repeat"):
                    continue
                nd = (a.get("needs") or [])[idxn] if idxn < len(a.get("needs") or []) else None
            else:
                continue
            if nd is None or nd["kind"] not in ("done", "auxdone"):
                continue
            if nd["kind"] == "done":
                tk = nd["tasker"]
                if roles.get(tk) not in ("aux",):
                    continue
                exp = done[tk]
            else:
                fx = X if nd.get("frame") == "me" else nd.get("frame")
                if fx is None:
                    if nd["aux"] in ("any", "all"):
                        continue
                    exp = done[nd["aux"]]
                else:
                    auxes = S.plain_auxes(F, fx)
                    if nd["aux"] == "any":
                        exp = any(done[x] for x in auxes)
                    elif nd["aux"] == "all":
                        exp = bool(auxes) and all(done[x] for x in auxes)
                    else:
                        exp = done[nd["aux"]] if nd["aux"] in auxes else False
            if nd.get("neg"):
                exp = not exp
            if bool(res) != bool(exp):
                fails.append(("c09-done-condition", "tick %d: %s on line %d evaluated %r but the completion state says %r" % (t, nd, line, res, exp)))
    # an auxiliary framer runs once per run of its main framer (which runs at most once per tick): none of its frames
    # does its recur actions twice in one tick without being entered again in between, whoever lists it
    # (a frame that is exited and entered again within the tick - e.g. the aux completes as the conditional aux of one
    # frame and is then entered as the plain aux of the frame the transition leads to - starts a new count)
    seen = {}
    for t, e in E:
        if e[0] == "f" and roles.get(e[1]) == "aux":
            k = (t, e[1], e[2])
            if e[3] == "enter":
                seen[k] = 0
            elif e[3] == "recur":
                seen[k] = seen.get(k, 0) + 1
                if seen[k] > 1:
                    fails.append(("c09-aux-ran-twice-in-a-tick", "tick %d: frame %s of auxiliary %s did its recur actions %d times "
                                  "without being entered again in between" % (t, e[2], e[1], seen[k])))
                    break
    return fails


# --------------------------------------------------------------------------------------- C10
def inv_c10(prog, trace):
    """Conditional auxiliary: entered+run once when conditions hold; then runs every tick
    regardless of conditions; frames below the main frame suspended; resumes without re-entry."""
    S = Static(prog)
    fails = []
    E = flat(trace)
    n = len(E)
    running = {}   # (F, line) -> {"main": M, "aux": A}
    entered = {}
    for i, (t, e) in enumerate(E):
        if e[0] == "f" and e[3] == "enter":
            st = entered.setdefault(e[1], [])
            if e[2] not in st:
                st.append(e[2])
        elif e[0] == "f" and e[3] == "exit":
            st = entered.get(e[1], [])
            if e[2] in st:
                st.remove(e[2])
            # main frame exit ends every conditional aux of that frame
            for key, info in list(running.items()):
                if key[0] == e[1] and info["main"] == e[2]:
                    # the aux must be exited with it: checked when the block ends (entered[aux] empty)
                    info["ending"] = True
        if e[0] == "f" and e[3] in ("recur", "precur") and e[1] in S.framers:
            F, X = e[1], e[2]
            for key, info in running.items():
                if key[0] != F or info.get("ending") or info.get("since") == i:
                    continue
                M = info["main"]
                full = S.outline(F, M)
                if X in full and full.index(X) > full.index(M):
                    # allowed only in the block where the aux completed (resume in the same tick)
                    fails.append(("c10-suspended-frame-ran", "tick %d: frame %s of %s did %s while conditional aux %s of main %s is running" % (
                        t, X, F, e[3], info["aux"], M)))
        if e[0] == "act" and e[5] == "auxif":
            F, M, line, res = e[1], e[2], e[4], e[6]
            fr, f, a = S.act_by_line(line)
            A = a["name"]
            key = (F, line)
            # nested events of this act: up to the next event of framer F at frame level / precur act of F
            j = i + 1
            nested = []
            while j < n:
                e2 = E[j][1]
                if (e2[0] in ("act", "f", "state") and e2[1] == F) and not (e2[0] == "act" and e2[3] == "benter"):
                    break
                nested.append(e2)
                j += 1
            was_running = key in running and not running[key].get("ending")
            needs_evald = [x for x in nested if x[0] == "need" and x[1] == F and x[3] == line]
            aux_enters = [x for x in nested if x[0] == "f" and x[1] == A and x[3] == "enter"]
            aux_recurs = [x for x in nested if x[0] == "f" and x[1] == A and x[3] == "recur"]
            aux_precurs = [x for x in nested if x[0] == "f" and x[1] == A and x[3] == "precur"]
            aux_exits = [x for x in nested if x[0] == "f" and x[1] == A and x[3] == "exit"]
            if was_running:
                if needs_evald:
                    fails.append(("c10-conditions-rechecked-while-running", "tick %d: conditional aux %s of %s is running but its conditions were evaluated again" % (t, A, M)))
                if aux_enters and not aux_exits:
                    fails.append(("c10-reentered-while-running", "tick %d: conditional aux %s entered again while running" % (t, A)))
                if not aux_recurs and not aux_exits:
                    fails.append(("c10-not-run-while-running", "tick %d: running conditional aux %s was not run this tick" % (t, A)))
                if res is True:
                    pass
                else:
                    # replay the aux's own enter/exit events of this run: nothing may stay entered
                    ent = list(entered.get(A, []))
                    for x in nested:
                        if x[0] == "f" and x[1] == A:
                            if x[3] == "enter" and x[2] not in ent:
                                ent.append(x[2])
                            elif x[3] == "exit" and x[2] in ent:
                                ent.remove(x[2])
                    if ent:
                        fails.append(("c10-completed-not-exited", "tick %d: conditional aux %s completed but frames %r stay entered" % (t, A, ent)))
                    running.pop(key, None)
                    # resume: lower frames recur in this tick without enter events
                    full = S.outline(F, M)
                    lower = full[full.index(M) + 1:] if M in full else []
                    active_full = None
                    k = j
                    seen_recur = set()
                    while k < n:
                        e2 = E[k][1]
                        if e2[0] == "state" and e2[1] == F:
                            break
                        if e2[0] == "act" and e2[1] == F and e2[5] in ("go",) and e2[6] is True:
                            seen_recur = None
                            break
                        if e2[0] == "f" and e2[1] == F and e2[3] == "enter" and e2[2] in lower:
                            fails.append(("c10-resumed-frame-reentered", "tick %d: frame %s below main %s re-entered on completion of %s" % (t, e2[2], M, A)))
                        if e2[0] == "f" and e2[1] == F and e2[3] == "recur":
                            seen_recur.add(e2[2])
                        k += 1
            else:
                if res is True:
                    if len(aux_recurs) < 1 or not aux_enters:
                        fails.append(("c10-activation-incomplete", "tick %d: conditional aux %s activated without enter+run (enters %r recurs %r)" % (
                            t, A, aux_enters, aux_recurs)))
                    running[key] = {"main": M, "aux": A, "since": i}
                    # main frame's later preacts are skipped in this tick
                    k = j
                    while k < n:
                        e2 = E[k][1]
                        if e2[0] == "f" and e2[1] == F and e2[3] == "recur":
                            break
                        if e2[0] == "state" and e2[1] == F:
                            break
                        if e2[0] == "act" and e2[1] == F and e2[3] == "precur":
                            fails.append(("c10-later-clause-not-skipped", "tick %d: %r evaluated after conditional aux %s of %s started suspending" % (t, e2, A, M)))
                            break
                        k += 1
                else:
                    # not running and result falsy: either conditions false / refused, or it completed
                    # within its first run: then it must have been entered, run once and fully exited
                    if aux_enters:
                        ent = []
                        for x in nested:
                            if x[0] == "f" and x[1] == A:
                                if x[3] == "enter" and x[2] not in ent:
                                    ent.append(x[2])
                                elif x[3] == "exit" and x[2] in ent:
                                    ent.remove(x[2])
                        if ent or not aux_recurs:
                            fails.append(("c10-immediate-completion-not-clean", "tick %d: conditional aux %s entered %d frames, ran %d, exited %d" % (
                                t, A, len(aux_enters), len(aux_recurs), len(aux_exits))))
            if was_running and res is True:
                # while it keeps running the main frame's later clauses are skipped too
                k = j
                while k < n:
                    e2 = E[k][1]
                    if e2[0] == "f" and e2[1] == F and e2[3] == "recur":
                        break
                    if e2[0] == "state" and e2[1] == F:
                        break
                    if e2[0] == "act" and e2[1] == F and e2[3] == "precur":
                        fails.append(("c10-later-clause-not-skipped", "tick %d: %r evaluated while conditional aux %s of %s is running" % (t, e2, A, M)))
                        break
                    k += 1
        if e[0] == "state":
            F = e[1]
            for key, info in list(running.items()):
                if key[0] == F and info.get("ending"):
                    if entered.get(info["aux"]):
                        fails.append(("c10-not-exited-with-main", "tick %d: main frame %s of %s exited but conditional aux %s still has entered frames %r" % (
                            t, info["main"], F, info["aux"], entered.get(info["aux"]))))
                    del running[key]
            if e[2] not in ("started", "running"):
                for key in [k for k in running if k[0] == F]:
                    del running[key]
    return fails


# --------------------------------------------------------------------------------------- C20
def inv_c20(prog, trace):
    """'is updated' / 'is changed' against an event-history model (writes, entry resets,
    taken-transition resets), independent of ioflo's Mark fields. Requires programs whose data
    acts are literal put/set/inc on value fields and at most one marker need per act."""
    S = Static(prog)
    fails = []
    value = {}
    last_write = {}
    for p, v in prog.get("inits", []):
        value[p] = v
    marks = {}      # (share, key) -> {"reset": tick|None, "transit": tick|None, "snap": value, "has": bool}
    acts = {}
    for fr in prog["framers"]:
        for f in fr["frames"]:
            for a in f["acts"]:
                acts[a["line"]] = (fr["name"], f["name"], a)

    def marker_of(line):
        F, X, a = acts[line]
        for j, n in enumerate(a.get("needs") or []):
            if n["kind"] in ("updated", "changed"):
                target = n.get("frame")
                tf = X if (not target or target == "me") else target
                key = F + "<" + (n["by"] if n.get("by") else tf)
                return j, n, (n["share"], key)
        return None, None, None

    EV = list(flat(trace))
    extra = {}      # share -> {field: value} added by injected external writes

    def whole(sh):
        return (value.get(sh), tuple(sorted(extra.get(sh, {}).items())))
    for idx, (t, e) in enumerate(EV):
        if e[0] == "inject":
            extra.setdefault(e[1], {})[e[2]] = e[3]
            last_write[e[1]] = t
        elif e[0] == "act" and e[5] in ("put", "set", "inc"):
            F, X, a = acts[e[4]]
            if e[5] == "inc":
                value[a["dst"]] = value.get(a["dst"], 0) + a["val"]
            else:
                value[a["dst"]] = a["val"]
            last_write[a["dst"]] = t
        elif e[0] == "act" and e[5] == "mark":
            j, n, mk = marker_of(e[4])
            if mk is None:
                continue
            m = marks.setdefault(mk, {"reset": None, "transit": None, "snap": None, "has": False, "kinds": set()})
            # one mark (share, key) may serve an updated and a changed need: each marker act resets its own kind
            if n["kind"] == "updated":
                m["reset"] = t
            else:
                m["snap"] = whole(n["share"])
                m["has"] = True
        elif e[0] == "tract":
            j, n, mk = marker_of(e[3])
            if mk is None:
                continue
            # the mark is reset by a transition that is TAKEN: the go act that owns this transit action must
            # report success (a transition refused by the entry check of its target leaves the mark alone)
            if acts[e[3]][2]["kind"] == "go":
                res = None
                for t2, e2 in reversed(EV[:idx]):     # the act event of an action precedes its sub-events
                    if e2[0] == "act" and e2[4] == e[3] and e2[5] == "go":
                        res = e2[6]
                        break
                if res is not None and not res:
                    fails.append(("c20-reset-without-transition", "tick %d: the transit (mark reset) action of `go` line %d ran although "
                                  "the transition was not taken (refused by the entry check of its target)" % (t, e[3])))
            m = marks.setdefault(mk, {"reset": None, "transit": None, "snap": None, "has": False, "kinds": set()})
            if n["kind"] == "updated":
                m["reset"] = t
                m["transit"] = t
            else:
                m["snap"] = whole(n["share"])
                m["has"] = True
        elif e[0] == "need":
            F, X, line, idxn, res = e[1], e[2], e[3], e[4], e[5]
            if line not in acts:
                continue
            j, n, mk = marker_of(line)
            if n is None or j != idxn:
                continue
            m = marks.get(mk, {"reset": None, "transit": None, "snap": None, "has": False})
            sh = n["share"]
            if n["kind"] == "updated":
                lw = last_write.get(sh)
                if lw is None:
                    exp = False
                elif m["reset"] is None:
                    exp = True
                else:
                    exp = lw > m["reset"] or (lw == m["reset"] and m["transit"] != m["reset"])
            else:
                exp = True if not m["has"] else (whole(sh) != m["snap"])
            if n.get("neg"):
                exp = not exp
            if bool(res) != bool(exp):
                fails.append(("c20-%s" % n["kind"], "tick %d: `%s` (line %d) evaluated %r; history says %r (last write tick %r, last reset tick %r, "
                              "last taken-transition reset tick %r, value %r, snapshot %r/%s)" % (
                                  t, n, line, res, exp, last_write.get(sh), m["reset"], m["transit"], value.get(sh), m["snap"], m["has"])))
    return fails


# --------------------------------------------------------------------------------------- C04
def inv_c04(prog, trace):
    """Bids decide the control a taskable receives at its next run (last bid wins); slaves are
    run only by fiats; each fiat reports whether the requested state was reached."""
    S = Static(prog)
    roles = S.roles()
    fails = []
    acts = {}
    for fr in prog["framers"]:
        for f in fr["frames"]:
            for a in f["acts"]:
                acts[a["line"]] = (fr["name"], f["name"], a)
    taskables = [n for n, r in roles.items() if r in ("active", "inactive")]
    desire = {n: ("start" if roles[n] == "active" else "stop") for n in taskables}
    status = {n: "stopped" for n in roles}
    pending_post = {}
    E = flat(trace)
    n = len(E)
    want = {"ready": "readied", "start": "started", "run": "running", "stop": "stopped", "abort": "aborted"}
    for i, (t, e) in enumerate(E):
        if e[0] == "act" and e[5] == "bid":
            F, X, a = acts[e[4]]
            for tg in a["targets"]:
                if tg == "all":
                    names = taskables
                elif tg == "me":
                    names = [F]
                else:
                    names = [tg]
                for nm in names:
                    if nm in desire:
                        desire[nm] = a["verb"]
        elif e[0] == "send":
            T, c, s = e[1], e[2], e[3]
            if T not in roles:
                continue
            prev = E[i - 1][1] if i > 0 else None
            by_fiat = bool(prev and prev[0] == "act" and prev[5] == "fiat" and acts[prev[4]][2]["target"] == T
                           and acts[prev[4]][2]["verb"] == c)
            if roles[T] == "slave":
                if not by_fiat:
                    fails.append(("c04-slave-run-without-fiat", "tick %d: slave %s received %s not from a fiat (previous event %r)" % (t, T, c, prev)))
                else:
                    res = prev[6]
                    if s in want.values() and bool(res) != (s == want[c]):
                        fails.append(("c04-fiat-result", "tick %d: fiat %s %s returned %r but the slave's status is %s" % (t, c, T, res, s)))
            elif roles[T] in ("active", "inactive"):
                final_sweep = (t == len(trace["ticks"])) and c == "abort" and desire.get(T) != "abort"
                if not by_fiat and not final_sweep and s not in ("raised", "dead"):
                    if c != desire[T]:
                        fails.append(("c04-control-not-last-bid", "tick %d: %s received control %s but the last bid / own request before this run was %s" % (
                            t, T, c, desire[T])))
            if T in desire and s not in ("raised", "dead"):
                p = status[T]
                live = p in ("started", "running")
                idle = p in ("stopped", "readied")
                if c == "run":
                    if idle:
                        desire[T] = "start"
                    elif not live:
                        desire[T] = "abort"
                elif c == "start":
                    if idle and s == "started":
                        desire[T] = "run"
                    elif idle:
                        pending_post[T] = "stop"
                    elif live:
                        desire[T] = "run"
                    else:
                        desire[T] = "abort"
                elif c == "stop":
                    if live:
                        desire[T] = "stop"
                    elif not idle:
                        desire[T] = "abort"
                elif c == "ready":
                    if idle and s != "readied":
                        pending_post[T] = "stop"
                    elif not idle and not live:
                        desire[T] = "abort"
                else:
                    pending_post[T] = "abort"
            if s in want.values():
                status[T] = s
        elif e[0] == "state":
            T = e[1]
            if T in pending_post:
                desire[T] = pending_post.pop(T)
    return fails


# --------------------------------------------------------------------------------------- C03
def inv_c03(prog, trace, crash=None):
    """However the run ends, every tasker still scheduled gets exactly one abort and nothing
    afterwards, and every swept framer (and its auxiliaries) leaves no frame entered."""
    S = Static(prog)
    roles = S.roles()
    fails = []
    E = flat(trace)
    taskables = [n for n, r in roles.items() if r in ("active", "inactive")]
    # exception contract
    if crash:
        if crash.get("between") or crash.get("exc") == "KeyboardInterrupt":
            if trace.get("exc"):
                fails.append(("c03-interrupt-reraised", "keyboard interrupt at %r made Skedder.run raise %s" % (crash, trace.get("exc"))))
        else:
            if trace.get("exc") != "Crash":
                fails.append(("c03-exception-not-reraised", "an exception raised by an action at %r was not re-raised by Skedder.run (got %r)" % (crash, trace.get("exc"))))
    elif trace.get("exc"):
        fails.append(("c03-unexpected-exception", "Skedder.run raised %s %s" % (trace.get("exc"), trace.get("exc_detail"))))
    # who is still scheduled when the run ends: taskables not aborted earlier and whose generator is alive
    gone = set()
    last_idx = {}
    sweep_start = None
    final_tick = len(trace["ticks"])
    # the sweep = the trailing sends with control abort that are not explained by a bid (desire)
    # find sends per taskable in order
    sends = [(i, t, e) for i, (t, e) in enumerate(E) if e[0] == "send" and e[1] in taskables]
    # walk backwards over the trailing abort sends of the final tick: these are the sweep
    aborted_before = set()
    dead = set()
    sweep = []
    k = len(sends) - 1
    seen = set()
    while k >= 0:
        i, t, e = sends[k]
        if t == final_tick and e[2] == "abort" and e[1] not in seen and e[3] not in ("raised", "dead"):
            sweep.append((i, e))
            seen.add(e[1])
            k -= 1
        else:
            break
    sweep.reverse()
    for i, t, e in sends[:k + 1]:
        if e[3] == "aborted":
            aborted_before.add(e[1])
        if e[3] in ("raised", "dead"):
            dead.add(e[1])
    # a send that raised kills that tasker's generator (and every generator the exception passed through)
    for t, e in E:
        if e[0] == "send" and e[3] == "raised":
            dead.add(e[1])
    # ambiguity: a tasker whose last regular control in the final tick was a bid-abort looks like a sweep entry;
    # then it is in aborted_before according to the status and must NOT be swept again
    expected = [n for n in taskables if n not in dead]
    swept = [e[1] for i, e in sweep]
    # taskers aborted earlier (status aborted yielded before the sweep) are not scheduled any more
    really_before = set()
    for i, t, e in sends[:k + 1]:
        if e[3] == "aborted":
            really_before.add(e[1])
    expected = [n for n in expected if n not in really_before]
    if sorted(swept) != sorted(expected):
        fails.append(("c03-abort-sweep-set", "run ended (crash=%r): taskers sent the final abort %r, expected exactly %r (aborted earlier %r, dead generators %r)" % (
            crash, swept, sorted(expected), sorted(really_before), sorted(dead))))
    for i, e in sweep:
        if e[3] not in ("aborted",):
            fails.append(("c03-abort-sweep-status", "final abort of %s yielded %s" % (e[1], e[3])))
    # entered frames at the end
    stack = {}
    for t, e in E:
        if e[0] == "f" and e[3] == "enter":
            stack.setdefault(e[1], [])
            if e[2] not in stack[e[1]]:
                stack[e[1]].append(e[2])
        elif e[0] == "f" and e[3] == "exit":
            if e[2] in stack.get(e[1], []):
                stack[e[1]].remove(e[2])
    owner = {}
    for fr in prog["framers"]:
        for f in fr["frames"]:
            for a in f["acts"]:
                if a["kind"] == "aux":
                    owner.setdefault(a["name"], fr["name"])

    def root_owner(x):
        seenx = set()
        while x in owner and x not in seenx:
            seenx.add(x)
            x = owner[x]
        return x
    for F, st in stack.items():
        if not st or F not in roles:
            continue
        root = root_owner(F)
        if roles.get(root) in ("active", "inactive") and root not in dead:
            fails.append(("c03-frames-left-entered", "run ended (crash=%r): framer %s (root owner %s, scheduled and swept) still has entered frames %r" % (crash, F, root, st)))
    return fails
