"""Compare a real ioflo trace (vp.flo.run) with a reference trace (vp.flo.ref)."""
from fractions import Fraction


def _num_eq(a, b):
    try:
        return abs(float(a) - float(b)) <= 1e-9
    except (TypeError, ValueError):
        return a == b


def _val_eq(a, b):
    if isinstance(a, bool) or isinstance(b, bool):
        return isinstance(a, bool) and isinstance(b, bool) and a == b
    if isinstance(a, (int, float, Fraction)) and isinstance(b, (int, float, Fraction)):
        return _num_eq(a, b)
    return type(a) is type(b) and a == b


def diff_snap(real, ref, where):
    for name, rf in ref["framers"].items():
        rl = real["framers"].get(name)
        if rl is None:
            return ("snap-missing-framer", "%s: framer %s missing in real snapshot" % (where, name))
        for k in ("status", "active", "actives", "done", "recurred", "desire"):
            if rl[k] != rf[k]:
                return ("snap-%s" % k, "%s: framer %s %s real=%r ref=%r" % (where, name, k, rl[k], rf[k]))
        for k in ("elapsed", "period"):
            if not _num_eq(rl[k], rf[k]):
                return ("snap-%s" % k, "%s: framer %s %s real=%r ref=%r" % (where, name, k, rl[k], rf[k]))
    for path, rf in ref["shares"].items():
        rl = real["shares"].get(path)
        if rf is None:
            continue
        if rl is None:
            return ("snap-share-missing", "%s: share %s missing in real store" % (where, path))
        items = dict((k, v) for k, v in rl["items"])
        want = dict((k, v) for k, v in rf["items"])
        if set(items) != set(want):
            return ("snap-share-fields", "%s: share %s fields real=%r ref=%r" % (where, path, sorted(items), sorted(want)))
        for k in want:
            if k != "value" and not _val_eq(items[k], want[k]):
                return ("snap-share-value", "%s: share %s field %s real=%r ref=%r" % (where, path, k, items[k], want[k]))
        if not _val_eq(items["value"], rf["items"][0][1]):
            return ("snap-share-value", "%s: share %s value real=%r ref=%r" % (where, path, items["value"], rf["items"][0][1]))
        if rl["stamp"] != rf["stamp"]:
            return ("snap-share-stamp", "%s: share %s stamp(tick) real=%r ref=%r" % (where, path, rl["stamp"], rf["stamp"]))
    return None


def diff_events(real, ref, where):
    n = min(len(real), len(ref))
    for i in range(n):
        if list(real[i]) != list(ref[i]):
            return ("event-%s-vs-%s" % (real[i][0], ref[i][0]) if real[i][0] != ref[i][0] else "event-%s" % real[i][0],
                    "%s: event #%d real=%r ref=%r" % (where, i, real[i], ref[i]))
    if len(real) != len(ref):
        extra = real[n] if len(real) > n else ref[n]
        side = "real" if len(real) > n else "ref"
        return ("event-extra-%s-%s" % (side, extra[0]), "%s: %s has extra event #%d %r" % (where, side, n, extra))
    return None


def diff_traces(real, ref):
    """-> None or (sig, explanation) for the first divergence."""
    if real["build"] != ref["build"]:
        return ("build", "build outcome real=%s (%s) ref=%s" % (real["build"], real.get("detail", ""), ref["build"]))
    nt = min(len(real["ticks"]), len(ref["ticks"]))
    for i in range(nt):
        d = diff_events(real["ticks"][i]["events"], ref["ticks"][i]["events"], "tick %d" % i)
        if d:
            return d
        d = diff_snap(real["ticks"][i]["snap"], ref["ticks"][i]["snap"], "end of tick %d" % i)
        if d:
            return d
    if len(real["ticks"]) != len(ref["ticks"]):
        return ("run-length", "number of completed ticks real=%d ref=%d (real exc=%s)" % (
            len(real["ticks"]), len(ref["ticks"]), real.get("exc")))
    d = diff_events(real["final"]["events"], ref["final"]["events"], "last tick %d + abort sweep" % nt)
    if d:
        return d
    d = diff_snap(real["final"]["snap"], ref["final"]["snap"], "after run")
    if d:
        return d
    if real.get("exc") != ref.get("exc"):
        return ("exc", "exception out of Skedder.run real=%r (%s) ref=%r" % (real.get("exc"), real.get("exc_detail", ""), ref.get("exc")))
    if bool(real.get("interrupted")) != bool(ref.get("interrupted")):
        return ("interrupted", "tick bound hit real=%r ref=%r" % (real.get("interrupted"), ref.get("interrupted")))
    return None
