"""Hypothesis drivers in collect-then-classify mode, plus a structural (JSON) shrinker.

A check supplies `execute(value) -> Outcome`; a property failure is *returned* (signature +
explanation), never raised, so that one shallow defect does not end the campaign and hide
what lies behind it. After the campaign each distinct signature is shrunk once.
"""
import random
import time

from hypothesis import given, settings, HealthCheck, Phase, seed as hseed, find
from hypothesis.errors import NoSuchExample

from .acc import jsonable


class Outcome(object):
    __slots__ = ("failures", "nontrivial", "classes", "key", "sample")

    def __init__(self, failures=(), nontrivial=False, classes=(), key=None, sample=None):
        self.failures = list(failures)   # [(sig, what)]
        self.nontrivial = nontrivial
        self.classes = list(classes)
        self.key = key
        self.sample = sample


class Budget(object):
    def __init__(self, seconds):
        self.t0 = time.monotonic()
        self.seconds = seconds

    def left(self):
        return self.seconds - (time.monotonic() - self.t0)

    def out(self):
        return self.left() <= 0


def _settings(n, phases):
    return settings(max_examples=n, database=None, deadline=None, report_multiple_bugs=False,
                    phases=phases, suppress_health_check=list(HealthCheck), derandomize=False)


def campaign(acc, strategy, execute, n, seed, to_case=None, budget=None, shrink=True,
             max_sigs=4, shrink_examples=400):
    """Run `n` generated values through execute(); record into acc.

    to_case(value) -> JSON-serialisable case that the check's replay() understands
    (default: the value itself).
    """
    to_case = to_case or (lambda v: v)
    first = {}

    def prop(value):
        if budget is not None and budget.out():
            acc.budget_hit = True
            return
        out = execute(value)
        case = to_case(value)
        acc.case(key=out.key if out.key is not None else case, nontrivial=out.nontrivial,
                 classes=out.classes, sample=out.sample if out.sample is not None else case)
        for sig, what in out.failures:
            if sig not in first:
                first[sig] = (what, case)
            acc.fail(sig, what, case)

    test = hseed(seed)(_settings(n, [Phase.generate])(given(strategy)(prop)))
    test()

    if shrink and first:
        for sig in list(first)[:max_sigs]:
            if budget is not None and budget.left() < 2:
                break
            holder = {}

            def cond(v, sig=sig, holder=holder):
                try:
                    out = execute(v)
                except Exception:
                    return False
                for s, w in out.failures:
                    if s == sig:
                        holder["what"] = w
                        return True
                return False
            try:
                v = find(strategy, cond, settings=_settings(shrink_examples, [Phase.generate, Phase.shrink]),
                         random=random.Random(seed))
            except NoSuchExample:
                continue
            except Exception:
                continue
            cond(v)
            # put the minimal case first for this signature
            from .acc import Failure
            acc.failures[sig].insert(0, Failure(sig, "(shrunk) " + holder.get("what", first[sig][0]),
                                                jsonable(to_case(v))))
            del acc.failures[sig][3:]
    return acc


# ---------------------------------------------------------------------------------------
# structural shrinker over JSON-like cases (lists / strings / ints), delta debugging

def _candidates(x):
    """Yield simpler variants of x (one step)."""
    if isinstance(x, list):
        n = len(x)
        k = max(1, n // 2)
        while k >= 1:
            for i in range(0, n, k):
                yield x[:i] + x[i + k:]
            if k == 1:
                break
            k //= 2
        for i, v in enumerate(x):
            for c in _candidates(v):
                yield x[:i] + [c] + x[i + 1:]
    elif isinstance(x, dict):
        for k in sorted(x):
            for c in _candidates(x[k]):
                y = dict(x)
                y[k] = c
                yield y
    elif isinstance(x, str) and len(x) > 0:
        lines = x.split("\n")
        if len(lines) > 1:
            for c in _candidates(lines):
                if isinstance(c, list) and all(isinstance(s, str) for s in c):
                    yield "\n".join(c)
    elif isinstance(x, bool):
        return
    elif isinstance(x, int) and x != 0:
        yield 0
        if abs(x) > 1:
            yield x // 2
            yield x - 1 if x > 0 else x + 1


def shrink_json(case, still_fails, seconds=20.0):
    """Greedy delta debugging: repeatedly take the first simpler variant that still fails."""
    t0 = time.monotonic()
    improved = True
    while improved and time.monotonic() - t0 < seconds:
        improved = False
        for cand in _candidates(case):
            if time.monotonic() - t0 >= seconds:
                break
            try:
                ok = still_fails(cand)
            except Exception:
                ok = False
            if ok:
                case = cand
                improved = True
                break
    return case
