"""Process environment for checks: which tree of ioflo is imported, preamble, watchdogs."""
import os
import signal
import sys
import contextlib

# every check imports collections.abc first so that a regression of property C01
# (ioflo/aid/osetting.py relying on the host having imported it) does not make the other
# checks fail for the wrong reason. C01 itself uses clean subprocesses.
import collections.abc  # noqa: F401

REPO = os.environ.get("VP_REPO", "/repo")
VERIF = os.path.dirname(os.path.dirname(os.path.dirname(os.path.abspath(__file__))))
PYTHON = "/venv/bin/python"


def use_repo():
    """Make `import ioflo` resolve to REPO's working tree (default /repo).

    /venv has ioflo installed editable from /repo through a meta-path finder that is
    consulted after sys.path, so putting REPO first on sys.path makes a scratch worktree
    (VP_REPO=/some/worktree, used for sensitivity trials) win, and is a no-op for /repo.
    """
    if REPO not in sys.path:
        sys.path.insert(0, REPO)
    os.environ.setdefault("IOFLO_VERIF", "1")
    return REPO


def quiet_ioflo():
    use_repo()
    from ioflo.aid.consoling import getConsole
    console = getConsole()
    try:
        console.reinit(verbosity=0)
    except Exception:
        pass
    return console


def ioflo_tree_check():
    """Return the directory ioflo was really imported from (recorded in evidence)."""
    import ioflo
    return os.path.dirname(os.path.abspath(ioflo.__file__))


class Hang(BaseException):
    """Raised by the CPU-time watchdog. Deliberately not an Exception / OSError:
    ioflo's Builder.build catches IOError and bare excepts exist in places."""


@contextlib.contextmanager
def cpu_watchdog(seconds):
    """Raise Hang in the main thread when the block uses more than `seconds` CPU time."""
    def handler(signum, frame):
        raise Hang("cpu watchdog %ss" % seconds)
    old = signal.signal(signal.SIGVTALRM, handler)
    signal.setitimer(signal.ITIMER_VIRTUAL, seconds)
    try:
        yield
    finally:
        signal.setitimer(signal.ITIMER_VIRTUAL, 0)
        signal.signal(signal.SIGVTALRM, old)


def seed():
    try:
        return int(os.environ.get("VERIF_SEED", "1"))
    except ValueError:
        return 1
