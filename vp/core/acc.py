"""Mergeable accumulator of what a (shard of a) check run covered.

Every check worker returns one Acc; vp.cli merges them, classifies failures against the
known-findings file and writes the evidence file.
"""
import hashlib
import json
from collections import Counter

MAX_SAMPLES = 6
MAX_FAILS_PER_SIG = 3


def jsonable(x):
    """Best-effort conversion of a generated case to JSON-serialisable data."""
    if isinstance(x, (str, int, bool)) or x is None:
        return x
    if isinstance(x, float):
        if x != x or x in (float('inf'), float('-inf')):
            return repr(x)
        return x
    if isinstance(x, (bytes, bytearray, memoryview)):
        return {"hex": bytes(x).hex()}
    if isinstance(x, dict):
        return {str(k) if not isinstance(k, str) else k: jsonable(v) for k, v in x.items()}
    if isinstance(x, (list, tuple)):
        return [jsonable(v) for v in x]
    if isinstance(x, (set, frozenset)):
        return sorted((jsonable(v) for v in x), key=repr)
    try:
        from fractions import Fraction
        if isinstance(x, Fraction):
            return {"frac": [x.numerator, x.denominator]}
    except Exception:
        pass
    if isinstance(x, complex):
        return {"complex": [x.real, x.imag]}
    return repr(x)


def unjson(x):
    """Inverse of jsonable for the tagged forms (hex / frac / complex)."""
    if isinstance(x, dict):
        if set(x) == {"hex"}:
            return bytes.fromhex(x["hex"])
        if set(x) == {"frac"}:
            from fractions import Fraction
            return Fraction(x["frac"][0], x["frac"][1])
        if set(x) == {"complex"}:
            return complex(x["complex"][0], x["complex"][1])
        return {k: unjson(v) for k, v in x.items()}
    if isinstance(x, list):
        return [unjson(v) for v in x]
    return x


def digest(key):
    if not isinstance(key, (bytes, bytearray)):
        key = json.dumps(jsonable(key), sort_keys=True, default=repr).encode()
    return hashlib.blake2b(bytes(key), digest_size=8).digest()


class Failure(object):
    __slots__ = ("sig", "what", "case")

    def __init__(self, sig, what, case):
        self.sig = sig          # root-cause signature (string), used for bucketing / known findings
        self.what = what        # human explanation from the oracle
        self.case = case        # JSON-serialisable case that `replay` can re-execute

    def to_json(self):
        return {"sig": self.sig, "what": self.what, "case": jsonable(self.case)}


class Acc(object):
    def __init__(self):
        self.evaluations = 0
        self.nontrivial = set()       # 8-byte digests of distinct non-trivial cases
        self.classes = Counter()      # label -> count (distribution of generated shapes)
        self.samples = []             # few actual cases
        self._nt_samples = 0
        self.failures = {}            # sig -> [Failure]
        self.fail_counts = Counter()  # sig -> number of failing cases seen
        self.exhaustive = None        # True when a finite space was fully enumerated
        self.budget_hit = False       # time budget ended the search early (inconclusive part)
        self.notes = []
        self.extra = {}

    # ------------------------------------------------------------------ recording
    def case(self, key=None, nontrivial=False, classes=(), sample=None, n=1):
        """Record one executed case. key: canonical identity (for distinct counting)."""
        self.evaluations += n
        if nontrivial and key is not None:
            self.nontrivial.add(digest(key))
        for c in classes:
            self.classes[c] += 1
        if sample is not None:
            if nontrivial and self._nt_samples < 3:
                self.samples.append(jsonable(sample))
                self._nt_samples += 1
            elif len(self.samples) < 2 and not nontrivial:
                self.samples.append(jsonable(sample))

    def label(self, name, n=1):
        self.classes[name] += n

    def fail(self, sig, what, case):
        self.fail_counts[sig] += 1
        lst = self.failures.setdefault(sig, [])
        if len(lst) < MAX_FAILS_PER_SIG:
            lst.append(Failure(sig, what, jsonable(case)))

    def note(self, text):
        if text not in self.notes:
            self.notes.append(text)

    # ------------------------------------------------------------------ merging
    def merge(self, other):
        self.evaluations += other.evaluations
        self.nontrivial |= other.nontrivial
        self.classes.update(other.classes)
        for s in other.samples:
            if len(self.samples) < MAX_SAMPLES:
                self.samples.append(s)
        for sig, lst in other.failures.items():
            mine = self.failures.setdefault(sig, [])
            for f in lst:
                if len(mine) < MAX_FAILS_PER_SIG:
                    mine.append(f)
        self.fail_counts.update(other.fail_counts)
        if other.exhaustive is not None:
            self.exhaustive = other.exhaustive if self.exhaustive is None else (self.exhaustive and other.exhaustive)
        self.budget_hit = self.budget_hit or other.budget_hit
        for n in other.notes:
            self.note(n)
        for k, v in other.extra.items():
            if isinstance(v, (int, float)) and isinstance(self.extra.get(k), (int, float)):
                self.extra[k] += v
            else:
                self.extra.setdefault(k, v)
        return self
