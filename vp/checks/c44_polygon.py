"""C44 Point-in-polygon predicates agree with exact geometry (ioflo/aid/vectoring.py).

Generator
  * exhaustive: every ordered vertex sequence of 3 and 4 (quick: 4 reduced by rotation, i.e. first
    vertex = smallest; thorough: also 5, reduced by rotation) distinct points of the 4x4 integer grid that forms a simple
    polygon (both orientations, every start vertex) x all 36 points of the 6x6 grid around it;
  * Hypothesis: random polygons with up to 12 vertices built star-like (points sorted by exact
    direction around a centre), kept only when the harness's exact test says they are simple;
    coordinates |x|,|y| <= 50; probe points = every vertex, lattice points on edges, points
    level with / next to vertices, the centre and random points; vertex containers and points as
    tuples, lists or Pxy namedtuples; either orientation, any start vertex.
Oracle: exact integer/rational geometry, independent of the implementation's winding loop:
  boundary  = point on a closed edge segment (cross product 0 and inside the bounding box);
  interior  = not boundary and odd number of edge crossings of the rightward ray (half-open rule,
              crossing abscissa as exact Fraction); cross-checked in the harness against the upward
              ray (disagreement = harness error, not a verdict);
  inside(side) = interior or (boundary and side); outside(side) = exterior or (boundary and side);
  insideOnly = interior; outsideOnly = exterior; sideOnly = boundary;
  wind == 0 iff not interior, and for interior points wind = +1 for a counter clockwise polygon,
  -1 for a clockwise one (docstring of wind; orientation from the exact signed area).
"""
import math
from fractions import Fraction
from functools import cmp_to_key
from itertools import permutations

from hypothesis import strategies as st

from vp.core.acc import Acc
from vp.core.hyp import campaign, Outcome, Budget

PROPERTY = "C44"
LEVEL = "exploration"
RULE = ("exhaustive: all simple polygons given as ordered sequences of 3 and (rotation-reduced in quick) 4 (thorough also "
        "rotation-reduced 5) distinct points of the 4x4 grid, each probed at all 36 points of the surrounding 6x6 grid with wind, inside(side=T/F), "
        "outside(side=T/F), insideOnly, outsideOnly, sideOnly; plus Hypothesis random simple star-like polygons "
        "(<= 12 vertices, |coord| <= 50) probed at vertices, edge lattice points, points level with vertices and random "
        "points; oracle = exact rational geometry; non-trivial = probe on an edge or vertex or level with a vertex; "
        "distinct = vertex sequence (exhaustive part, 36 probes each) or (vertex sequence, container types, extra probes) in "
        "the random part (each with ~60-150 probes, counted in the rand-probe-* classes)")
ASSUMPTIONS = [
    "simple polygon = distinct vertices, non-adjacent edges disjoint, adjacent edges share only their common vertex "
    "(a vertex in the middle of a straight side is allowed); the closing edge is implicit",
    "predicate results are compared by truthiness; wind is compared as an integer",
    "wind sign convention from the docstring: positive = counter clockwise (positive signed area)",
]
META = {
    "level": "exploration",
    "text": "Every simple polygon with 3-4 (5 in the thorough tier) vertices on the 4x4 grid is enumerated and probed at "
            "every grid point including all on-edge, on-vertex and level-with-vertex positions, which are the only "
            "places where crossing-number code can go wrong; random larger polygons extend the shapes. The verdict is "
            "exact on the explored inputs and says nothing beyond them.",
    "note": "Trusts the harness's exact-geometry oracle (two independent rays cross-checked) and Python integers/Fractions.",
    "technique": "exhaustive small-scope enumeration + Hypothesis random polygons vs exact rational geometry (differential)",
    "design_ref": "DESIGN.md section 3, C44",
}


def _preload():
    """Import the ioflo modules under test once in the parent process (vp.cli imports this module after
    env.use_repo()), so that the forked shard workers do not each recompile ioflo (~1 s per shard)."""
    try:
        from vp.core import env
        env.use_repo()
        import ioflo.aid.vectoring
        import ioflo.base.globaling
    except Exception:       # the lazy imports inside the check functions report the real error
        pass


_preload()

GRID = [(x, y) for x in range(4) for y in range(4)]
PROBES = [(x, y) for x in range(-1, 5) for y in range(-1, 5)]


# ------------------------------------------------------------------------------- exact geometry
def cross(o, a, b):
    return (a[0] - o[0]) * (b[1] - o[1]) - (a[1] - o[1]) * (b[0] - o[0])


def on_seg(p, a, b):
    return (cross(a, b, p) == 0 and min(a[0], b[0]) <= p[0] <= max(a[0], b[0])
            and min(a[1], b[1]) <= p[1] <= max(a[1], b[1]))


def segs_touch(a, b, c, d):
    """True when closed segments ab and cd have at least one common point."""
    d1, d2 = cross(c, d, a), cross(c, d, b)
    d3, d4 = cross(a, b, c), cross(a, b, d)
    if ((d1 > 0 and d2 < 0) or (d1 < 0 and d2 > 0)) and ((d3 > 0 and d4 < 0) or (d3 < 0 and d4 > 0)):
        return True
    return on_seg(a, c, d) or on_seg(b, c, d) or on_seg(c, a, b) or on_seg(d, a, b)


def is_simple(vs):
    n = len(vs)
    if n < 3 or len(set(vs)) != n:
        return False
    for i in range(n):
        a, b = vs[i], vs[(i + 1) % n]
        for j in range(i + 1, n):
            c, d = vs[j], vs[(j + 1) % n]
            if j == i + 1 or (i == 0 and j == n - 1):
                # adjacent edges: shared vertex s, other ends p, q must not point the same way
                if j == i + 1:
                    s, p, q = b, a, d
                else:
                    s, p, q = a, b, c
                if cross(s, p, q) == 0 and ((p[0] - s[0]) * (q[0] - s[0]) + (p[1] - s[1]) * (q[1] - s[1])) > 0:
                    return False
            elif segs_touch(a, b, c, d):
                return False
    return True


def area2(vs):
    n = len(vs)
    return sum(vs[i][0] * vs[(i + 1) % n][1] - vs[(i + 1) % n][0] * vs[i][1] for i in range(n))


def classify(p, vs):
    """'boundary' | 'interior' | 'exterior' by exact arithmetic (vs simple)."""
    n = len(vs)
    px, py = p
    for i in range(n):
        if on_seg(p, vs[i], vs[(i + 1) % n]):
            return "boundary"
    right = 0
    up = 0
    for i in range(n):
        (ax, ay), (bx, by) = vs[i], vs[(i + 1) % n]
        if (ay > py) != (by > py):
            x = ax + Fraction((py - ay) * (bx - ax), by - ay)
            if x > px:
                right += 1
        if (ax > px) != (bx > px):
            y = ay + Fraction((px - ax) * (by - ay), bx - ax)
            if y > py:
                up += 1
    if (right % 2) != (up % 2):
        raise AssertionError("harness oracle rays disagree for p=%r vs=%r" % (p, vs))
    return "interior" if right % 2 else "exterior"


def expected(kind, orient):
    inter, bnd, ext = kind == "interior", kind == "boundary", kind == "exterior"
    return {
        "wind": (orient if inter else 0),
        "inside": inter or bnd,             # default side=True
        "inside(side=True)": inter or bnd,
        "inside(side=False)": inter,
        "outside": ext or bnd,              # default side=True
        "outside(side=True)": ext or bnd,
        "outside(side=False)": ext,
        "insideOnly": inter,
        "outsideOnly": ext,
        "sideOnly": bnd,
    }


def _mk(pt, kind):
    if kind == "list":
        return list(pt)
    if kind == "pxy":
        from ioflo.base.globaling import Pxy
        return Pxy(x=pt[0], y=pt[1])
    return tuple(pt)


def probe(p, vs, vkind="tuple", pkind="tuple", cont="list", klass=None, orient=None, explicit=True):
    """Run all predicates on (p, vs). Returns (fails, kind)."""
    from ioflo.aid import vectoring as V
    kind = klass or classify(p, vs)
    if orient is None:
        orient = 1 if area2(vs) > 0 else -1
    exp = expected(kind, orient)
    P = _mk(p, pkind)
    VS = [_mk(v, vkind) for v in vs]
    if cont == "tuple":
        VS = tuple(VS)
    calls = (
        ("wind", lambda: V.wind(P, VS)),
        ("inside", lambda: V.inside(P, VS)),
        ("inside(side=True)", lambda: V.inside(P, VS, side=True)),
        ("inside(side=False)", lambda: V.inside(P, VS, side=False)),
        ("outside", lambda: V.outside(P, VS)),
        ("outside(side=True)", lambda: V.outside(P, VS, side=True)),
        ("outside(side=False)", lambda: V.outside(P, VS, side=False)),
        ("insideOnly", lambda: V.insideOnly(P, VS)),
        ("outsideOnly", lambda: V.outsideOnly(P, VS)),
        ("sideOnly", lambda: V.sideOnly(P, VS)),
    )
    fails = []
    for name, fn in calls:
        if not explicit and name.endswith("(side=True)"):
            continue
        try:
            got = fn()
        except Exception as ex:
            fails.append(("%s-raises-%s" % (name.split("(")[0], type(ex).__name__),
                          "%s(p=%r, vs=%r) raised %r" % (name, P, VS, ex)))
            continue
        if name == "wind":
            if isinstance(got, bool) or not isinstance(got, int):
                fails.append(("wind-not-int", "wind(p=%r, vs=%r) = %r" % (P, VS, got)))
            elif (got == 0) != (exp["wind"] == 0):
                fails.append(("wind-zero-%s" % kind, "wind(p=%r, vs=%r) = %r but the point is %s (exact geometry)"
                              % (P, VS, got, kind)))
            elif got != exp["wind"]:
                fails.append(("wind-sign", "wind(p=%r, vs=%r) = %r, polygon is %s so %r expected"
                              % (P, VS, got, "counter clockwise" if orient > 0 else "clockwise", exp["wind"])))
        elif bool(got) != exp[name]:
            fails.append(("%s-wrong-%s" % (name.split("(")[0], kind),
                          "%s(p=%r, vs=%r) = %r but the point is %s (exact geometry) so %r expected"
                          % (name, P, VS, got, kind, exp[name])))
    return fails, kind


def level_with_vertex(p, vs):
    return any(v[1] == p[1] for v in vs)


# ------------------------------------------------------------------------------- exhaustive part
def plan(tier):
    shards = [{"part": "exh", "n": 3, "first": k} for k in range(4)]      # first vertex index = k mod 4
    if tier == "quick":     # 4 vertices reduced by rotation (first vertex has the smallest grid index)
        shards += [{"part": "exh", "n": 4, "first": f, "reduced": True} for f in range(13)]
    else:
        shards += [{"part": "exh", "n": 4, "first": f, "reduced": False} for f in range(16)]
    if tier == "thorough":
        shards += [{"part": "exh", "n": 5, "first": f, "second": s} for f in range(12) for s in range(f + 1, 16)]
    nrand = 4 if tier == "quick" else 16
    shards += [{"part": "rand", "i": i} for i in range(nrand)]
    return shards


def _polys(shard):
    n = shard["n"]
    if n == 3:
        for t in permutations(GRID, 3):
            if GRID.index(t[0]) % 4 == shard["first"]:
                yield t
    elif n == 4:
        f = GRID[shard["first"]]
        rest = [g for k, g in enumerate(GRID) if (k > shard["first"] if shard.get("reduced") else g != f)]
        for t in permutations(rest, 3):
            yield (f,) + t
    else:
        # 5 vertices, reduced by rotation: first vertex is the smallest grid index
        fi, si = shard["first"], shard["second"]
        f, s = GRID[fi], GRID[si]
        rest = [g for k, g in enumerate(GRID) if k > fi and k != si]
        for t in permutations(rest, 3):
            yield (f, s) + t


def work_exh(shard, acc):
    from collections import Counter
    lab = Counter()
    for vs in _polys(shard):
        if not is_simple(vs):
            lab["rejected-not-simple"] += 1
            continue
        orient = 1 if area2(vs) > 0 else -1
        kinds = Counter()
        for p in PROBES:
            fails, kind = probe(p, vs, orient=orient, explicit=False)
            kinds[kind] += 1
            if kind == "boundary":
                lab["probe-on-vertex" if p in vs else "probe-on-edge"] += 1
            else:
                lab["probe-" + kind] += 1
                if level_with_vertex(p, vs):
                    lab["probe-level-with-vertex-" + kind] += 1
            for sig, what in fails:
                acc.fail(sig, what, {"vs": [list(v) for v in vs], "p": list(p)})
        lab["poly-%d-vertices-%s" % (len(vs), "ccw" if orient > 0 else "cw")] += 1
        acc.case(key=repr(vs).encode(), nontrivial=kinds["boundary"] > 0, n=len(PROBES),
                 sample={"vs": [list(v) for v in vs], "probes": "all 36 grid points"} if lab["poly-sampled"] < 1 else None)
        lab["poly-sampled"] += 1
    del lab["poly-sampled"]
    for k, v in lab.items():
        acc.label(k, v)
    acc.exhaustive = True
    acc.note("every ordered sequence of 3 distinct 4x4-grid points and every sequence of 4 (quick: first vertex = smallest "
             "grid index, i.e. reduced by rotation; thorough: all ordered sequences, plus rotation-reduced sequences of 5) "
             "that is a simple polygon x all 36 probe points x 8 predicate calls")
    return acc


# ------------------------------------------------------------------------------- random part
def _dir_cmp(a, b):
    """Order direction vectors counter clockwise starting at the positive x axis (exact)."""
    ha = 0 if (a[1] > 0 or (a[1] == 0 and a[0] > 0)) else 1
    hb = 0 if (b[1] > 0 or (b[1] == 0 and b[0] > 0)) else 1
    if ha != hb:
        return -1 if ha < hb else 1
    c = a[0] * b[1] - a[1] * b[0]
    return -1 if c > 0 else (1 if c < 0 else 0)


def build_poly(center, offs, reverse, rot):
    """Star-like polygon from offsets around center; None when fewer than 3 distinct directions."""
    seen = {}
    for o in offs:
        if o == (0, 0):
            continue
        g = math.gcd(abs(o[0]), abs(o[1]))
        d = (o[0] // g, o[1] // g)
        if d not in seen:
            seen[d] = o
    pts = sorted(seen.values(), key=cmp_to_key(_dir_cmp))
    if len(pts) < 3:
        return None
    vs = [(center[0] + o[0], center[1] + o[1]) for o in pts]
    if reverse:
        vs.reverse()
    rot %= len(vs)
    return tuple(vs[rot:] + vs[:rot])


def probes_for(vs, center, extra):
    out = []
    seen = set()

    def add(p, why):
        if p not in seen:
            seen.add(p)
            out.append((p, why))
    n = len(vs)
    for v in vs:
        add(v, "vertex")
    for i in range(n):
        a, b = vs[i], vs[(i + 1) % n]
        g = math.gcd(abs(b[0] - a[0]), abs(b[1] - a[1]))
        if g > 1:
            sx, sy = (b[0] - a[0]) // g, (b[1] - a[1]) // g
            for k in sorted(set([1, g // 2, g - 1])):
                if 0 < k < g:
                    add((a[0] + k * sx, a[1] + k * sy), "edge-lattice")
        # just past the ends of the edge, on its supporting line
        add((b[0] + (b[0] - a[0]) // g, b[1] + (b[1] - a[1]) // g), "edge-line-beyond")
    for v in vs:
        for d in ((1, 0), (-1, 0), (0, 1), (0, -1), (-7, 0), (9, 0)):
            add((v[0] + d[0], v[1] + d[1]), "near-vertex")
    add(tuple(center), "centre")
    for p in extra:
        add(tuple(p), "random")
    return out


def run_random(value):
    """value = dict(center, offs, reverse, rot, extra, vkind, pkind, cont). Returns list of per-probe results."""
    vs = build_poly(tuple(value["center"]), [tuple(o) for o in value["offs"]], value["reverse"], value["rot"])
    if vs is None or not is_simple(vs):
        return None, []
    res = []
    for p, why in probes_for(vs, value["center"], value["extra"]):
        fails, kind = probe(p, vs, vkind=value["vkind"], pkind=value["pkind"], cont=value["cont"])
        res.append((p, why, kind, fails))
    return vs, res


def _strategy():
    coord = st.integers(-40, 40)
    off = st.tuples(coord, coord)
    return st.fixed_dictionaries({
        "center": st.tuples(st.integers(-10, 10), st.integers(-10, 10)),
        "offs": st.one_of(st.lists(off, min_size=3, max_size=6), st.lists(off, min_size=5, max_size=12),
                          st.lists(st.tuples(st.integers(-6, 6), st.integers(-6, 6)), min_size=3, max_size=12)),
        "reverse": st.booleans(),
        "rot": st.integers(0, 11),
        "extra": st.lists(st.tuples(st.integers(-50, 50), st.integers(-50, 50)), min_size=0, max_size=8),
        "vkind": st.sampled_from(["tuple", "tuple", "list", "pxy"]),
        "pkind": st.sampled_from(["tuple", "tuple", "list", "pxy"]),
        "cont": st.sampled_from(["list", "tuple"]),
    })


def work(shard, seed, tier):
    acc = Acc()
    if shard["part"] == "exh":
        return work_exh(shard, acc)
    n = 250 if tier == "quick" else 4000

    def execute(value):
        vs, res = run_random(value)
        if vs is None:
            return Outcome([], nontrivial=False, classes=["rand-rejected-degenerate-or-not-simple"], key=("rej", repr(value["offs"])))
        fails = []
        nt = 0
        cls = []
        for p, why, kind, pf in res:
            level = level_with_vertex(p, vs)
            nt += (kind == "boundary" or level)
            cls += ["rand-probe-" + kind, "rand-probe:" + why]
            if level and kind != "boundary":
                cls.append("rand-probe-level-with-vertex-" + kind)
            fails.extend(pf)
        cls += ["rand-poly-%02d-vertices" % len(vs), "rand-poly-" + ("ccw" if area2(vs) > 0 else "cw"),
                "rand-types-%s/%s/%s" % (value["cont"], value["vkind"], value["pkind"])]
        return Outcome(fails, nontrivial=nt > 0, classes=cls,
                       key=("poly", repr(vs), value["vkind"], value["pkind"], value["cont"], repr(value["extra"])),
                       sample={"vs": [list(v) for v in vs], "probes": len(res)})

    campaign(acc, _strategy(), execute, n, seed * 1000 + shard["i"],
             to_case=lambda v: {"random": v}, budget=Budget(120 if tier == "quick" else 900))
    return acc


def replay(case):
    if "random" in case:
        v = case["random"]
        vs, res = run_random(v)
        out = []
        for p, why, kind, pf in res:
            out.extend(pf)
        return out
    vs = tuple(tuple(v) for v in case["vs"])
    if not is_simple(vs):
        return []
    if case.get("p") is not None:
        return probe(tuple(case["p"]), vs)[0]
    out = []
    for p in PROBES:
        out.extend(probe(p, vs)[0])
    return out
