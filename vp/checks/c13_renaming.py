"""C13 Relative store addressing is invariant under consistent renaming.

Generator (vp.flo.metagen.addr_program): programs with 1-2 active framers and 0-2 moot framers
(cloned with `aux moot as tag|mine [via main|mine|me|inode]`, also nested), 1-3 frames each
(optionally nested with `in`), framer / frame / do / aux level `via` inodes (relative, absolute,
`me.`, `of framer [name]`, `of me`, at do level every reference form) and put / copy / inc /
set / go-needs / do (as / via / per / from) commands whose operands mix every addressing
form: absolute, root-relative (`x`, `x of root`), `of me` / `me.x`, `of framer [me|name|main]`,
`of frame [me|name|main] [of framer name]`, `of actor [me|name of frame .. of framer ..]`, and
the inline forms `framer.me.` / `framer.<name>.` / `frame.me.` / `frame.<name>.` /
`framer.<name>.frame.<name>.` / `actor.me.` / `framer.main.` / `frame.main.`.
The script is a list of token *templates* over a name map, so rendering it with one name
replaced by the fresh identifier `zulu` is a consistent renaming by construction; name pools
are disjoint from every other word. EVERY single renaming of a framer, frame, actor (`do .. as
name`) or named clone tag is executed for every program.

Oracle 1 (metamorphic, all programs): store paths (shares and nodes) after build of the renamed
program == { rename(p) : p in paths of the original }, and the i-th share/node reference held
by act parameters (nested needs included) == rename(i-th reference of the original), where
rename changes exactly the designated segment: `.framer.<F>` (for a framer, also the
`_`-separated components of derived clone names `<main>_<tag>`, insular tags `<original><n>`),
`.framer.<owner or its clones>.frame.<N>` (frame), `.framer.*.frame.*.actor.<A>` (actor).
Oracle 2 (direct, documented simple forms only): for put / copy operands in non-cloned framers
the resolved path is the one the docstrings / example plans state (absolute untouched;
`of framer` -> .framer.F.x; `of frame` -> .framer.F.frame.N.x; `of actor` -> ...actor.<camel
name split>.x; root-relative -> framer inode + frame inode chain + x; `of me` -> framer inode + x).
"""
import json

from hypothesis import strategies as st

from vp.core.acc import Acc
from vp.core.hyp import campaign, Outcome, Budget
from vp.flo import metagen

PROPERTY = "C13"
LEVEL = "exploration"
RULE = ("Hypothesis-generated programs mixing absolute, root-relative, of me, of framer/frame/actor [name], "
        "inline framer.me/frame.me/actor.me/framer.main/frame.main/explicit-name and via-inode references at "
        "framer, frame, do and aux level, with named / insular / nested clones; for each program EVERY single "
        "renaming of one framer, frame, actor or clone-tag name to a fresh identifier is built and its store "
        "paths and act-parameter share references compared with the renamed originals; plus a direct expected-"
        "path check of put/copy operands in non-cloned framers. non-trivial program = at least one renaming "
        "changes a share reference held by an act parameter (the renamed entity is reached by a relative "
        "path); distinct = distinct program text")
ASSUMPTIONS = [
    "clone framers are named <main surname>_<tag>, insular tags <original><n> (framing.Framer.resolveMoots / "
    "newMootTag); the renaming map therefore also rewrites the '_'-separated components of a .framer.<seg> "
    "segment that equal the old name (followed by digits for insular tags); generated names contain no '_' "
    "and no digits",
    "an actor named with `do .. as word` is addressed by the path segment <word> (aiding.nameToPath of the "
    "capitalised word); actor names are unique in a program, frame names are unique except that two active "
    "framers of a clone-free program may share one frame name (separate name spaces)",
    "only paths are compared (shares and nodes after build, and the references in act parameters), not values",
    "direct oracle: leading-dot paths are taken verbatim; `of framer|frame|actor` and the inline framer./frame./"
    "actor. forms resolve as in the Act.resolvePath docstring; root-relative and me-relative operands follow "
    "the inode rules documented by app/plan/testNestedViaFrame.flo (framer inode, then over-frame inodes top "
    "down, `me.` frame inode drops the over frames' inodes, `x of me` skips frame inodes); it is applied only "
    "to put/copy operands of framers that are neither moot nor clones, and only when every inode involved "
    "is of a plain kind (none, rel, rel., me.rel for frames; none, rel, rel., absolute for framers)",
]
META = {
    "level": "exploration",
    "text": "Every reference form of the grammar is generated in every position that resolves through "
            "Act.resolvePath, and every entity of every program is renamed once; the comparison covers the whole "
            "store path set and every share reference held by an act. A direct expected-path oracle on the "
            "documented simple forms anchors the metamorphic relation (which alone is blind to mistakes that are "
            "consistent under renaming). Absence is shown on the generated programs only.",
    "note": "Trusts the derived-clone-name rule and the documented inode rules listed in the assumptions.",
    "technique": "metamorphic consistent-renaming relation over generated programs (exhaustive over the names of each program) + partial reference model of path resolution",
    "design_ref": "DESIGN.md section 3, C13",
}


# ------------------------------------------------------------------------------ building
def build_paths(text):
    """-> (outcome, sorted paths, [act share refs], houses or None)"""
    from vp.flo.build import build_text
    from vp.flo import dump
    b = build_text(text, cpu_limit=30)
    if not (b.ok and b.exc is None):
        return b.outcome, None, None, None, (str(b.exc)[:200] if b.exc is not None else "build returned False")
    paths = []
    for h in b.houses:
        paths.extend(dump.dump_store(h.store, values=False).keys())
    # Share.name / Node.name carry no leading dot; store paths are written with it
    refs = [r[1] if r[1].startswith(".") else "." + r[1] for r in dump.act_shares(b.houses)]
    return "ok", sorted(paths), refs, b.houses, ""


# ------------------------------------------------------------------------------ the renaming map on paths
def clone_tags_of(prog, owner_sym):
    """names (strings) of the named clone tags used to clone framer owner_sym"""
    out = []
    for ind, toks in prog["lines"]:
        if toks[0] == "aux" and toks[1] == "{%s}" % owner_sym and "as" in toks:
            tag = toks[toks.index("as") + 1]
            if tag != "mine":
                out.append(tag.format(**prog["names"]))
    return out


def make_renamer(prog, kind, sym, new):
    names = prog["names"]
    old = names[sym]
    owner_name = None
    owner_tags = ()
    if kind == "frame":
        fi = int(sym[1:].split("_")[0])
        owner_sym = prog["framers"][fi]
        owner_name = names[owner_sym]
        owner_tags = tuple(clone_tags_of(prog, owner_sym))

    def comp(c):
        if c == old:
            return new
        if kind == "framer" and c.startswith(old) and c[len(old):].isdigit():
            return new + c[len(old):]       # insular clone tag <original><n>
        return c

    def in_family(seg):
        """seg names the owner framer or one of its clones"""
        if seg == owner_name:
            return True
        last = seg.split("_")[-1]
        if "_" in seg and (last in owner_tags or (last.startswith(owner_name) and last[len(owner_name):].isdigit())):
            return True
        return False

    def rename(path):
        segs = path.split(".")
        if len(segs) > 2 and segs[0] == "" and segs[1] == "framer":
            if kind in ("framer", "tag"):
                segs[2] = "_".join(comp(c) for c in segs[2].split("_"))
            elif kind == "frame":
                if len(segs) > 4 and segs[3] == "frame" and segs[4] == old and in_family(segs[2]):
                    segs[4] = new
            elif kind == "actor":
                # an actor name of several parts (`as wolf x y`) is the run of segments wolf.x.y
                o, n = old.split(), new.split()
                if len(segs) >= 6 + len(o) and segs[3] == "frame" and segs[5] == "actor" and segs[6:6 + len(o)] == o:
                    segs[6:6 + len(o)] = n
        return ".".join(segs)

    return rename


# ------------------------------------------------------------------------------ direct oracle
def _camel_path(name):
    out = []
    for ch in name:
        if ch.isupper():
            out.append(".")
            out.append(ch.lower())
        else:
            out.append(ch)
    return "".join(out).strip(".")


def direct_expectations(prog, houses):
    """[(line no, parm key, expected path, got path, form)] for put/copy operands of plain framers."""
    from ioflo.base import framing
    names = prog["names"]
    out = []
    framers = {}
    for h in houses:
        for t in h.taskers:
            if isinstance(t, framing.Framer):
                framers[t.name] = t
    everyone = dict(framers)
    for h in houses:      # clones are registered in the house's tasker registry only
        for t in list(getattr(h, "names", {}).get("tasker", {}).values()):
            if isinstance(t, framing.Framer):
                everyone.setdefault(t.name, t)
    jobs = []
    for line_index, ns, operands in prog["direct"]:
        info = prog["frinfo"][ns]
        fi = info["framer"]
        fsym = prog["framers"][fi]
        if prog["moot"][fi]:
            # every clone of the moot: same frame names, same command line numbers; its main frame / main framer are
            # the frame holding the aux clause and that frame's framer
            for t in everyone.values():
                if getattr(t, "main", None) is not None and not getattr(t, "original", True) and names[ns] in t.frameNames:
                    jobs.append((line_index, ns, operands, fi, fsym, t, True))
        else:
            t = framers.get(names[fsym])
            if t is not None:
                jobs.append((line_index, ns, operands, fi, fsym, t, False))
    for line_index, ns, operands, fi, fsym, framer, is_clone in jobs:
        fname, nname = framer.name, names[ns]
        frame = framer.frameNames.get(nname)
        if frame is None:
            continue
        act = None
        for a in frame.enacts:
            # Builder has already read the look-ahead line when it dispatches a command, so the act
            # of the command on (1-based) file line n carries count n + 1 in a script without blank lines
            if a.count == line_index + 2 and type(a.actor).__name__ in ("PokeDirect", "PokeIndirect"):
                act = a
        if act is None and operands and operands[0][0] == "need0":
            for a in frame.preacts:
                if a.count == line_index + 2 and isinstance(a.parms, dict) and a.parms.get("needs"):
                    act = a
        if act is None:
            continue
        mainframe = framer.main if is_clone else None
        # inode prefix of the framer and of the frame chain (None when not of a plain kind)
        fin = prog["finodes"].get(fsym)
        if fin is None:
            fprefix = []
        elif fin[0] in ("rel", "rel."):
            fprefix = [fin[1]]
        elif fin[0] == "abs":
            fprefix = ["", "top", fin[1]]
        elif fin[0] == "offramernamed" and len(fin) > 2:
            fprefix = ["framer", names[fin[2]], fin[1]]      # `via w of framer NAME`: the named framer, whoever is being built
        elif fin[0] == "offramer":
            fprefix = ["framer", fname, fin[1]]
        else:
            fprefix = None
        chain = []
        plain = True
        cur = ns
        seq = []
        while cur is not None:
            seq.append(cur)
            cur = prog["frinfo"][cur]["over"]
        for fr in reversed(seq):      # top down
            ik = prog["frinfo"][fr]["inode"]
            if ik is None:
                continue
            if ik[0] in ("rel", "rel."):
                chain.append(ik[1])
            elif ik[0] == "me":
                chain = [ik[1]]
            else:
                plain = False
        for key, ref in operands:
            form, w = ref["form"], ref["w"]
            gname = names[prog["framers"][ref["g"]]]
            exp = None
            if is_clone and form not in ("abs", "framer", "framerme", "framerinline", "frame", "frameme", "frameinline",
                                         "framemeofframer", "framermain", "framermaininline", "framemain", "framemaininline",
                                         "framemainofframer", "framemainofframermain", "framerstate", "framernamed", "framernamedinline"):
                continue      # frame-named / inode-relative forms inside clones are left to the renaming oracle (an explicitly
                              # named framer is the named one also inside a clone)
            if form == "framerstate":
                exp = ".framer.%s.state.%s" % (fname, w)
            elif form == "abs":
                exp = ref["abs"]
            elif form in ("framermain", "framermaininline"):
                exp = ".framer.%s.%s" % (mainframe.framer.name, w)
            elif form in ("framemain", "framemaininline", "framemainofframer", "framemainofframermain"):
                exp = ".framer.%s.frame.%s.%s" % (mainframe.framer.name, mainframe.name, w)
            elif form == "framemeofframer":
                exp = ".framer.%s.frame.%s.%s" % (fname, nname, w)
            elif form == "framenamedofframer":
                exp = ".framer.%s.frame.%s.%s" % (fname, names[ref["of"]], w)
            elif form in ("framer", "framerme", "framerinline"):
                exp = ".framer.%s.%s" % (fname, w)
            elif form in ("framernamed", "framernamedinline"):
                exp = ".framer.%s.%s" % (gname, w)
            elif form in ("frame", "frameme", "frameinline"):
                exp = ".framer.%s.frame.%s.%s" % (fname, nname, w)
            elif form in ("framenamed", "framenamedinline"):
                exp = ".framer.%s.frame.%s.%s" % (fname, names[ref["of"]], w)
            elif form in ("frameother", "frameotherinline", "fullinline"):
                exp = ".framer.%s.frame.%s.%s" % (gname, names[ref["gf"]], w)
            elif form in ("actor", "actorinline"):
                owner = act.parms["needs"][0].actor if key == "need0" else act.actor      # `of actor` = the act that holds the reference
                exp = ".framer.%s.frame.%s.actor.%s.%s" % (fname, nname, _camel_path(owner.name), w)
            elif form == "actornamed":
                exp = ".framer.%s.frame.%s.actor.%s.%s" % (names[prog["framers"][ref["af"]]], names[ref["an"]],
                                                            names[ref["a"]], w)
            elif form in ("root", "rootof"):
                if fprefix is not None and plain:
                    parts = fprefix + chain + [w]
                    exp = ".".join(parts) if parts[0] == "" else "." + ".".join(parts)
            elif form in ("me", "meinline"):
                if fprefix is not None:
                    parts = fprefix + [w]
                    exp = ".".join(parts) if parts[0] == "" else "." + ".".join(parts)
            if exp is None:
                continue
            if key == "need0":
                nd = act.parms["needs"][0]
                got = (getattr(nd, "parms", None) or {}).get("state")
                if got is None:
                    continue
            else:
                got = act.parms.get(key)
            gotname = getattr(got, "name", got)
            gotname = gotname if str(gotname).startswith(".") else "." + str(gotname)
            out.append((line_index + 1, key, exp, gotname, form))
    return out


def do_io_expectations(prog, houses):
    """[(line no, field, verdict text | None)] for the io share of every `do ... per <field> <plain relative word>`
    without its own via clause. Documented resolution (Act.resolvePath): the share lives under the inodes in effect -
    the via inodes of the frame and its over frames and of the framer, and for an auxiliary clone those inherited from
    its main frame, that frame's over frames and the main framer, and so on upwards; only when NO inode is in effect
    at all it lives under the default framer.<framer>.frame.<frame>.actor.<actor>. So with at least one inode in
    effect, all of them plain words (`w`, `w.`, `.top.w`, `me.w`), the resolved path contains no framer / frame /
    actor name at all, and with none it starts with the names of exactly its own framer, frame and actor."""
    from ioflo.base import framing
    from vp.flo import dump
    names = prog["names"]
    out = []
    everyone = {}
    for h in houses:
        for t in h.taskers:
            if isinstance(t, framing.Framer):
                everyone[t.name] = t
        for t in list(getattr(h, "names", {}).get("tasker", {}).values()):
            if isinstance(t, framing.Framer):
                everyone.setdefault(t.name, t)

    def plain(inode):
        segs = [x for x in (inode or "").rstrip(".").split(".")]
        if segs and segs[0] == "me":
            segs = segs[1:]
        # at least one real word (a bare `me` / `main` / `mine` inode contributes no node of its own: left out)
        return bool([x for x in segs if x]) and all(x not in ("framer", "frame", "actor", "me", "main", "mine") for x in segs)

    cur_frame = None
    for line_index, (ind, toks) in enumerate(prog["lines"]):
        if toks[0] == "frame":
            cur_frame = toks[1].format(**names)
            continue
        if toks[0] != "do" or "per" not in toks or cur_frame is None:
            continue
        k = toks.index("per")
        field, word = toks[k + 1], toks[k + 2]
        if word not in metagen.ADDR_SHARE_WORDS:
            continue
        absvia = None
        if "via" in toks:
            # only the absolute via inode (`.top.w`): "absolute references never depend on the names of the framers, frames or
            # actors that use them" - nor on the inodes they are written under; the io share is exactly <via>.<word>
            v = toks.index("via")
            nxt = toks[v + 2] if v + 2 < len(toks) else None
            if not toks[v + 1].startswith(".") or nxt == "of":
                continue
            absvia = toks[v + 1].strip(".")
        for t in everyone.values():
            frame = t.frameNames.get(cur_frame)
            if frame is None:
                continue
            act = None
            for lst in dump.ACT_LISTS:
                for a in getattr(frame, lst):
                    if a.count == line_index + 2 and isinstance(a.parms, dict) and field in a.parms:
                        act = a
            if act is None or getattr(t, "schedule", None) is None:
                continue
            share = act.parms.get(field)
            got = getattr(share, "name", None)
            if not isinstance(got, str):
                continue
            if getattr(t, "original", True) and t.name in [names[f] for f, m in zip(prog["framers"], prog["moot"]) if m]:
                continue      # the never run moot original itself
            if absvia is not None:
                want = "%s.%s" % (absvia, word)
                out.append((line_index + 1, field, t.name, None if got == want else (
                    "resolved to .%s although the do names the absolute inode .%s: expected exactly .%s" % (got, absvia, want)), "absolute-via"))
                continue
            inodes = []
            fr, F = frame, t
            while F is not None:
                f2 = fr
                while f2 is not None:
                    inodes.append(f2.inode)
                    f2 = f2.over
                inodes.append(F.inode)
                fr = getattr(F, "main", None)
                F = fr.framer if fr is not None else None
            used = [i for i in inodes if i]
            if not all(plain(i) for i in used):
                continue
            segs = got.split(".")
            verdict = None
            if used:
                if segs[0] == "framer":
                    verdict = ("resolved to .%s although the plain via inode(s) %r are in effect: the io share must live under them and "
                               "not depend on any framer / frame / actor name" % (got, used))
            else:
                if segs[:2] != ["framer", t.name] or segs[2:4] != ["frame", cur_frame] or segs[4:5] != ["actor"]:
                    verdict = ("resolved to .%s with no via inode in effect: expected the default .framer.%s.frame.%s.actor.<actor>.%s"
                               % (got, t.name, cur_frame, word))
            out.append((line_index + 1, field, t.name, verdict, "inherited" if (used and not t.inode and not any(
                x.inode for x in _chain(frame))) else ("own" if used else "default")))
    return out


def _chain(frame):
    while frame is not None:
        yield frame
        frame = frame.over


# ------------------------------------------------------------------------------ one program
def run_case(prog):
    """-> (failures, info)"""
    names = prog["names"]
    text = metagen.render_templates(prog["lines"], names)
    outcome, paths, refs, houses, err = build_paths(text)
    info = {"outcome": outcome, "renamings": 0, "ref_changing": 0, "kinds": [], "direct": 0}
    fails = []
    if outcome == "ok":
        for lineno, key, exp, got, form in direct_expectations(prog, houses):
            info["direct"] += 1
            if exp != got:
                fails.append(("direct:" + form, "line %d `%s`: %s of the act resolved to %s, documented resolution is %s"
                              % (lineno, text.split("\n")[lineno - 1].strip(), key, got, exp)))
        for lineno, field, fname, verdict, how in do_io_expectations(prog, houses):
            info["direct"] += 1
            info.setdefault("doio", set()).add(how)
            if verdict:
                fails.append(("direct:do-io-share:" + how, "line %d `%s` in framer %s: io share %s %s"
                              % (lineno, text.split("\n")[lineno - 1].strip(), fname, field, verdict)))
    houses = None
    for kind, sym in prog["entities"]:
        new = metagen.FRESH
        if kind == "actor" and " " in names[sym]:
            # fresh name of another shape (number of parts, adjacent one-letter parts)
            new = metagen.FRESH + (" q r" if len(names[sym].split()) != 3 else " q")
        names2 = dict(names)
        names2[sym] = new
        text2 = metagen.render_templates(prog["lines"], names2)
        o2, paths2, refs2, _, err2 = build_paths(text2)
        info["renamings"] += 1
        info["kinds"].append(kind)
        what0 = "renaming %s `%s` -> `%s`" % (kind, names[sym], new)
        if o2 != outcome:
            fails.append(("rename:%s:outcome" % kind, "%s changes the build outcome %s (%s) -> %s (%s)"
                          % (what0, outcome, err, o2, err2)))
            continue
        if outcome != "ok":
            continue
        ren = make_renamer(prog, kind, sym, new)
        exp_paths = sorted({ren(p) for p in paths})
        if kind == "actor" and (" " in names[sym] or " " in new):
            # a name of k parts owns k nested nodes (actor.wolf., actor.wolf.x., ...): the inner ones are not
            # "the renamed originals" of anything when the number of parts changes, so they are left out on both sides
            def partial(path, parts):
                sg = path.split(".")
                if len(sg) > 7 and sg[3] == "frame" and sg[5] == "actor" and sg[-1] == "":
                    run = sg[6:-1]
                    return 0 < len(run) < len(parts) and run == parts[:len(run)]
                return False
            exp_paths = [p for p in exp_paths if not partial(p, names[sym].split()) and not partial(p, new.split())]
            paths2 = [p for p in paths2 if not partial(p, new.split())]
        if exp_paths != paths2:
            missing = [p for p in exp_paths if p not in set(paths2)]
            extra = [p for p in paths2 if p not in set(exp_paths)]
            stale = [p for p in extra if names[sym].split()[0] in p.replace("_", ".").split(".")]
            cat = "stale-old-name" if stale else "other-path-changed"
            fails.append(("rename:%s:paths:%s" % (kind, cat),
                          "%s: store paths are not the renamed originals; expected but absent %s; present but "
                          "unexpected %s" % (what0, missing[:4], extra[:4])))
        exp_refs = [ren(p) for p in refs]
        if exp_refs != refs2:
            if len(exp_refs) != len(refs2):
                fails.append(("rename:%s:refs:count" % kind, "%s: number of act share references %d -> %d"
                              % (what0, len(exp_refs), len(refs2))))
            else:
                i = [k for k in range(len(refs2)) if exp_refs[k] != refs2[k]][0]
                fails.append(("rename:%s:refs" % kind, "%s: act share reference #%d was %s, expected %s after the "
                              "renaming, got %s" % (what0, i, refs[i], exp_refs[i], refs2[i])))
        if exp_refs != refs:
            info["ref_changing"] += 1
    return fails, info


def execute(prog):
    fails, info = run_case(prog)
    classes = ["orig->" + info["outcome"], "clones" if prog.get("clones") else "no-clones"]
    classes += ["rename:" + k for k in info["kinds"]]
    classes += ["form:" + f for f in sorted(set(prog.get("forms", [])))]
    classes += ["ref-changing-renamings"] * info["ref_changing"]
    classes += ["direct-checks"] * min(info["direct"], 50)
    classes += ["do-io-share:" + h for h in sorted(info.get("doio", ()))]
    text = metagen.render_templates(prog["lines"], prog["names"])
    sample = {"text": text[:700], "renamings": info["renamings"], "ref_changing": info["ref_changing"]}
    return Outcome(fails, nontrivial=info["ref_changing"] >= 1, classes=classes, key=text, sample=sample)


def plan(tier):
    n = 8 if tier == "quick" else 32
    return [{"i": i} for i in range(n)]


def work(shard, seed, tier):
    acc = Acc()
    n = 25 if tier == "quick" else 160
    campaign(acc, metagen.addr_program(), execute, n, seed * 1000 + shard["i"],
             budget=Budget(300 if tier == "quick" else 2400), shrink_examples=120)
    return acc


def replay(case):
    # JSON turns the (kind, sym) tuples into lists and keeps dict keys as strings: both are fine
    fails, info = run_case(case)
    return fails
