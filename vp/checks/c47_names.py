"""C47 Named entities have unique names within their namespace.

Part "ops": Hypothesis lists of operations: create House / Tasker / Framer / Logger / Frame /
Log with explicit names (including names that match the automatic pattern: Tasker2,
Framer1, Frame1, Log2, House2) or automatic names, clear all registries (House.Clear +
ClearRegistries, as Builder.build does), House.assignRegistries, Framer.assignFrameRegistry
and Framer.clone (which switches to the framer's house and to the clone's frame registry), Framer.prune
(which frees the name of a razed clone in the current namespace, if it is that framer's entry).
Instances are created with the store of an arbitrary house, i.e. also while *another*
house's namespace is current.

Oracle: a model of every namespace (houses; taskers+framers+loggers and logs per house and
for the unassigned class-level registries; frames per framer). After every step every real
registry dict must hold exactly the model's names, `Names[name] is instance`,
`instance.name == name`, and the class attributes must point at the model's current
namespace. An explicit duplicate must raise ParameterError (CloneError from clone) and change
no registry; an automatic name must be a new non-empty string.

Part "flo" (scripts): generated FloScript programs with one or two houses, many framers,
frames, named clones and logs, some with deliberately duplicated names, built with the real Builder:
a program with a duplicate in one namespace must not build; after a successful build every
registry of the house is checked for name consistency against the house's taskers / framers
/ frames / logs.
"""
import random
import re

from hypothesis import strategies as st

from vp.core.acc import Acc
from vp.core.hyp import campaign, Outcome, Budget

PROPERTY = "C47"
LEVEL = "exploration"
RULE = ("(a) Hypothesis-generated operation histories (up to 30 steps quick / 50 thorough) of House/Tasker/Framer/"
        "Logger/Frame/Log creation with explicit names (x, y, z and names matching the automatic pattern such as "
        "Tasker2, Framer1, Frame1, Log2, House2) or automatic names, clear-all, House.assignRegistries, "
        "Framer.assignFrameRegistry, Framer.clone, Framer.prune; every registry compared with a namespace model after every step. "
        "(b) generated FloScript programs (2-6 framers, 1-5 frames each, named aux clones, loggers with logs, "
        "one or two houses repeating the same names, optional duplicated house/framer/frame/logger/log/clone names) "
        "built with the real Builder and the house registries "
        "read back. Non-trivial (a) = an automatic creation after an explicit pattern-matching name in that "
        "namespace or after a namespace switch; (b) = program with >= 3 framers and a duplicate, a clone or two houses; "
        "distinct = distinct operation list / program text")
ASSUMPTIONS = [
    "Namespaces as in the property: houses (House.Names); taskers, framers and loggers of a house (one registry, "
    "Tasker.Names / house.names['tasker']); logs (Log.Names / house.names['log']); frames of a framer (framer.frameNames)",
    "Registries are cleared the way Builder.build does it (House.Clear() together with housing.ClearRegistries()); "
    "houses and framers created before such a clear are dead afterwards (never re-assigned or cloned). In addition one "
    "class registry may be cleared on its own (Tasker.Clear() / Log.Clear()); the houses stay live then",
    "A rejected explicit duplicate may still advance the class Counter (not observable in the registry)",
    "Framer.clone is only applied to framers whose store belongs to a house (it calls store.house.assignRegistries())",
    "The shadow class attributes Framer.Counter / Logger.Counter that Registrar creates are removed before each case "
    "so that every case starts from the state of a fresh import (replayability)",
    "In scripts, a duplicate framer / frame / logger / log name in one namespace must make Builder.build fail "
    "(return False or raise ParseError/ParameterError/ResolveError/CloneError); no particular message is demanded",
]
META = {
    "level": LEVEL,
    "text": "Generated interleavings of explicit and automatic naming with registry clears and namespace switches are "
            "checked step by step against a namespace model (exact registry contents by identity); generated programs "
            "with many framers, frames, clones and logs are built and their registries read back.",
    "note": "Trusts the harness namespace model; automatic names use random letters after a collision, the oracle only "
            "requires freshness. Holds on the explored histories/programs only.",
    "technique": "model-based operation-history testing of the name registries + generated FloScript programs (build, read back registries)",
    "design_ref": "DESIGN.md section 3, C47",
}

NAMES = {
    "house": ["x", "y", "House1", "House2", "House3"],
    "tasker": ["x", "y", "z", "Tasker1", "Tasker2", "Framer1", "Framer2", "Logger1", "Framer3"],
    "frame": ["x", "y", "Frame1", "Frame2", "Frame3"],
    "log": ["x", "y", "Log1", "Log2", "Log3"],
}
AUTO_RE = re.compile(r"^(House|Tasker|Framer|Logger|Frame|Log)\d+$")


# ------------------------------------------------------------------------------ generator
def op_strategy():
    idx = st.integers(0, 5)

    def named(kind, space):
        nm = st.one_of(st.just(""), st.just(""), st.sampled_from(NAMES[space]), st.sampled_from(NAMES[space]),
                       st.sampled_from(NAMES[space]))
        return st.builds(lambda n, h, f: {"op": kind, "name": n, "h": h, "f": f}, nm, idx, idx)

    return st.one_of(
        named("house", "house"), named("house", "house"),
        named("tasker", "tasker"), named("tasker", "tasker"), named("framer", "tasker"), named("framer", "tasker"),
        named("logger", "tasker"),
        named("frame", "frame"), named("frame", "frame"), named("frame", "frame"),
        named("log", "log"), named("log", "log"),
        named("clone", "tasker"),
        st.builds(lambda f: {"op": "prune", "f": f}, idx),
        st.builds(lambda h: {"op": "assign", "h": h}, idx), st.builds(lambda h: {"op": "assign", "h": h}, idx),
        st.builds(lambda f: {"op": "fassign", "f": f}, idx), st.builds(lambda f: {"op": "fassign", "f": f}, idx),
        st.just({"op": "clear"}),
        # one class registry cleared on its own (Registrar.Clear of Tasker or Log): the houses stay alive and a
        # later assignRegistries must make ALL of the house's registries current again
        st.sampled_from([{"op": "clear1", "which": "tasker"}, {"op": "clear1", "which": "log"}]),
    )


@st.composite
def storm_strategy(draw):
    """Directed histories: two namespaces of one kind and many automatic names created in the first one, with a
    switch to the second namespace and back before each creation (every switch restarts the automatic counter, so
    the same counter based name is proposed again and again and must be made unique every time, also against the
    names that earlier collisions produced)."""
    kind = draw(st.sampled_from(["log", "tasker", "logger", "framer", "frame"]))
    n = draw(st.integers(10, 34))
    if kind == "frame":
        ops = [{"op": "house", "name": "", "h": 0, "f": 0}, {"op": "framer", "name": "", "h": 0, "f": 0},
               {"op": "framer", "name": "", "h": 0, "f": 0}]
        for _ in range(n):
            ops += [{"op": "fassign", "f": 0}, {"op": "frame", "name": "", "h": 0, "f": 0}, {"op": "fassign", "f": 1}]
    else:
        ops = [{"op": "house", "name": "", "h": 0, "f": 0}, {"op": "house", "name": "", "h": 0, "f": 0}]
        for _ in range(n):
            ops += [{"op": "assign", "h": 0}, {"op": kind, "name": "", "h": 0, "f": 0}, {"op": "assign", "h": 1}]
    return ops


def history_strategy(max_steps):
    op = op_strategy()
    plain = st.integers(1, max_steps).flatmap(lambda n: st.lists(op, min_size=n, max_size=n))
    return st.one_of(plain, plain, plain, plain, plain, plain, plain, storm_strategy())


# ------------------------------------------------------------------------------ model
class NS(object):
    """One namespace: the real registry dict and the model's name -> instance map."""
    __slots__ = ("label", "real", "names", "pattern_explicit", "switched")

    def __init__(self, label, real):
        self.label = label
        self.real = real
        self.names = {}
        self.pattern_explicit = False   # an explicit name matching the automatic pattern was registered
        self.switched = False           # the namespace became current through a switch


def _reset_classes():
    from ioflo.base import housing, framing, logging as iologging, tasking, storing
    housing.House.Clear()
    housing.ClearRegistries()
    framing.Frame.Clear()
    for cls in (framing.Framer, iologging.Logger):
        for attr in ("Counter", "Names"):
            if attr in vars(cls):
                delattr(cls, attr)
    return housing, framing, iologging, tasking, storing


def run_history(ops):
    from vp.core import env
    env.quiet_ioflo()
    from ioflo.base import excepting
    housing, framing, iologging, tasking, storing = _reset_classes()
    random.seed(4711)   # the registrar draws random letters after a collision: make replays repeat them

    fails = []
    labels = set()
    nontrivial = False

    spaces = []                                   # every namespace ever seen (all are checked after every step)

    def new_ns(label, real):
        ns = NS(label, real)
        spaces.append(ns)
        return ns

    house_ns = new_ns("houses", housing.House.Names)
    cur = {"tasker": new_ns("tasker:free", tasking.Tasker.Names),
           "log": new_ns("log:free", iologging.Log.Names),
           "frame": new_ns("frame:free", framing.Frame.Names)}
    free_store = storing.Store()
    houses = []       # [(house, {"tasker": NS, "log": NS})]
    framers = []      # [(framer, NS)]

    def check_all(what):
        probs = []
        if housing.House.Names is not house_ns.real:
            probs.append(("current-registry@House", "House.Names is not the expected registry"))
        for key, cls in (("tasker", tasking.Tasker), ("log", iologging.Log), ("frame", framing.Frame)):
            if cls.Names is not cur[key].real:
                probs.append(("current-registry@%s" % cls.__name__,
                              "%s.Names is not the registry of the current namespace %s" % (cls.__name__, cur[key].label)))
        if framing.Framer.Names is not tasking.Tasker.Names or iologging.Logger.Names is not tasking.Tasker.Names:
            probs.append(("split-namespace@Framer", "Framer.Names / Logger.Names no longer is Tasker.Names"))
        for ns in spaces:
            rk = sorted(ns.real.keys())
            mk = sorted(ns.names)
            if rk != mk:
                probs.append(("registry-contents@%s" % ns.label.split(":")[0],
                              "namespace %s holds %r, model %r" % (ns.label, rk, mk)))
                continue
            for n in mk:
                inst = ns.real[n]
                if inst is not ns.names[n]:
                    probs.append(("registry-identity@%s" % ns.label.split(":")[0],
                                  "namespace %s: Names[%r] is %r, not the instance registered under that name"
                                  % (ns.label, n, inst)))
                elif inst.name != n:
                    probs.append(("instance-name@%s" % ns.label.split(":")[0],
                                  "namespace %s: instance registered as %r has .name %r" % (ns.label, n, inst.name)))
        # pairwise distinct names of live instances per namespace follows from the above, checked directly as well
        for ns in spaces:
            insts = list(ns.names.values())
            seen = {}
            for inst in insts:
                if inst.name in seen and seen[inst.name] is not inst:
                    probs.append(("duplicate-name@%s" % ns.label.split(":")[0],
                                  "namespace %s has two live instances named %r" % (ns.label, inst.name)))
                seen[inst.name] = inst
        for sig, w in probs[:3]:
            fails.append((sig, "after %s: %s" % (what, w)))
        return not probs

    def create(kind, space_ns, ctor, name, what, dup_exc):
        """Common creation logic. Returns the instance or None."""
        nonlocal nontrivial
        explicit = name != ""
        if explicit and name in space_ns.names:
            labels.add("%s:dup" % kind)
            try:
                inst = ctor()
            except dup_exc:
                return None
            except Exception as ex:
                fails.append(("wrong-exception@%s:%s" % (kind, type(ex).__name__),
                              "%s: duplicate name %r raised %r" % (what, name, ex)))
                return None
            fails.append(("duplicate-accepted@%s" % kind,
                          "%s: name %r already is in namespace %s but the creation succeeded (instance %r)"
                          % (what, name, space_ns.label, inst.name)))
            return None
        try:
            inst = ctor()
        except Exception as ex:
            fails.append(("creation-raises@%s:%s" % (kind, type(ex).__name__),
                          "%s raised %r although %r is free in namespace %s" % (what, ex, name, space_ns.label)))
            return None
        if explicit:
            labels.add("%s:explicit" % kind)
            if inst.name != name:
                fails.append(("explicit-name@%s" % kind, "%s: instance got name %r" % (what, inst.name)))
                return None
            if AUTO_RE.match(name):
                space_ns.pattern_explicit = True
        else:
            got = inst.name
            collided = not AUTO_RE.match(got or "")
            labels.add("%s:auto%s" % (kind, "-collided" if collided else ""))
            if not isinstance(got, str) or not got:
                fails.append(("auto-name@%s" % kind, "%s: automatic name is %r" % (what, got)))
                return None
            if got in space_ns.names:
                fails.append(("auto-name-collides@%s" % kind,
                              "%s: automatic name %r already belongs to another live instance of namespace %s"
                              % (what, got, space_ns.label)))
                return None
            if space_ns.pattern_explicit or space_ns.switched:
                nontrivial = True
        space_ns.names[inst.name] = inst
        return inst

    for step, op in enumerate(ops):
        kind = op["op"]
        what = "step %d: %s %r" % (step, kind, {k: v for k, v in op.items() if k != "op"})
        n0 = len(fails)
        if kind == "clear":
            housing.House.Clear()
            housing.ClearRegistries()
            house_ns = new_ns("houses", housing.House.Names)
            cur["tasker"] = new_ns("tasker:free", tasking.Tasker.Names)
            cur["log"] = new_ns("log:free", iologging.Log.Names)
            # houses and framers made before the clear are no longer live: they are not switched to or cloned
            # any more (their registries stay under observation). Re-assigning a cleared house would bring back
            # its *store* registry, in which the store of a new house with a recycled name is a duplicate.
            houses = []
            framers = []
            labels.add("clear")
        elif kind == "clear1":
            if op["which"] == "tasker":
                tasking.Tasker.Clear()
                cur["tasker"] = new_ns("tasker:free", tasking.Tasker.Names)
            else:
                iologging.Log.Clear()
                cur["log"] = new_ns("log:free", iologging.Log.Names)
            labels.add("clear-one-registry")
        elif kind == "assign":
            if not houses:
                labels.add("assign:nohouse")
                continue
            house, hns = houses[op["h"] % len(houses)]
            house.assignRegistries()
            for key in ("tasker", "log"):
                if cur[key] is not hns[key]:
                    hns[key].switched = True
                cur[key] = hns[key]
            labels.add("assign")
        elif kind == "fassign":
            if not framers:
                labels.add("fassign:noframer")
                continue
            framer, fns = framers[op["f"] % len(framers)]
            framer.assignFrameRegistry()
            if cur["frame"] is not fns:
                fns.switched = True
            cur["frame"] = fns
            labels.add("fassign")
        elif kind == "house":
            inst = create("house", house_ns, lambda: housing.House(name=op["name"]), op["name"], what,
                          excepting.ParameterError)
            if inst is not None:
                houses.append((inst, {"tasker": new_ns("tasker:%s" % inst.name, inst.names["tasker"]),
                                      "log": new_ns("log:%s" % inst.name, inst.names["log"])}))
        elif kind in ("tasker", "framer", "logger", "log", "frame"):
            store = houses[op["h"] % len(houses)][0].store if houses else free_store
            if houses and houses[op["h"] % len(houses)][1]["tasker"] is not cur["tasker"]:
                labels.add("create-under-other-namespace")
            if kind == "tasker":
                inst = create(kind, cur["tasker"], lambda: tasking.Tasker(name=op["name"], store=store),
                              op["name"], what, excepting.ParameterError)
            elif kind == "logger":
                inst = create(kind, cur["tasker"], lambda: iologging.Logger(name=op["name"], store=store),
                              op["name"], what, excepting.ParameterError)
            elif kind == "framer":
                inst = create(kind, cur["tasker"], lambda: framing.Framer(name=op["name"], store=store),
                              op["name"], what, excepting.ParameterError)
                if inst is not None:
                    framers.append((inst, new_ns("frame:%s" % inst.name, inst.frameNames)))
            elif kind == "log":
                inst = create(kind, cur["log"], lambda: iologging.Log(name=op["name"], store=store),
                              op["name"], what, excepting.ParameterError)
            else:
                fr = framers[op["f"] % len(framers)][0] if framers else None
                inst = create(kind, cur["frame"], lambda: framing.Frame(name=op["name"], store=store, framer=fr),
                              op["name"], what, excepting.ParameterError)
        elif kind == "prune":
            # Framer.prune() (what `raze` does to a clone) frees the framer's name: it may remove the entry of the
            # CURRENT tasker/framer namespace only when that entry is this very framer - never a same-named framer of
            # another house whose namespace happens to be current
            if not framers:
                labels.add("prune:noframer")
                continue
            k = op["f"] % len(framers)
            inst, fns = framers.pop(k)
            own_house = [h for h in houses if h[0] is getattr(inst.store, "house", None)]
            if own_house:
                # prune() first makes the namespace of the framer's own house current (as clone() does), so the name is
                # freed where the framer lives, whichever house's namespace was current before
                for key in ("tasker", "log"):
                    if cur[key] is not own_house[0][1][key]:
                        own_house[0][1][key].switched = True
                    cur[key] = own_house[0][1][key]
            ns = cur["tasker"]
            own = ns.names.get(inst.name) is inst
            labels.add("prune:own-namespace-current" if own else "prune:other-namespace-current")
            if not own and inst.name in ns.names:
                labels.add("prune:same-name-in-current-namespace")
                nontrivial = True
            try:
                inst.prune()
            except Exception as ex:   # noqa: BLE001
                fails.append(("prune-raises:%s" % type(ex).__name__, "%s: prune of framer %r raised %r" % (what, inst.name, ex)))
            if own:
                del ns.names[inst.name]
        elif kind == "clone":
            cands = [(f, ns) for f, ns in framers if getattr(f.store, "house", None) is not None]
            if not cands:
                labels.add("clone:nocandidate")
                continue
            orig, ons = cands[op["f"] % len(cands)]
            hns = [h for h in houses if h[0] is orig.store.house][0][1]
            # clone() first makes the namespace of the framer's house current
            for key in ("tasker", "log"):
                if cur[key] is not hns[key]:
                    hns[key].switched = True
                cur[key] = hns[key]
            inst = create("clone", cur["tasker"], lambda: orig.clone(name=op["name"], tag="t"),
                          op["name"], what, excepting.CloneError)
            if inst is not None:
                cns = new_ns("frame:%s" % inst.name, inst.frameNames)
                cns.switched = True
                framers.append((inst, cns))
                cur["frame"] = cns
                # the frames of the original are cloned under their own names into the clone's namespace
                for fname in ons.names:
                    got = inst.frameNames.get(fname)
                    if got is None or got is ons.names[fname]:
                        fails.append(("clone-frames", "%s: frame %r of the original is %r in the clone"
                                      % (what, fname, got)))
                        break
                    cns.names[fname] = got
        if len(fails) > n0:
            break
        if not check_all(what):
            break

    seen, out = set(), []
    for s, w in fails:
        if s not in seen:
            seen.add(s)
            out.append((s, w))
    _reset_classes()
    return out, {"nontrivial": nontrivial, "labels": sorted(labels)}


# ------------------------------------------------------------------------------ FloScript programs
def program_strategy():
    nframers = st.integers(2, 6)

    def build(nf, frames, dup, clone, nlogs, duplog, seedbits, houses):
        if dup == "house":
            houses = 2
        if dup in ("clone", "clone-framer"):
            clone = max(clone, 2)
        return {"nf": nf, "frames": frames[:nf], "dup": dup, "clone": clone,
                "nlogs": nlogs, "duplog": duplog, "bits": seedbits, "houses": houses,
                # nested insular clones under two (or more) different main framers: every generated name is distinct
                "nest": (seedbits >> 5) % 3 if dup in (None, "house", "frame") else 0}

    return st.builds(build, nframers, st.lists(st.integers(1, 5), min_size=6, max_size=6),
                     st.sampled_from([None, None, None, None, "framer", "frame", "framer-logger", "clone",
                                      "clone-framer", "house"]),
                     st.integers(0, 3), st.integers(0, 3), st.sampled_from([False, False, True]),
                     st.integers(0, 255), st.sampled_from([1, 1, 2]))


def render(prog):
    """FloScript text for a program descriptor. Returns (text, kinds of duplicate it contains)."""
    nf = prog["nf"]
    bits = prog["bits"]
    dup = prog["dup"]
    nclones = prog["clone"]
    nhouses = prog.get("houses", 1)
    dups = set()
    lines = []
    for hi in range(nhouses):
        hname = "h%d" % hi
        if dup == "house" and hi == 1:
            hname = "h0"
            dups.add("house")
        # every house repeats the same framer / frame / log names: houses are separate namespaces
        lines += ["house %s" % hname, ""]
        nest = prog.get("nest", 0)
        if nclones:   # a moot framer to be cloned
            lines += ["framer orig be moot", "  frame m0", "    go next", "  frame m1", ""]
        if nest:      # a moot that itself holds an insular clone of another moot (and, nest 2, that one of a third)
            lines += ["framer part be moot", "  frame p0", "    aux leaf as mine", "    go next", "  frame p1", "",
                      "framer leaf be moot", "  frame e0"] + (["    aux tip as mine"] if nest == 2 else []) + ["", ]
            if nest == 2:
                lines += ["framer tip be moot", "  frame t0", ""]
        names = ["f%d" % i for i in range(nf)]
        if dup == "framer":
            names[-1] = names[bits % (nf - 1)]
            dups.add("framer")
        if dup == "clone-framer" and nclones:
            names[-1] = "f0_c0"          # the name the first named clone of f0 gets
            dups.add("clone-framer")
        logger_name = "lg"
        if dup == "framer-logger" and prog["nlogs"]:
            logger_name = names[bits % nf]
            dups.add("framer-logger")
        for i, fname in enumerate(names):
            lines.append("framer %s be active" % fname if i == 0 else "framer %s be inactive" % fname)
            k = prog["frames"][i]
            fnames = ["s%d" % j for j in range(k)]
            if dup == "frame" and i == bits % nf and k >= 2:
                fnames[-1] = fnames[(bits >> 3) % (k - 1)]
                dups.add("frame")
            for j, fr in enumerate(fnames):
                lines.append("  frame %s" % fr)
                if i == 0 and j == 0:
                    for c in range(nclones):
                        tag = "c%d" % c
                        if dup == "clone" and c == nclones - 1 and nclones >= 2:
                            tag = "c0"
                            dups.add("clone")
                        lines.append("    aux orig as %s" % tag)
                if nest and j == 0 and fname not in names[:i]:
                    lines.append("    aux part as mine")
                if j + 1 < len(fnames):
                    lines.append("    go next")
            lines.append("")
        if prog["nlogs"]:
            lines.append("logger %s to /tmp/vp-c47-unused" % logger_name)
            lognames = ["l%d" % j for j in range(prog["nlogs"])]
            if prog["duplog"] and prog["nlogs"] >= 2:
                lognames[-1] = lognames[0]
                dups.add("log")
            for ln in lognames:
                lines.append("  log %s on never" % ln)
                lines.append("    loggee framer.f0.state.elapsed as e")
            lines.append("")
    return "\n".join(lines) + "\n", sorted(dups)


def run_program(prog):
    from vp.core import env
    from vp.flo.build import build_text
    text, dups = render(prog)
    fails = []
    labels = set()
    with env.cpu_watchdog(20):
        res = build_text(text)
    labels.add("flo:build-%s" % res.outcome)
    labels.add("flo:houses=%d" % prog.get("houses", 1))
    if dups:
        tag = "+".join(dups)
        labels.add("flo:dup-%s" % tag)
        if res.ok:
            fails.append(("flo-duplicate-built@%s" % tag,
                          "program with a duplicated %s name was built:\n%s" % (tag, text)))
        elif res.exc is not None and type(res.exc).__name__ not in ("ParseError", "ParameterError", "ResolveError",
                                                                     "CloneError"):
            fails.append(("flo-duplicate-raises@%s:%s" % (tag, type(res.exc).__name__),
                          "program with a duplicate name made the builder raise %r:\n%s" % (res.exc, text)))
    else:
        labels.add("flo:unique")
        if not res.ok:
            fails.append(("flo-unique-not-built:%s" % res.outcome,
                          "program with unique names did not build (%r):\n%s" % (res.exc, text)))
    if res.ok:
        for house in res.houses:
            reg = house.names["tasker"]
            seen = {}
            for t in house.taskers:
                if reg.get(t.name) is not t:
                    fails.append(("flo-registry-identity@tasker", "house %s: names['tasker'][%r] is %r, not the tasker"
                                  % (house.name, t.name, reg.get(t.name))))
                if t.name in seen and seen[t.name] is not t:
                    fails.append(("flo-duplicate-name@tasker", "house %s has two taskers named %r" % (house.name, t.name)))
                seen[t.name] = t
            labels.add("flo:taskers=%d" % min(len(house.taskers), 10))
            for fr in house.framers:
                fseen = set()
                for n, frame in fr.frameNames.items():
                    if frame.name != n or n in fseen:
                        fails.append(("flo-frame-name", "framer %s: frame registered as %r has name %r"
                                      % (fr.name, n, frame.name)))
                    fseen.add(n)
            for n, log in house.names["log"].items():
                if log.name != n:
                    fails.append(("flo-log-name", "log registered as %r has name %r" % (n, log.name)))
            nclone = len([f for f in house.framers if not f.original])
            if nclone:
                labels.add("flo:clones")
    if prog.get("nest"):
        labels.add("flo:nested-insular-clones-under-%d-framers" % min(prog["nf"], 3))
    nontrivial = prog["nf"] >= 3 and bool(dups or prog["clone"] > 0 or prog.get("houses", 1) > 1 or prog.get("nest"))
    seen, out = set(), []
    for s, w in fails:
        if s not in seen:
            seen.add(s)
            out.append((s, w))
    return out, {"nontrivial": nontrivial, "labels": sorted(labels), "text": text}


# ------------------------------------------------------------------------------ rear / raze at run time
def rearraze_script(case):
    """A moot whose frame `hosts` an ordinary (script declared) aux framer and, optionally, a named clone; clones of the
    moot are reared and razed at run time."""
    if case.get("twohouse"):
        # a second house whose framer rears a clone of its own between the rear and the raze of the first house, so
        # that the other house's namespace is the current one when the first house razes
        return "\n".join([
            "house alpha", "framer main be active first a1", "frame a1", "rear worker as mine be aux in frame a2", "go next",
            "frame a2", "go next if elapsed >= 0.5", "frame a3", "enter", "raze %s in frame a2" % case["raze"],
            "go a1 if elapsed >= 0.25", "framer worker be moot", "frame w0", "print w",
            "framer helper be aux", "frame h0", "print h", "framer little be moot", "frame l0", "print l",
            "house beta", "framer g be active first b1", "frame b1", "go next if elapsed >= 0.25", "frame b2",
            "rear y as mine be aux in frame b3", "go next", "frame b3", "print b", "framer y be moot", "frame y0", "print y"]) + "\n"
    L = ["house h", "framer main be active first f1", "frame f1"]
    for _ in range(case["n"]):
        L.append("rear worker as mine be aux in frame f2")
    L += ["go next", "frame f2", "go next if elapsed >= 0.25", "frame f3", "enter", "raze %s in frame f2" % case["raze"],
          "go %s if elapsed >= 0.125" % ("f1" if case["loop"] else "f4"), "frame f4", "print end",
          "framer worker be moot", "frame w0"]
    if case["host"] == 0:
        L.append("aux helper")
    if case["named"]:
        L.append("aux little as kid")
    L += ["go next if elapsed >= 0.5", "frame w1"]
    if case["host"] == 1:
        L.append("aux helper")
    L += ["print w", "framer helper be aux", "frame h0", "print h", "framer little be moot", "frame l0", "print l"]
    return "\n".join(L) + "\n"


def check_rearraze(case):
    from vp.flo.run import run_text
    from ioflo.base import framing, excepting
    text = rearraze_script(case)
    tr = run_text(text, 24 if case.get("twohouse") else 10)
    if tr["build"] != "True" or tr.get("exc"):
        return [("rearraze-run:%s" % (tr.get("exc") or tr["build"]), "build %s / run %s %s\n%s" % (
            tr["build"], tr.get("exc"), tr.get("exc_detail") or tr.get("detail"), text))]
    names = set(tr.get("names") or [])
    fails = []
    for declared in ("main", "worker", "helper", "little"):
        if declared not in names:
            fails.append(("live-framer-unregistered", "after rear + raze the script declared framer %r is no longer registered under its "
                          "name in the house's tasker / framer namespace (registry %r): an explicit duplicate of it would be accepted\n%s"
                          % (declared, sorted(names), text)))
    return fails


# ------------------------------------------------------------------------------ harness glue
def plan(tier):
    n = 7 if tier == "quick" else 14
    shards = [{"part": "ops", "i": i} for i in range(n)]
    shards += [{"part": "flo", "i": 100 + i} for i in range(1 if tier == "quick" else 2)]
    shards.append({"part": "rearraze", "i": 300})
    return shards


def work(shard, seed, tier):
    acc = Acc()
    if shard["part"] == "rearraze":
        import itertools
        for n, raze, loop, host, named in itertools.product((1, 2), ("all", "first", "last"), (False, True), (0, 1, None), (False, True)):
            case = {"rearraze": True, "n": n, "raze": raze, "loop": loop, "host": host, "named": named}
            fails = check_rearraze(case)
            acc.case(key=("rearraze", n, raze, loop, host, named), nontrivial=True, classes=["flo:rear-raze-at-run-time"],
                     sample={"script": rearraze_script(case)} if (n, raze, loop, host, named) == (1, "all", False, 0, True) else None)
            for sig, what in fails:
                acc.fail(sig, what, case)
        for raze in ("all", "first", "last"):
            case = {"rearraze": True, "twohouse": True, "raze": raze, "n": 1, "loop": True, "host": None, "named": False}
            fails = check_rearraze(case)
            acc.case(key=("rearraze-twohouse", raze), nontrivial=True, classes=["flo:rear-raze-two-houses"], sample=None)
            for sig, what in fails:
                acc.fail(sig, what, case)
        acc.note("rear / raze at run time: 72 scripts + 3 two-house scripts enumerated")
        return acc
    if shard["part"] == "ops":
        n = 400 if tier == "quick" else 3500
        steps = 30 if tier == "quick" else 50

        def execute(ops):
            fails, info = run_history(ops)
            classes = list(info["labels"])
            classes.append("steps<=10" if len(ops) <= 10 else ("steps<=30" if len(ops) <= 30 else "steps<=50"))
            if info["nontrivial"]:
                classes.append("nontrivial")
            return Outcome(fails, nontrivial=info["nontrivial"], classes=classes, key=ops,
                           sample={"ops": ops[:8], "steps": len(ops)})

        campaign(acc, history_strategy(steps), execute, n, seed * 1000 + shard["i"],
                 to_case=lambda ops: {"ops": ops}, budget=Budget(100 if tier == "quick" else 540))
        return acc

    n = 300 if tier == "quick" else 3000

    def execute_prog(prog):
        fails, info = run_program(prog)
        classes = list(info["labels"])
        if info["nontrivial"]:
            classes.append("flo:nontrivial")
        return Outcome(fails, nontrivial=info["nontrivial"], classes=classes, key=info["text"],
                       sample={"prog": prog})

    campaign(acc, program_strategy(), execute_prog, n, seed * 1000 + shard["i"],
             to_case=lambda p: {"prog": p}, budget=Budget(100 if tier == "quick" else 540))
    return acc


def replay(case):
    if case.get("rearraze"):
        return check_rearraze(case)
    if "prog" in case:
        return run_program(case["prog"])[0]
    return run_history(case["ops"])[0]
