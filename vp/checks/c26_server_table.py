"""C26 A TCP server keeps one live connection entry per peer address.

Operation histories on the real Server / ServerTls whose listen socket is a FakeListenSocket
and whose accepted sockets are FakeSockets (ServerTls with a fake ssl context): accepts from
a 3-address universe (so peer addresses repeat), TLS handshakes needing 0-2 extra rounds,
peer closes / peer data, removeIx (with and without shutclose), closeIx, shutdownIx /
shutdownSendIx / shutdownReceiveIx, serviceAxes / serviceCxes / serviceConnects / serviceAll.
Every sequence of <= 4 (thorough 6) operations over an 8-operation alphabet is enumerated (both classes),
Hypothesis adds random histories up to 25 (thorough 60) steps.

Oracle = reference model address -> live double, compared after every step:
  * table keys == model keys, one entry each (ServerTls: .ixes == handshaked entries, .cxes ==
    accepted entries still handshaking), each entry's socket is the double of the *latest*
    connection accepted from that address;
  * accepting from an address that still has an entry replaces it without raising, and by the end
    of the step in which a stale entry leaves the table its double has been shut down
    (shutdown() or close() called);
  * removeIx closes the socket (default shutclose=True) and deletes the entry; closeIx closes it and
    keeps the entry; shutdown*Ix shut the right direction; an unknown address -> ValueError only,
    table unchanged;
  * no other exception from any operation; everything queued on the listen socket is accepted.
"""
import errno
import itertools
import socket

from hypothesis import strategies as st

from vp.core.acc import Acc
from vp.core.hyp import campaign, Outcome, Budget
from vp.net import doubles as D

PROPERTY = "C26"
LEVEL = "exploration"
RULE = ("operation histories over Server and ServerTls on listen/socket doubles: exhaustive over all sequences of <= 4 (thorough 6) ops "
        "from an 8-op alphabet (accept from 2 addresses, service calls, remove/close/shutdown, peer close) + Hypothesis "
        "histories of <= 25 (thorough 60) ops over 3 addresses (accept with 0-2 extra TLS handshake rounds, serviceAxes/"
        "Cxes/Connects/All, peerclose, peerdata, removeIx shutclose True/False, closeIx, shutdown[Send|Receive]Ix, ops on "
        "unknown addresses); model address -> live double compared after every step. non-trivial = the history accepts "
        "a connection from an address that still has an entry in the table; distinct = distinct (class, op list)")
ASSUMPTIONS = [
    "the 'table of accepted connections' is .ixes, plus .cxes (accepted, TLS handshake pending) for ServerTls",
    "'shuts the stale connection down' = shutdown() or close() has been called on the stale socket by the end of the "
    "operation in which its entry is replaced (either at accept time or at promotion is accepted)",
    "closeIx keeps the (closed) entry as documented; serviceAll is only issued while no closed entry is left in the "
    "table (servicing a closed incomer is outside the property), otherwise serviceConnects is issued instead",
    "TLS handshakes in these histories only block (want-read/want-write) and then succeed; failing handshakes belong to C25",
]
META = {
    "level": LEVEL,
    "text": "Random and short-exhaustive operation histories against a reference model of the connection table; the "
            "repeated-peer-address situation that loopback tests cannot produce is built directly with socket doubles.",
    "note": "Trusts the doubles (accept order, getpeername/getsockname) and the 40-line table model. Absence is shown "
            "only for explored histories.",
    "technique": "model-based testing: generated operation histories vs reference table model (Hypothesis + short exhaustive)",
    "design_ref": "DESIGN.md section 3, C26",
}

ADDRS = [("127.0.0.1", 50001), ("127.0.0.1", 50002), ("10.0.0.7", 50001)]
HOWS = [("shutdownIx", socket.SHUT_RDWR), ("shutdownSendIx", socket.SHUT_WR), ("shutdownReceiveIx", socket.SHUT_RD)]


INPROCESS = False      # set per tier by plan()


class HarnessError(BaseException):
    pass


class Entry(object):
    def __init__(self, double, hs=0):
        self.double = double
        self.hs = hs
        self.closed = False


def raw(cs):
    return getattr(cs, "raw", cs)


def run_case(case):
    """Returns (failures, info)."""
    from ioflo.aid.consoling import getConsole
    console = getConsole()
    if console._verbosity:
        console.reinit(verbosity=0)
    tls = bool(case["tls"])
    cname = "ServerTls" if tls else "Server"
    server, listen = D.server_on_double(tls=tls)
    ready, pending = {}, {}
    queued = []                      # (double, addr, hs) pushed on the listen socket, not yet accepted
    fails = []
    info = {"repeat": 0, "accepts": 0, "unknown": 0, "promotions": 0, "stale_ready": 0, "stale_pending": 0}
    serial = [0]

    def model_axes(stale):
        """-> True when the pass meets an accepted connection that was already reset (getpeername() fails): the service
        call raises that OSError, the connections accepted before it are entered, the ones behind it stay pending"""
        while queued:
            d, addr, hs = queued.pop(0)
            if d.peer is None:
                info["faults"] = info.get("faults", 0) + 1
                return True
            info["accepts"] += 1
            if tls:
                if addr in pending:
                    stale.append((pending[addr].double, "cxes"))
                    info["stale_pending"] += 1
                if addr in pending or addr in ready:
                    info["repeat"] += 1
                pending[addr] = Entry(d, hs)
            else:
                if addr in ready:
                    stale.append((ready[addr].double, "ixes"))
                    info["repeat"] += 1
                    info["stale_ready"] += 1
                ready[addr] = Entry(d)
        return False

    def model_cxes(stale):
        for addr in list(pending):
            e = pending[addr]
            if e.hs > 0:
                e.hs -= 1
                continue
            if addr in ready and ready[addr].double is not e.double:
                stale.append((ready[addr].double, "ixes"))
                info["stale_ready"] += 1
            ready[addr] = e
            del pending[addr]
            info["promotions"] += 1

    def compare(step, op):
        got = list(server.ixes.keys())
        if sorted(got) != sorted(ready) or len(set(got)) != len(got):
            fails.append(("table-keys:" + cname, "step %d %r: .ixes keys %r != model %r" % (step, op, got, sorted(ready))))
            return False
        if tls:
            gotc = list(server.cxes.keys())
            if sorted(gotc) != sorted(pending):
                fails.append(("table-keys:" + cname, "step %d %r: .cxes keys %r != model %r" % (step, op, gotc, sorted(pending))))
                return False
        for table, model, tname in ((server.ixes, ready, "ixes"),) + (((server.cxes, pending, "cxes"),) if tls else ()):
            for addr, e in model.items():
                ix = table[addr]
                if ix.ca != addr:
                    fails.append(("entry-address:" + cname, "step %d %r: .%s[%r].ca is %r" % (step, op, tname, addr, ix.ca)))
                    return False
                if e.closed:
                    if ix.cs is not None or not e.double.closed:
                        fails.append(("close-not-closed:" + cname, "step %d %r: entry %r was closed but its socket is not" % (step, op, addr)))
                        return False
                elif raw(ix.cs) is not e.double:
                    fails.append(("entry-socket:" + cname, "step %d %r: .%s[%r] holds %r, the latest connection accepted from that "
                                  "address is %r" % (step, op, tname, addr, raw(ix.cs), e.double)))
                    return False
        return True

    for step, op in enumerate(case["ops"]):
        kind = op[0]
        stale = []
        expect_value_error = False
        try:
            expect_fault = False
            if kind == "acceptreset":
                # a connection that the far side has reset before it is serviced: accepted, but getpeername() raises ENOTCONN
                addr = ADDRS[op[1]]
                serial[0] += 1
                d = D.FakeSocket(peer=addr, sock=server.eha, name="r%d" % serial[0])
                listen.push(d, addr)
                d.peer = None
                queued.append((d, addr, 0))
            elif kind == "accept":
                addr = ADDRS[op[1]]
                hs = op[2] if tls else 0
                serial[0] += 1
                d = D.FakeSocket(peer=addr, sock=server.eha, name="c%d" % serial[0],
                                 do_handshake=[D.WANT_READ if i % 2 == 0 else D.WANT_WRITE for i in range(hs)])
                listen.push(d)
                queued.append((d, addr, hs))
            elif kind in ("axes", "cxes", "connects", "all"):
                if kind == "cxes" and not tls:
                    kind = "connects"
                if kind == "all" and any(e.closed for e in ready.values()):
                    kind = "connects"
                if kind == "cxes":
                    model_cxes(stale)
                    server.serviceCxes()
                else:
                    expect_fault = model_axes(stale)
                    meth = {"axes": server.serviceAxes, "connects": server.serviceConnects}.get(kind, server.serviceAll)
                    raised = False
                    try:
                        meth()
                    except OSError as ex:
                        if not (expect_fault and ex.errno == errno.ENOTCONN):
                            raise
                        raised = True      # the pass ends at the dead connection; the ones behind it stay pending
                    if not raised:
                        # (a dead connection dropped without an error is fine too: then the whole pass has run)
                        while expect_fault:
                            expect_fault = model_axes(stale)
                        if tls and kind != "axes":
                            model_cxes(stale)
                if kind != "cxes" and not queued and (listen.pending or server.axes):
                    fails.append(("accept-left:" + cname, "step %d %r: %d queued connections were not accepted into the table"
                                  % (step, op, len(listen.pending) + len(server.axes))))
                    break
            elif kind in ("peerclose", "peerdata", "peerreset"):
                e = ready.get(ADDRS[op[1]])
                if e is not None and not e.closed:
                    if kind == "peerclose":
                        e.double.scripts["recv"].default = b""
                    elif kind == "peerreset":
                        # the peer has reset the connection: the kernel refuses shutdown() of this socket from now on
                        # with ENOTCONN (an OSError that is no ConnectionError); nothing more arrives on it
                        e.double.scripts["recv"].default = b""
                        e.double.shutdown_error = errno.ENOTCONN
                        info["reset"] = info.get("reset", 0) + 1
                    else:
                        e.double.scripts["recv"].push(bytes(range(op[2])))
            elif kind == "remove":
                addr = ADDRS[op[1]]
                shutclose = bool(op[2])
                e = ready.get(addr)
                expect_value_error = e is None
                if e is not None:
                    del ready[addr]
                if shutclose:
                    server.removeIx(addr)
                else:
                    server.removeIx(addr, shutclose=False)
                if e is not None and shutclose and not e.double.closed:
                    fails.append(("remove-not-closed:" + cname, "step %d %r: removeIx did not close the socket of %r" % (step, op, addr)))
                    break
            elif kind == "close":
                addr = ADDRS[op[1]]
                e = ready.get(addr)
                expect_value_error = e is None
                server.closeIx(addr)
                if e is not None:
                    e.closed = True
            elif kind == "dropbroken":
                # the entry still has data queued for a peer that is gone (a send on its socket now fails with EPIPE) and is
                # removed / closed at once: removal closes the socket whatever is still queued, and does not raise
                addr = ADDRS[op[1]]
                e = ready.get(addr)
                if e is not None and not e.closed and addr in server.ixes:
                    server.transmitIx(b"still queued", addr)
                    e.double.scripts["send"].default = lambda: BrokenPipeError(errno.EPIPE, "Broken pipe")
                    info["dropbroken"] = info.get("dropbroken", 0) + 1
                    if op[2]:
                        del ready[addr]
                        server.removeIx(addr)
                    else:
                        server.closeIx(addr)
                        e.closed = True
                    if not e.double.closed:
                        fails.append(("remove-not-closed:" + cname, "step %d %r: the socket of %r (data still queued, peer gone) was not "
                                      "closed" % (step, op, addr)))
                        break
            elif kind == "shutdown":
                addr = ADDRS[op[1]]
                meth, how = HOWS[op[2]]
                e = ready.get(addr)
                expect_value_error = e is None
                getattr(server, meth)(addr)
                if e is not None and not e.closed and how not in e.double.shuts:
                    fails.append(("shutdown-missing:" + cname, "step %d %r: %s did not shut the socket down (%r)"
                                  % (step, op, meth, e.double.shuts)))
                    break
            else:
                raise HarnessError("unknown op %r" % (op,))
        except ValueError as ex:
            if not expect_value_error:
                fails.append((D.exc_site(ex) + ":" + cname, "step %d %r raised %r" % (step, op, ex)))
                break
            info["unknown"] += 1
        except Exception as ex:       # noqa: BLE001
            fails.append((D.exc_site(ex) + ":" + cname, "step %d %r raised %r (model: ixes %r%s)"
                          % (step, op, ex, sorted(ready), (", cxes %r" % sorted(pending)) if tls else "")))
            break
        else:
            if expect_value_error:
                fails.append(("unknown-address-accepted:" + cname, "step %d %r: no ValueError for an address without entry" % (step, op)))
                break
        bad = [(d, t) for d, t in stale if not d.was_shut()]
        if bad:
            fails.append(("stale-not-shut:%s:%s" % (cname, bad[0][1]),
                          "step %d %r: the stale connection %r (entry in .%s) was replaced by a new connection from the same "
                          "address but never shut down (log %r)" % (step, op, bad[0][0], bad[0][1], bad[0][0].log[-3:])))
            break
        if not compare(step, op):
            break
    return fails, info


# ------------------------------------------------------------------ generators
def alphabet(tls):
    if tls:
        return [["accept", 0, 0], ["accept", 0, 1], ["accept", 1, 0], ["connects"], ["all"],
                ["remove", 0, 1], ["close", 0], ["peerclose", 0]]
    return [["accept", 0, 0], ["accept", 1, 0], ["connects"], ["all"],
            ["remove", 0, 1], ["close", 0], ["shutdown", 0, 0], ["peerclose", 0]]


def history_strategy(maxlen):
    """Histories are built from short phrases (accept; accept + service; service; peer close + service;
    single table operations) with addresses biased towards address 0, so that most histories accept
    again from an address that still has an entry (measured: see the class counts in the evidence)."""
    a = st.sampled_from([0, 0, 0, 1, 1, 2])
    k = st.sampled_from([0, 0, 1, 2])
    service = st.sampled_from([["connects"], ["all"], ["connects"], ["all"], ["axes"], ["cxes"]])
    phrase = st.one_of(
        st.builds(lambda x, h: [["accept", x, h]], a, k),
        st.builds(lambda x, h, sv: [["accept", x, h], sv], a, k, service),
        st.builds(lambda x, h, sv: [["accept", x, h], sv], a, k, service),
        st.builds(lambda x, h, sv: [["accept", x, h], sv, sv], a, k, service),
        st.builds(lambda sv: [sv], service),
        st.builds(lambda x, sv: [["peerclose", x], sv], a, service),
        st.builds(lambda x, n: [["peerdata", x, n]], a, st.integers(1, 9)),
        st.builds(lambda x: [["peerreset", x]], a),
        st.builds(lambda x, y, h, sv: [["accept", x, 0], ["acceptreset", y], ["accept", y, h], sv, sv], a, a, k, service),
        st.builds(lambda y: [["acceptreset", y]], a),
        st.builds(lambda x, b: [["remove", x, int(b)]], a, st.booleans()),
        st.builds(lambda x: [["close", x]], a),
        st.builds(lambda x, b: [["dropbroken", x, int(b)]], a, st.booleans()),
        st.builds(lambda x, h: [["shutdown", x, h]], a, st.integers(0, 2)),
    )
    return st.lists(phrase, min_size=4, max_size=max(4, maxlen // 2)).map(
        lambda ps: [op for ph in ps for op in ph][:maxlen])


def classes_of(tls, info, nops):
    cls = ["ServerTls" if tls else "Server"]
    cls.append("repeat-address" if info["repeat"] else "no-repeat")
    if info["repeat"] >= 2:
        cls.append("repeat>=2")
    if info["stale_pending"]:
        cls.append("stale-pending-replaced")
    if info["stale_ready"]:
        cls.append("stale-ready-replaced")
    if info.get("reset"):
        cls.append("peer-reset-shutdown-fails")
    if info.get("faults"):
        cls.append("accepted-connection-already-reset")
    if info["unknown"]:
        cls.append("unknown-address-op")
    if info["promotions"]:
        cls.append("tls-promotion")
    return cls


def _freeze():
    """plan() runs in the parent just before the worker pool forks: move everything allocated so far
    (ioflo, hypothesis) out of the collector's reach so that collections in the children do not touch
    (and copy) the inherited pages - measured 3-10x faster shards on this VM."""
    import gc
    gc.collect()
    gc.freeze()


def plan(tier):
    import ioflo.aio.tcp.serving  # noqa: preload before fork
    global INPROCESS
    INPROCESS = tier == "quick"      # quick needs ~8 s of one core; thorough fans out over the pool
    _freeze()
    shards = []
    for tls in (0, 1):
        for first in range(8):
            shards.append({"part": "exh", "tls": tls, "first": first})
    nrand = 8 if tier == "quick" else 32
    for i in range(nrand):
        shards.append({"part": "rand", "tls": i % 2, "i": i})
    return shards


def work(shard, seed, tier):
    acc = Acc()
    tls = shard["tls"]
    if shard["part"] == "exh":
        alpha = alphabet(tls)
        n = 0
        for length in range(1, (5 if tier == "quick" else 7)):
            for rest in itertools.product(range(8), repeat=length - 1):
                ops = [alpha[shard["first"]]] + [alpha[i] for i in rest]
                case = {"tls": tls, "ops": ops}
                fails, info = run_case(case)
                acc.case(key=case, nontrivial=info["repeat"] > 0, classes=["exh:" + c for c in classes_of(tls, info, len(ops))],
                         sample=case if n % 1201 == 700 else None)
                for sig, what in fails:
                    acc.fail(sig, what, case)
                n += 1
        acc.exhaustive = True
        acc.note("every history of <= %d operations over the 8-operation alphabets enumerated for Server and ServerTls"
                 % (4 if tier == "quick" else 6))
        return acc
    n = 150 if tier == "quick" else 1600
    maxlen = 25 if tier == "quick" else 60

    def execute(ops):
        case = {"tls": tls, "ops": ops}
        fails, info = run_case(case)
        return Outcome(fails, nontrivial=info["repeat"] > 0, classes=["rand:" + c for c in classes_of(tls, info, len(ops))],
                       key=case, sample=case)

    campaign(acc, history_strategy(maxlen), execute, n, seed * 1000 + shard["i"],
             to_case=lambda ops: {"tls": tls, "ops": ops}, budget=Budget(60 if tier == "quick" else 400))
    return acc


def replay(case):
    case = {"tls": case["tls"], "ops": [list(o) for o in case["ops"]]}
    return run_case(case)[0]
