"""C27 Reconnectable clients and stacks eventually reconnect.

Generator: schedules of service rounds (store time advanced in exact eighths of the
reconnect timeout, no sleeps) interleaved with network events - server up / down (refusing
or black-holing new connections), connections cut (EOF or RST), bytes pushed, requests
queued - for a bare tcp Client, an http Patron and a TcpClientStack (handler passed in with
reconnectable=True), reconnectable or not. Two engines:
  * "double": `socket.socket` inside ioflo.aio.tcp.clienting is replaced by a scripted
    double (vp.net.tcp2_doubles.ClientNet) whose connect_ex results follow the schedule
    (connect latency 0..2 calls, immediate or delayed ECONNREFUSED, Linux or BSD behaviour of
    a failed socket, SYNs lost for ever while black-holed);
  * "loop": real loopback sockets; a listener on a process-private 127.x.y.z address is
    opened / closed by the schedule, accepted connections are closed (FIN) or reset (RST).
    Between rounds the harness waits (bounded select, never a verdict) until the kernel has
    resolved the pending connect or delivered the FIN/RST.
  * "sse": a reconnectable Patron reading a server-sent-event stream (retry field in the stream) from a raw
    loopback listener that cuts the stream two or three times; after each cut the patron must be live again
    within 6 service rounds after cut time + max(timeout, retry).
Every schedule ends with a tail: the server is up for good and 22 more rounds follow one
eighth of the timeout apart.

Oracle (bounded liveness, K = 4 service rounds; derivation in RULE):
  * aligned: from the first round, after the server is up for good, that starts with the
    client not live (not connected, or cut off) at a time >= creation time of its current
    socket + timeout (so its reconnect timer has expired: the timer is never restarted later
    than the socket is created), the client is live within K rounds. When a connect to a
    listening server needs 3 connect_ex calls (double latency 2) this is demanded only while
    the K rounds lie within one timeout (a connect slower than the timeout is legitimately
    given up); with latency <= 1 - always on loopback - it is demanded at any service rate.
    A schedule event that kills an established connection is a new loss and cancels a
    pending obligation;
  * tail: in the tail the client is live at the latest K rounds after the round at
    tail start + timeout;
  * whenever the client says it is connected (and not cut off) its socket really is connected
    and ca / ha equal that socket's getsockname() / getpeername() (for the stack also
    local.ha); on loopback the server's accepted peer address equals ca;
  * a client that is not reconnectable creates no new socket after it has flagged cutoff;
  * no service call raises.
"""
import errno
import os
import select
import socket
import struct
import traceback

from hypothesis import strategies as st

from vp.core import env
from vp.core.acc import Acc
from vp.core.hyp import campaign, Outcome, Budget
from vp.net import tcp2_doubles as dbl

PROPERTY = "C27"
LEVEL = "exploration"
INPROCESS = True      # a case costs < 1 ms; forking 8 workers costs more than the whole quick search
K = 4                 # rounds: [reopen] [connect_ex -> EINPROGRESS] [-> EALREADY] [-> 0]
TAIL = 16 + K + 2     # rounds in the final always-up phase, 1/8 timeout apart
RULE = ("Hypothesis-generated schedules (<= 24 steps of [dt in eighths of the timeout, event]) + fixed tail of %d rounds "
        "with the server up, run against Client / Patron / TcpClientStack with scripted socket doubles (connect_ex "
        "results derived from the simulated server mode: up, refuse, blackhole; latency 0..2 calls) and, fewer, real "
        "loopback listeners opened/closed by the schedule; oracle = bounded liveness with K=%d rounds (code path: "
        "round 1 timer-expired reopen, round 2 connect_ex->EINPROGRESS, round 3 ->EALREADY (latency 2), round 4 ->0) "
        "counted from the first not-live round at or after max(final server-up, current socket creation + timeout) and "
        "again in the tail, address equality ca/ha vs the live socket, no new socket after cutoff when not reconnectable; "
        "non-trivial = the client became live after >= 1 failed/abandoned attempt, or a cutoff was flagged after a "
        "successful connection; distinct = distinct schedule+parameters" % (TAIL, K))
ASSUMPTIONS = [
    "reconnect timeout > 0 (timeout 0 disables the timer in the code); server-sent-event responses change the timer duration to the stream's retry time and are exercised by the separate sse scenarios (bound: max(timeout, retry) after the cut)",
    "when a connect to a listening server takes 3 connect_ex calls (double latency 2) the liveness bound is demanded only "
    "while the K rounds lie within one timeout (a connect slower than the reconnect timeout is legitimately abandoned); "
    "with latency <= 1 (always on loopback) it is demanded at any service rate, including service period >= timeout",
    "a service round of a bare Client is serviceConnect(); serviceReceives(); serviceTxes(); of Patron / TcpClientStack it is serviceAll()",
    "doubles report only errnos the code lists as handled: EINPROGRESS, EALREADY, ECONNREFUSED, EINVAL, EISCONN, EAGAIN, ECONNRESET (never EPIPE)",
    "double: a SYN sent while the server black-holes is lost for ever (worst case of SYN retransmission back-off); connect latency <= 2 extra calls",
    "loopback: 127.0.0.0/8 is routed to lo; a select() of <= 3 s that does not fire makes the case inconclusive, never failing",
]
META = {
    "level": LEVEL,
    "text": "Schedules of server outages, refused / black-holed / reset connections and service timing around the reconnect "
            "timeout are generated and executed against the three client classes with simulated store time; liveness is "
            "checked as a bounded-response property whose bound is derived from the connect code path, so a client that "
            "never reopens, reopens on every call, or keeps a stale address is reported with the schedule.",
    "note": "Trusts the harness socket doubles / loopback orchestration and the round-bound K=4. Absence of violations is "
            "shown for the explored schedules only.",
    "technique": "Hypothesis-generated fault schedules with scripted socket doubles and real loopback listeners; bounded-liveness monitor",
    "design_ref": "DESIGN.md section 3, C27",
}

HOST = "127.0.0.1"
PORT = 56321
RESPONSE = b"HTTP/1.1 200 OK\r\nContent-Length: 2\r\nContent-Type: text/plain\r\n\r\nok"
TIMEOUTS = [0.125, 0.25, 0.5, 1.0, 2.0]
DOWN = ("refuse", "blackhole")


class Inconclusive(Exception):
    pass


# ------------------------------------------------------------------------------ subjects
class Subject(object):
    """Uniform handle on the three kinds of client."""

    def __init__(self, kind, store, ha, timeout, reconn, opened, nostore=False):
        from ioflo.aio.tcp import clienting
        self.kind = kind
        if kind == "client":
            self.obj = clienting.Client(ha=ha, store=store, timeout=timeout, reconnectable=reconn)
            self.client = self.obj
            if opened:
                self.obj.reopen()
        elif kind == "patron":
            from ioflo.aio.http import clienting as hclienting
            if nostore:     # the Patron makes its own store: its clock is patron.store
                self.obj = hclienting.Patron(hostname=ha[0], port=ha[1], timeout=timeout, reconnectable=reconn)
            else:
                self.obj = hclienting.Patron(store=store, hostname=ha[0], port=ha[1], timeout=timeout,
                                             reconnectable=reconn)
            self.client = self.obj.connector
            if opened:
                self.obj.open()
        else:
            from ioflo.aio.proto import stacking
            handler = clienting.Client(ha=ha, store=store, timeout=timeout, reconnectable=reconn)
            self.obj = stacking.TcpClientStack(stamper=store, ha=ha, handler=handler)
            self.client = self.obj.handler

    def service(self):
        if self.kind == "client":
            self.obj.serviceConnect()
            self.obj.serviceReceives()
            self.obj.serviceTxes()
        else:
            self.obj.serviceAll()

    def request(self):
        if self.kind == "client":
            self.obj.tx(b"ping")
        elif self.kind == "patron":
            self.obj.request(method="GET", path="/r")
        else:
            self.obj.message("ping")

    @property
    def live(self):
        c = self.client
        return bool(c.connected) and not c.cutoff

    def close(self):
        try:
            self.client.close()
        except Exception:
            pass


def _site(ex):
    """innermost ioflo frame of an exception: file:function"""
    site = "?"
    for fs in traceback.extract_tb(ex.__traceback__):
        if "ioflo" in fs.filename:
            site = "%s:%s" % (os.path.basename(fs.filename), fs.name)
    return site


def _plan_steps(case):
    """schedule + tail; index of the first tail step; index from which the server is up for good"""
    steps = [list(s) for s in case["steps"]]
    tail0 = len(steps)
    steps.append([1, "up"])
    steps.extend([1, ""] for _ in range(TAIL - 1))
    up = case.get("start", "refuse") == "up"
    upfrom = 0 if up else None
    for i, (dt, ev) in enumerate(steps):
        if ev in DOWN or ev.startswith("down"):
            up, upfrom = False, None
        elif ev == "up" and not up:
            up, upfrom = True, i
    return steps, tail0, upfrom


class Monitor(object):
    """The oracle, shared by both engines. Fed once per round."""

    def __init__(self, case, subj, tail0, upfrom, timeout, fast_connects):
        self.case = case
        self.fast_connects = fast_connects   # every connect to a listening server completes by the 2nd connect_ex
        self.subj = subj
        self.kind = case["kind"]
        self.reconn = case["reconn"]
        self.tail0 = tail0
        self.upfrom = upfrom
        self.T = timeout
        self.fails = []
        self.classes = set()
        self.oblig = None            # (round index, time, state) of an armed aligned obligation
        self.tail_t0 = None
        self.tail_due = None
        self.failed_seen = False     # set by the engine: the network made an attempt fail
        self.live_after_failure = False
        self.tail_done = False
        self.was_live = False
        self.cut_after_live = False
        self.frozen = None           # non-reconnectable: (number of sockets, cs) when cutoff was flagged
        self.reported = set()

    def fail(self, sig, what):
        if sig not in self.reported:
            self.reported.add(sig)
            self.fails.append((sig, what))

    def connection_killed(self):
        """the schedule cut an established connection: a new loss, the clock of the statement starts again"""
        self.oblig = None

    def before(self, i, t, created):
        """start of round i at time t; created = creation time of the client's current socket"""
        self.live_before = self.subj.live
        if (self.reconn and self.oblig is None and i >= self.upfrom and not self.live_before
                and created is not None and t >= created + self.T):
            self.oblig = (i, t, "cutoff" if self.subj.client.cutoff else "unconnected")
        if self.reconn and i >= self.tail0 and self.tail_due is None and t >= self.tail_t0 + self.T:
            self.tail_due = i

    def after(self, i, t, nsocks, addr_problem):
        c = self.subj.client
        live = self.subj.live
        state = "cutoff" if c.cutoff else "unconnected"
        if live:
            self.was_live = True
            if self.failed_seen:
                self.live_after_failure = True
            if addr_problem:
                self.fail(addr_problem[0] + "@" + self.kind, "round %d t=%s: %s" % (i, t, addr_problem[1]))
        if c.cutoff and self.was_live:
            if not self.cut_after_live:
                self.classes.add("cutoff-flagged-after-live")
            self.cut_after_live = True
        # aligned obligation
        if self.oblig is not None:
            s, ts, st0 = self.oblig
            if live:
                self.classes.add("aligned-obligation-discharged:" + st0)
                self.oblig = None
            elif t - ts >= self.T and not self.fast_connects:
                # a connect that needs 3 calls cannot finish inside one reconnect period at this service rate
                self.classes.add("aligned-obligation-outside-period")
                self.oblig = None
            elif i - s + 1 >= K:
                slow = t - ts >= self.T
                how = "never-reopened-after-cutoff" if c.cutoff else \
                    ("attempts-abandoned:service-period>=timeout" if slow else "unconnected")
                # the abandoned-attempt path is Client.serviceConnect whatever wraps the client
                self.fail("no-reconnect@%s:%s" % ("any" if how.startswith("attempts") else self.kind, how),
                          "%s (reconnectable, timeout %s) not connected %d service rounds after round %d (t=%s): it was %s, "
                          "its socket was older than the timeout and the server has been listening since round %d; now "
                          "(t=%s) connected=%r cutoff=%r" % (self.kind, self.T, K, s, ts, st0, self.upfrom, t,
                                                             c.connected, c.cutoff))
                self.oblig = None
            elif t - ts >= self.T:
                self.classes.add("aligned-obligation-spanning-more-than-timeout")
        # tail obligation
        if self.reconn and self.tail_due is not None and not self.tail_done:
            if live:
                self.tail_done = True
                self.classes.add("tail-live")
            elif i - self.tail_due + 1 >= K:
                self.tail_done = True
                self.fail("no-reconnect@%s:%s" % (self.kind, "never-reopened-after-cutoff" if c.cutoff else "unconnected"),
                          "%s (reconnectable, timeout %s) still %s at t=%s although the server has been listening since "
                          "t=%s and rounds came every timeout/8 (more than timeout + %d rounds): connected=%r cutoff=%r"
                          % (self.kind, self.T, state, t, self.tail_t0, K, c.connected, c.cutoff))
        # non reconnectable: never a new socket after cutoff
        if not self.reconn:
            if self.frozen is not None:
                n0, cs0 = self.frozen
                if nsocks != n0 or (c.cs is not None and c.cs is not cs0):
                    self.fail("reopened-after-cutoff@" + self.kind,
                              "%s with reconnectable=False opened a new socket in round %d (t=%s) after it was cut off"
                              % (self.kind, i, t))
            elif c.cutoff and self.was_live:
                self.frozen = (nsocks, c.cs)
                self.classes.add("nonreconn-cutoff")


# ------------------------------------------------------------------------------ engine: doubles
class Pusher(object):
    """What the simulated server sends. For a Patron only well-formed HTTP: a response (whole, or in
    two parts) only while the patron waits for one, the second part only on the connection that
    carried the first; once a connection died between the parts nothing more is pushed (the
    patron's buffer then holds half a response, and how it copes with that is not C27)."""

    def __init__(self, subj, net):
        self.subj = subj
        self.net = net
        self.rest = b""
        self.sock = None
        self.tainted = False

    def next(self, part):
        if self.subj.kind != "patron":
            return b"po" if part else b"pong"
        live = [s for s in self.net.established if s.cut is None]
        if self.tainted or not live:
            return b""
        if self.rest:
            if live[0] is not self.sock:
                self.tainted = True
                return b""
            data, self.rest = self.rest, b""
            return data
        if not self.subj.obj.waited or self.subj.client.txes:
            return b""
        if part:
            self.rest, self.sock = RESPONSE[30:], live[0]
            return RESPONSE[:30]
        return RESPONSE


def run_double(case):
    """-> (failures, nontrivial, classes)"""
    env.quiet_ioflo()
    from ioflo.aio.tcp import clienting
    from ioflo.base import storing
    T = float(case["timeout"])
    unit = T / 8.0
    ha = (HOST, PORT)
    store = storing.Store(stamp=0.0)
    net = dbl.ClientNet(store, ha, latencies=case["lat"], refuse_immediate=case["immediate"], bsd=case["bsd"])
    net.mode = case.get("start", "refuse")
    steps, tail0, upfrom = _plan_steps(case)
    classes = {"engine:double", "kind:" + case["kind"], "reconn:%s" % case["reconn"], "timeout:%s" % T}
    subj = None
    with dbl.patched_socket(clienting, net.factory):
        try:
            subj = Subject(case["kind"], store, ha, T, case["reconn"], case["open"])
        except Exception as ex:
            return [("exception-%s@%s:%s" % (type(ex).__name__, case["kind"], _site(ex)),
                     "constructing %s raised %r" % (case["kind"], ex))], False, classes
        mon = Monitor(case, subj, tail0, upfrom, T, fast_connects=max(case["lat"]) <= 1)
        pusher = Pusher(subj, net)
        units = 0
        try:
            for i, (dt, ev) in enumerate(steps):
                units += dt
                t = units * unit
                store.changeStamp(t)
                if i == tail0:
                    mon.tail_t0 = t
                if ev == "up":
                    net.set_mode(dbl.UP)
                elif ev in DOWN:
                    if net.established:
                        classes.add("server-down-kills-connection")
                        mon.connection_killed()
                    net.set_mode(ev, case.get("downcut", "eof"))
                    classes.add("down:" + ev)
                elif ev in ("cut-eof", "cut-rst"):
                    if net.cut_all(ev[4:]):
                        classes.add("event:" + ev)
                        mon.connection_killed()
                elif ev in ("push", "push-part"):
                    data = pusher.next(ev == "push-part")
                    if data and net.push(data):
                        classes.add("event:" + ev)
                elif ev == "req":
                    subj.request()
                    classes.add("event:req")
                newest = net.newest
                mon.failed_seen = mon.failed_seen or net.failed_attempts() > 0
                mon.before(i, t, newest.created if newest is not None else None)
                try:
                    subj.service()
                except Exception as ex:
                    mon.fail("exception-%s@%s:%s" % (type(ex).__name__, case["kind"], _site(ex)),
                             "service round %d (t=%s, event %r) raised %r" % (i, t, ev, ex))
                    break
                problem = None
                c = subj.client
                if subj.live:
                    cs = c.cs
                    if cs is None or cs.state != "connected":
                        problem = ("connected-without-live-socket",
                                   "client says connected but its socket is %s" % (cs.state if cs is not None else None))
                    elif tuple(c.ca) != cs.getsockname() or tuple(c.ha) != cs.getpeername():
                        problem = ("stale-address", "ca=%r ha=%r but live socket has %r -> %r"
                                   % (c.ca, c.ha, cs.getsockname(), cs.getpeername()))
                    elif case["kind"] == "stack" and tuple(subj.obj.local.ha) != cs.getsockname():
                        problem = ("stale-address", "stack.local.ha=%r but live socket is bound to %r"
                                   % (subj.obj.local.ha, cs.getsockname()))
                mon.after(i, t, len(net.socks), problem)
            final_live = subj.live
        finally:
            subj.close()
    classes |= mon.classes
    if any(s.syn_mode == dbl.BLACKHOLE for s in net.socks):
        classes.add("attempt-blackholed")
    if any(s.syn_mode == dbl.REFUSE for s in net.socks):
        classes.add("attempt-refused")
    classes.add("final-live" if final_live else "final-not-live")
    classes.add("sockets:%s" % ("1" if len(net.socks) <= 1 else "2-4" if len(net.socks) <= 4 else "5+"))
    if mon.live_after_failure:
        classes.add("live-after-failed-attempt")
    nontrivial = mon.live_after_failure or mon.cut_after_live
    return mon.fails, bool(nontrivial), classes


# ------------------------------------------------------------------------------ engine: loopback
_loop_seq = [0]


def _loop_addr():
    pid = os.getpid()
    _loop_seq[0] += 1
    host = "127.%d.%d.%d" % (1 + (pid >> 16) % 250, (pid >> 8) & 0xFF, 1 + (pid & 0xFF) % 254)
    port = 20000 + (_loop_seq[0] * 7 + pid) % 9000
    return host, port


def _wait(r, w, what):
    got = select.select(r, w, [], 3.0)
    if not (got[0] or got[1]):
        raise Inconclusive("select timeout: " + what)


class LoopServer(object):
    def __init__(self, ha):
        self.ha = ha
        self.ls = None
        self.conns = []

    def up(self):
        if self.ls is None:
            ls = socket.socket(socket.AF_INET, socket.SOCK_STREAM)
            ls.setsockopt(socket.SOL_SOCKET, socket.SO_REUSEADDR, 1)
            try:
                ls.bind(self.ha)
                ls.listen(8)
            except OSError as ex:
                ls.close()
                raise Inconclusive("bind/listen %r: %r" % (self.ha, ex))
            ls.setblocking(False)
            self.ls = ls

    def accept_pending(self):
        while self.ls is not None:
            try:
                cs, ca = self.ls.accept()
            except (BlockingIOError, InterruptedError):
                break
            cs.setblocking(False)
            self.conns.append(cs)

    def cut(self, flavour):
        self.accept_pending()
        n = len(self.conns)
        for cs in self.conns:
            if flavour == "rst":
                cs.setsockopt(socket.SOL_SOCKET, socket.SO_LINGER, struct.pack("ii", 1, 0))
            cs.close()
        self.conns = []
        return n

    def down(self, flavour):
        n = self.cut(flavour)
        if self.ls is not None:
            self.ls.close()
            self.ls = None
        return n

    def serve(self, reply):
        """read what arrived; answer each non-empty read with `reply`"""
        for cs in list(self.conns):
            try:
                data = cs.recv(65536)
            except (BlockingIOError, InterruptedError):
                continue
            except OSError:
                continue
            if data:
                try:
                    cs.send(reply)
                except OSError:
                    pass

    def peers(self):
        out = []
        for cs in self.conns:
            try:
                out.append(cs.getpeername())
            except OSError:
                pass
        return out

    def close(self):
        for cs in self.conns:
            try:
                cs.close()
            except OSError:
                pass
        self.conns = []
        if self.ls is not None:
            self.ls.close()
            self.ls = None


def run_loop(case):
    env.quiet_ioflo()
    from ioflo.base import storing
    T = float(case["timeout"])
    unit = T / 8.0
    ha = _loop_addr()
    store = storing.Store(stamp=0.0)
    wild = bool(case.get("wild")) and case["kind"] != "patron"
    if wild:
        # the client is configured with the wildcard host ('' -> 0.0.0.0), which the kernel connects to this host's
        # loopback address: the configured address and the live socket's peer address differ
        server = LoopServer(("127.0.0.1", ha[1]))
        ha = ("", ha[1])
    else:
        server = LoopServer(ha)
    steps, tail0, upfrom = _plan_steps(case)
    classes = {"engine:loop", "kind:" + case["kind"], "reconn:%s" % case["reconn"], "timeout:%s" % T}
    if wild:
        classes.add("wildcard-host")
    subj = None
    socks_seen = 0
    created = None
    cur_was_connected = False
    try:
        if case.get("start") == "up":
            server.up()
        try:
            nostore = bool(case.get("nostore")) and case["kind"] == "patron"
            subj = Subject(case["kind"], store, ha, T, case["reconn"], case["open"], nostore=nostore)
            if nostore:
                store = subj.obj.store          # time is driven through the client's own store
                classes.add("patron-makes-its-own-store")
        except Exception as ex:
            return [("exception-%s@%s:%s" % (type(ex).__name__, case["kind"], _site(ex)),
                     "constructing %s raised %r" % (case["kind"], ex))], False, classes
        mon = Monitor(case, subj, tail0, upfrom, T, fast_connects=True)
        cur = subj.client.cs
        if cur is not None:
            socks_seen, created = 1, 0.0
        units = 0
        for i, (dt, ev) in enumerate(steps):
            units += dt
            t = units * unit
            store.changeStamp(t)
            if i == tail0:
                mon.tail_t0 = t
            c = subj.client
            if ev == "up":
                server.up()
            elif ev.startswith("down") or ev.startswith("cut"):
                flavour = ev.split("-")[1]
                was = subj.live
                n = server.down(flavour) if ev.startswith("down") else server.cut(flavour)
                if n:
                    classes.add("event:" + ev)
                    mon.connection_killed()
                    if was and c.cs is not None:
                        _wait([c.cs], [], "FIN/RST delivery to the client")
            elif ev == "req":
                subj.request()
                classes.add("event:req")
            mon.before(i, t, created)
            try:
                subj.service()
            except Exception as ex:
                mon.fail("exception-%s@%s:%s" % (type(ex).__name__, case["kind"], _site(ex)),
                         "service round %d (t=%s, event %r) raised %r" % (i, t, ev, ex))
                break
            if c.cs is not cur:
                if cur is not None and not cur_was_connected:
                    mon.failed_seen = True       # a socket was given up before it ever connected
                cur = c.cs
                cur_was_connected = False
                if cur is not None:
                    socks_seen += 1
                    created = t
            if c.connected:
                cur_was_connected = True
            # let the kernel finish what the round started (synchronisation only)
            if c.cs is not None and not c.connected:
                _wait([], [c.cs], "connect resolution")
            problem = None
            if subj.live:
                try:
                    sn, pn = c.cs.getsockname(), c.cs.getpeername()
                except OSError as ex:
                    sn, pn = None, None
                    problem = ("connected-without-live-socket", "client says connected but its socket says %r" % (ex,))
                if problem is None:
                    if tuple(c.ca) != sn or tuple(c.ha) != pn:
                        problem = ("stale-address", "ca=%r ha=%r but live socket has %r -> %r" % (c.ca, c.ha, sn, pn))
                    elif case["kind"] == "stack" and tuple(subj.obj.local.ha) != sn:
                        problem = ("stale-address", "stack.local.ha=%r but live socket is bound to %r" % (subj.obj.local.ha, sn))
                    elif server.ls is not None:
                        # ca is the connected socket's own address, so the server must see that peer
                        if sn not in server.peers():
                            _wait([server.ls], [], "accept queue")
                            server.accept_pending()
                        if sn not in server.peers():
                            raise Inconclusive("accept: peer %r not among accepted %r" % (sn, server.peers()))
                        classes.add("server-side-peer-equals-ca")
            server.accept_pending()
            server.serve(RESPONSE if case["kind"] == "patron" else b"pong")
            mon.after(i, t, socks_seen, problem)
        final_live = subj.live
    except Inconclusive as ex:
        classes.add("inconclusive")
        return [], False, classes | {"inconclusive:" + str(ex).split(":")[0]}
    finally:
        if subj is not None:
            subj.close()
        server.close()
    classes |= mon.classes
    classes.add("final-live" if final_live else "final-not-live")
    if mon.live_after_failure:
        classes.add("live-after-failed-attempt")
    nontrivial = mon.live_after_failure or mon.cut_after_live
    return mon.fails, bool(nontrivial), classes


SSE_K = 6      # service rounds allowed after the (event stream) reconnect time has passed


def run_sse(case):
    """A reconnectable Patron reading a server-sent-event stream over real loopback sockets. The stream is cut
    `cuts` times (FIN or RST) while the listener stays up. After each cut at time t the patron must be live again
    (connector connected, not cut off, a new connection accepted by the listener) within SSE_K service rounds after
    t + max(timeout, retry): its reconnect timer was restarted no later than t with a duration of either the
    configured timeout or the stream's retry time (milliseconds), so it has expired by then.
    With "reconn": False the patron is not reconnectable: after the first cut it must not open a new socket during
    max(timeout, retry) + 2*SSE_K further service rounds.
    case: {"mode": "sse", "timeout": T, "retry": ms, "dt8": eighths of max(T, retry/1000) per round, "cuts": [flavours], "gap": rounds}
    -> (failures, nontrivial, classes)"""
    env.quiet_ioflo()
    from ioflo.base import storing
    from ioflo.aio.http import clienting as hclienting
    T = float(case["timeout"])
    R = case["retry"] / 1000.0
    period = max(T, R)
    dt = period * case["dt8"] / 8.0
    classes = {"engine:sse", "timeout:%s" % T, "retry-ms:%s" % case["retry"], "cuts:%d" % len(case["cuts"])}
    fails = []
    ha = _loop_addr()
    srv = LoopServer(ha)
    store = storing.Store(stamp=0.0)
    patron = None
    head = (b"HTTP/1.1 200 OK\r\nContent-Type: text/event-stream\r\nCache-Control: no-cache\r\n\r\n"
            + b"retry: %d\n\n" % case["retry"])
    n_event = [0]

    def reply():
        n_event[0] += 1
        return head + b"id: %d\ndata: tick %d\n\n" % (n_event[0], n_event[0])

    srv0 = None
    try:
        srv.up()
        if case.get("via_redirect"):
            # the stream is reached through a redirect from another server: the client that follows it must stay as
            # reconnectable (and keep the timeout) it was created with
            ha0 = _loop_addr()
            srv0 = LoopServer(ha0)
            srv0.up()
            classes.add("sse-reached-through-redirect")
        reconn = case.get("reconn", True)
        classes.add("sse-reconnectable" if reconn else "sse-not-reconnectable")
        first = ha0 if srv0 is not None else ha
        patron = hclienting.Patron(store=store, hostname=first[0], port=first[1], timeout=T, reconnectable=reconn)
        patron.open()
        patron.request(method="GET", path="/stream", headers={"Accept": "text/event-stream"})
        t = 0.0
        served = set()

        def service_round():
            patron.serviceAll()
            if srv0 is not None:
                srv0.accept_pending()
                for cs in list(srv0.conns):
                    try:
                        data = cs.recv(65536)
                    except OSError:
                        data = b""
                    if data and id(cs) not in served:
                        served.add(id(cs))
                        try:
                            cs.send(b"HTTP/1.1 302 Found\r\nLocation: http://%s:%d/stream\r\nContent-Length: 0\r\n\r\n"
                                    % (ha[0].encode("ascii"), ha[1]))
                        except OSError:
                            pass
            srv.accept_pending()
            for cs in list(srv.conns):
                try:
                    data = cs.recv(65536)
                except (BlockingIOError, InterruptedError):
                    data = b""
                except OSError:
                    data = b""
                if data and id(cs) not in served:
                    served.add(id(cs))
                    try:
                        cs.send(reply())
                    except OSError:
                        pass

        def live():
            c = patron.connector
            return bool(c.connected and not c.cutoff and srv.conns)

        # establish the stream
        for _ in range(40 if srv0 is None else 90):
            store.changeStamp(t)
            service_round()
            if live() and patron.respondent.evented and patron.events:
                break
            if patron.connector.cs is not None and not patron.connector.connected:
                select.select([], [patron.connector.cs], [], 0.2)
            else:
                select.select([s for s in srv.conns] + ([patron.connector.cs] if patron.connector.cs else []), [], [], 0.05)
            t += dt
        else:
            raise Inconclusive("event stream not established")
        for k, flavour in enumerate(case["cuts"]):
            for _ in range(case["gap"]):
                t += dt
                store.changeStamp(t)
                service_round()
            old = patron.connector.cs
            srv.cut(flavour)
            t_cut = t
            if old is not None:
                _wait([old], [], "FIN/RST of cut %d not delivered" % k)
            if not reconn:
                # not reconnectable: after the cut off it never opens a new socket on its own, event stream or not
                for r in range(int(round(period / dt)) + 2 * SSE_K):
                    t += dt
                    store.changeStamp(t)
                    try:
                        service_round()
                    except Exception as ex:   # noqa: BLE001
                        fails.append(("sse-raises:%s@%s" % (type(ex).__name__, _site(ex)), "service round after cut %d raised %r" % (k, ex)))
                        return fails, True, classes
                    cs = patron.connector.cs
                    if (cs is not None and cs is not old) or srv.conns:
                        fails.append(("reopened-after-cutoff@patron-event-stream",
                                      "Patron with reconnectable=False on an event stream (timeout %s s, retry %s ms) opened a new "
                                      "socket %d service rounds after it was cut off (t=%s, cut at %s)" % (T, case["retry"], r + 1, t, t_cut)))
                        return fails, True, classes
                if patron.connector.cutoff:
                    classes.add("sse-nonreconn-stays-cut-off")
                return fails, bool(patron.connector.cutoff), classes
            deadline_rounds = None
            ok = False
            for r in range(200):
                t += dt
                store.changeStamp(t)
                try:
                    service_round()
                except Exception as ex:   # noqa: BLE001
                    fails.append(("sse-raises:%s@%s" % (type(ex).__name__, _site(ex)), "service round after cut %d raised %r" % (k, ex)))
                    return fails, True, classes
                cs = patron.connector.cs
                if cs is not None and not patron.connector.connected:
                    select.select([], [cs], [], 0.2)       # let the kernel finish the pending connect (never a verdict)
                if live() and patron.connector.cs is not old:
                    ok = True
                    classes.add("sse-reconnected-after-cut-%d" % (k + 1))
                    break
                if t >= t_cut + period:
                    deadline_rounds = (deadline_rounds or 0) + 1
                    if deadline_rounds > SSE_K:
                        break
            if not ok:
                tm = patron.connector.timer
                fails.append(("no-reconnect@patron-event-stream:cut%d" % min(k + 1, 2),
                              "reconnectable Patron on an event stream (timeout %s s, retry %s ms): %d service rounds after "
                              "cut %d + max(timeout, retry) it is still not live although the server is listening "
                              "(connected=%r cutoff=%r, timer duration %r remaining %r)"
                              % (T, case["retry"], SSE_K, k + 1, patron.connector.connected, patron.connector.cutoff,
                                 getattr(tm, "duration", None), getattr(tm, "remaining", None))))
                return fails, True, classes
        return fails, len(case["cuts"]) >= 2, classes
    except Inconclusive as ex:
        classes.add("inconclusive")
        return fails, False, classes
    finally:
        try:
            if patron is not None:
                patron.close()
        except Exception:   # noqa: BLE001
            pass
        srv.close()
        if srv0 is not None:
            srv0.close()


def run_case(case):
    if case.get("mode") == "sse":
        return run_sse(case)
    if case.get("mode") == "loop":
        return run_loop(case)
    return run_double(case)


# ------------------------------------------------------------------------------ generation
DT = st.sampled_from([0, 1, 1, 1, 2, 2, 3, 4, 5, 7, 8, 8, 9, 12, 16, 24])
EV_DOUBLE = st.sampled_from(["", "", "", "", "up", "up", "up", "refuse", "blackhole", "blackhole", "cut-eof", "cut-eof",
                             "cut-rst", "cut-rst", "push", "push-part", "req", "req"])
EV_LOOP = st.sampled_from(["", "", "", "up", "up", "up", "down-fin", "down-rst", "cut-fin", "cut-fin", "cut-rst", "cut-rst", "req"])


def double_cases():
    return st.fixed_dictionaries({
        "mode": st.just("double"),
        "kind": st.sampled_from(["client", "patron", "stack"]),
        "reconn": st.sampled_from([True, True, True, True, False]),
        "timeout": st.sampled_from(TIMEOUTS),
        "lat": st.lists(st.sampled_from([0, 1, 1, 2, 2]), min_size=1, max_size=4),
        "immediate": st.booleans(),
        "bsd": st.booleans(),
        "open": st.booleans(),
        "start": st.sampled_from(["up", "up", "refuse", "blackhole", "blackhole"]),
        "downcut": st.sampled_from(["eof", "rst"]),
        "steps": st.lists(st.tuples(DT, EV_DOUBLE).map(list), min_size=0, max_size=24),
    })


def loop_cases():
    return st.fixed_dictionaries({
        "mode": st.just("loop"),
        "kind": st.sampled_from(["client", "patron", "stack"]),
        "reconn": st.sampled_from([True, True, True, False]),
        "timeout": st.sampled_from(TIMEOUTS),
        "open": st.booleans(),
        "start": st.sampled_from(["up", "down"]),
        "steps": st.lists(st.tuples(DT, EV_LOOP).map(list), min_size=0, max_size=16),
        "wild": st.sampled_from([False, False, True]),
        "nostore": st.sampled_from([False, True]),
    })


def sse_cases():
    return st.fixed_dictionaries({
        "mode": st.just("sse"),
        "timeout": st.sampled_from([0.5, 1.0, 2.0]),
        "retry": st.sampled_from([100, 250, 500, 1000, 3000]),
        "dt8": st.sampled_from([1, 2, 4, 8]),
        "cuts": st.lists(st.sampled_from(["fin", "fin", "rst"]), min_size=2, max_size=3),
        "gap": st.integers(0, 3),
        "reconn": st.sampled_from([True, True, False]),
        "via_redirect": st.sampled_from([False, False, True]),
    })


def _preload():
    """plan() runs in the parent before the worker pool forks: import ioflo there once, so that the
    workers do not each compile it again (no .pyc is written under -B)."""
    env.quiet_ioflo()
    from ioflo.aio.tcp import clienting  # noqa: F401
    from ioflo.aio.http import clienting as hclienting  # noqa: F401
    from ioflo.aio.proto import stacking  # noqa: F401
    from ioflo.base import storing  # noqa: F401


def plan(tier):
    _preload()
    if tier == "quick":
        return [{"part": "double", "i": i, "n": 100} for i in range(6)] + \
               [{"part": "loop", "i": 100 + i, "n": 20} for i in range(2)] + [{"part": "sse", "i": 200, "n": 12}]
    return [{"part": "double", "i": i, "n": 900} for i in range(13)] + \
           [{"part": "loop", "i": 100 + i, "n": 80} for i in range(3)] + [{"part": "sse", "i": 200 + i, "n": 60} for i in range(2)]


def work(shard, seed, tier):
    acc = Acc()

    def execute(case):
        fails, nontrivial, classes = run_case(case)
        return Outcome(fails, nontrivial=nontrivial, classes=sorted(classes), key=case,
                       sample={k: case[k] for k in case if k != "steps"} | {"steps": case.get("steps", [])[:12]})

    strat = double_cases() if shard["part"] == "double" else (sse_cases() if shard["part"] == "sse" else loop_cases())
    campaign(acc, strat, execute, shard["n"], seed * 1000 + shard["i"],
             budget=Budget(30 if tier == "quick" else 480), shrink_examples=300)
    return acc


def replay(case):
    fails, _, _ = run_case(case)
    return fails
