"""C22 Each log rule records exactly the runs and updates it promises.

Generator: histories of share writes interleaved with logger controls. A history is a list of
ticks; every tick is  [writes before the logger] [at most one logger control] [writes after
the logger]  -- the shape a Skedder tick has for a logger scheduled between two writers. Writes
are stamped updates (same or different value, logged or unlogged field, new field, stampNow),
unstamped changes, list appends (streak) and deck pushes. One Logger carries up to seven Logs
(one per rule) with generated loggee / field selections; controls follow the runner protocol
START (RUN | idle)* STOP ... with restarts; a history that ends running is ABORTed the way
Skedder.run does it (close without a final run).

Two families execute the same histories:
  direct  Logger driven with runner.send(START/RUN/STOP) after House(...).assignRegistries()
  flo     the same through FloScript + the real Builder + Skedder.run (tick-bounded): writer
          framer `wa`, the logger, writer framer `wb` in that schedule order (front/mid/back
          combinations), logger period 0 / 0.25 / 0.5 -> controls come from the real scheduler.

Oracle: per-rule reference model over the ordered event history; the log files are parsed back
(two header lines, then `_time<TAB>values` records) and compared line by line.
"""
from collections.abc import MutableSequence
import os
import shutil
import tempfile
import traceback

from vp.core.acc import Acc

PROPERTY = "C22"
LEVEL = "exploration"
RULE = ("Hypothesis-generated histories: 3-14 ticks of [writes-before, one logger control or none, "
        "writes-after] over 1-2 shares + a streak share + a deck share, a Logger with 1-7 Logs (rules "
        "once/always/update/change/streak/deck/never, generated loggee and field selections), restarts, "
        "executed directly (runner.send) and through FloScript+Skedder.run with writer/logger/writer "
        "schedule order; oracle = per-rule event-history model vs the parsed log files. non-trivial = the "
        "logger ran at least twice AND the history has a stamped update placed after a logger run that "
        "wrote an update-rule record in the same tick, or a value-preserving update, or a restart, or a "
        "queued streak/deck element; distinct = distinct history (digest of the whole case)")
ASSUMPTIONS = [
    "a logger run is one START, RUN or STOP-while-running control (Logger.makeRunner); ABORT closes without a run",
    "at most one logger control per tick (Skedder sends one control per tasker per tick)",
    "an 'update' of a loggee is any stamped write of the share (Share.update / stampNow), also of an unlogged field "
    "(test_logging.testLogUpdateFields); Share.change is an unstamped write",
    "record text is '%s' of the stamp then TAB+'%s' per prepared field, empty for a field absent from the share/deck "
    "entry (Log.log / logDeck); default fields = the share's fields at the first START (Log.prepare)",
    "streak uses the first given field (or the share's first field); the queue is a list, a mapping or a mutable sequence that is no list (collections.abc.MutableSequence subclass); deck entries are mappings",
    "field values are ints and short strings (no int/float or bool/int aliasing under !=)",
]
META = {
    "level": LEVEL,
    "text": "Thousands of generated write/run interleavings per run, every rule in every history, compared with an "
            "independent per-rule model on the complete file contents; the space of interleavings is unbounded so "
            "absence of a violation is shown only on the explored histories.",
    "note": "Trusts the harness model of the rule semantics as stated in the property text and Log docstrings; file format "
            "adopted from Log.buildHeader/Log.log.",
    "technique": "Hypothesis history generation + reference model (per-rule) + file round trip, direct drive and FloScript/Skedder drive",
    "design_ref": "DESIGN.md section 3, C22",
}

TICK = 0.125
_TMPROOT = "/dev/shm" if os.path.isdir("/dev/shm") and os.access("/dev/shm", os.W_OK) else None
RULENAMES = {"never": "Never", "once": "Once", "always": "Always", "update": "Update", "change": "Change",
             "streak": "Streak", "deck": "Deck"}
ALLRULES = ["once", "always", "update", "change", "streak", "deck", "never"]

SIG_UPDATE_SAME_TICK = "update-rule-missed-same-tick-update-after-record"
SIG_UPDATE_REUPDATE = "update-rule-missed-same-tick-reupdate-after-record"
SIG_CHANGE_RESTART = "change-rule-restart-forgets-last-logged-values"


# ======================================================================================
# normalisation of a case (so that shrunk / hand-written cases stay executable)

def _norm_controls(case):
    """Return the list of effective controls per tick ('start'|'run'|'stop'|None)."""
    out = []
    if case.get("family") == "flo":
        period = float(case.get("period", 0.0))
        nxt = 0.0
        started = False
        for k in range(len(case["ticks"])):
            t = k * TICK
            if nxt <= t:
                out.append("run" if started else "start")
                started = True
                nxt = nxt + period
            else:
                out.append(None)
        return out
    running = False
    for tick in case["ticks"]:
        c = tick.get("ctl")
        if c == "start" and not running:
            running = True
            out.append("start")
        elif c == "run" and running:
            out.append("run")
        elif c == "stop" and running:
            running = False
            out.append("stop")
        else:
            out.append(None)
    return out


def _fmt(v):
    return "%s" % (v,)


# ======================================================================================
# reference model

class _ShareM(object):
    def __init__(self, init, unstamped=False):
        self.data = {}
        for k, v in init:
            if k not in self.data:
                self.data[k] = list(v) if isinstance(v, list) else (dict(v) if isinstance(v, dict) else v)
        self.stamp = None if unstamped else 0.0        # created (stamped) at store.stamp 0.0 unless set by an unstamped write
        self.upd_event = -1     # event index of the last stamped write
        self.deck = []


class _LogM(object):
    def __init__(self, spec, idx):
        self.rule = spec["rule"]
        self.name = "L%d" % idx
        self.loggees = [(lg["tag"], lg["share"], list(lg["fields"]) if lg.get("fields") else []) for lg in spec["loggees"]]
        self.fields = None      # prepared at first start
        self.header = None
        self.records = []
        self.logged = False
        self.rec_event = -1     # event index of last record
        self.rec_time = None
        self.last = {}          # (tag, field) -> value or _ABSENT   (change rule)
        # as-implemented variants (finding models), only used to name the root cause of a mismatch
        self.alt = {}


_ABSENT = ("<absent>",)


def _prepare(lm, shares):
    if lm.fields is not None:
        return
    lm.fields = []
    if lm.rule == "streak":
        tag, si, fields = lm.loggees[0]
        if fields:
            f = fields[:1]
        else:
            keys = list(shares[si].data.keys())
            f = keys[:1]
        lm.fields.append((tag, si, f))
        for tag2, si2, fields2 in lm.loggees[1:]:
            lm.fields.append((tag2, si2, list(fields2)))
    else:
        for tag, si, fields in lm.loggees:
            f = list(fields) if fields else list(shares[si].data.keys())
            lm.fields.append((tag, si, f))
    hdr = "text\t%s\t%s\n" % (RULENAMES[lm.rule], lm.name)
    line = "_time"
    for tag, si, f in lm.fields:
        if len(f) > 1:
            for fld in f:
                line += "\t%s.%s" % (tag, fld)
        else:
            line += "\t%s" % tag
    lm.header = hdr + line + "\n"


def _line(lm, shares, t):
    s = _fmt(t)
    for tag, si, f in lm.fields:
        sh = shares[si]
        for fld in f:
            if fld in sh.data:
                s += "\t" + _fmt(sh.data[fld])
            else:
                s += "\t"
    return s + "\n"


def _current(lm, shares):
    cur = {}
    for tag, si, f in lm.fields:
        for fld in f:
            cur[(tag, fld)] = shares[si].data.get(fld, _ABSENT)
    return cur


class Model(object):
    """Event-ordered model of one history. After run(): per log header + records and facts
    about the history used for the non-triviality rule and the class labels."""

    def __init__(self, case):
        self.case = case
        self.shares = [_ShareM(s.get("init") or [], s.get("unstamped")) for s in case["shares"]]
        self.logs = [_LogM(spec, i) for i, spec in enumerate(case["logs"])]
        self.event = 0
        self.runs = 0
        self.restarts = 0
        self.started = False
        self.facts = set()
        self.queue_checks = []     # (tick index) -> after this run the queues must be empty
        # variant states for finding models
        for lm in self.logs:
            if lm.rule == "update":
                lm.alt["stamp"] = {"records": [], "time": None}
                lm.alt["seen"] = {"records": [], "seen": {}}
            if lm.rule == "change":
                lm.alt["reset"] = {"records": [], "last": {}}

    # -------------------------------------------------------------- writes
    def write(self, op, t, after_run_in_tick):
        kind = op[0]
        self.event += 1
        if kind in ("upd", "chg"):
            _, si, fld, val = op
            sh = self.shares[si]
            if fld in sh.data and sh.data[fld] == val and self.runs:
                self.facts.add("value-preserving-" + ("update" if kind == "upd" else "change"))
            sh.data[fld] = val
            if kind == "upd":
                self._stamp(sh, si, t, after_run_in_tick)
        elif kind == "now":
            sh = self.shares[op[1]]
            if self.runs:
                self.facts.add("value-preserving-update")
            self._stamp(sh, op[1], t, after_run_in_tick)
        elif kind == "app":
            _, si, fld, elem = op
            lst = self.shares[si].data.get(fld)
            if isinstance(lst, list):
                lst.append(elem)
                self.facts.add("streak-element-queued")
            elif isinstance(lst, dict):
                # a mapping used as the queue: its elements are the (key, value) items in insertion order
                self.mapkeys = getattr(self, "mapkeys", 0) + 1
                lst["e%d" % self.mapkeys] = elem
                self.facts.add("streak-element-queued")
                self.facts.add("streak-mapping-queue")
        elif kind == "push":
            _, si, entry = op
            self.shares[si].deck.append(dict(entry))
            self.facts.add("deck-element-queued")

    def _stamp(self, sh, si, t, after_run_in_tick):
        if after_run_in_tick is not None:
            # was an update-rule record of a log that watches this share written by that run?
            for lm in self.logs:
                if lm.rule == "update" and lm.rec_event == after_run_in_tick and any(s == si for _, s, _ in lm.loggees):
                    if sh.stamp == t:
                        self.facts.add("reupdate-after-update-record-same-tick")
                    else:
                        self.facts.add("update-after-update-record-same-tick")
            self.facts.add("update-after-logger-same-tick")
        sh.stamp = t
        sh.upd_event = self.event

    # -------------------------------------------------------------- logger runs
    def control(self, ctl, t):
        """Returns the event index of the run (or None)."""
        if ctl is None:
            return None
        self.event += 1
        if ctl == "start":
            if self.started:
                self.restarts += 1
                self.facts.add("restart")
            self.started = True
            for lm in self.logs:
                _prepare(lm, self.shares)
                if lm.rule == "change":
                    # as-implemented variant: prepare() rebuilds the last values at every START
                    lm.alt["reset"]["last"] = _current(lm, self.shares)
        self.runs += 1
        for lm in self.logs:
            self._run_log(lm, t)
        return self.event

    def _emit(self, lm, t):
        lm.records.append(_line(lm, self.shares, t))
        lm.logged = True
        lm.rec_event = self.event
        lm.rec_time = t

    def _run_log(self, lm, t):
        shares = self.shares
        rule = lm.rule
        if rule == "never":
            return
        if rule == "once":
            if not lm.logged:
                self._emit(lm, t)
            return
        if rule == "always":
            self._emit(lm, t)
            return
        if rule == "update":
            line = _line(lm, shares, t)
            first = not lm.logged
            # specification: a record iff a stamped write happened after the previous record
            if first or any(shares[si].upd_event > lm.rec_event for _, si, _ in lm.loggees):
                self._emit(lm, t)
            # variant 'stamp': loggee.stamp > time of last record (tree as found)
            a = lm.alt["stamp"]
            if first or any(shares[si].stamp is not None and shares[si].stamp > a["time"] for _, si, _ in lm.loggees):
                a["records"].append(line)
                a["time"] = t
            # variant 'seen': loggee.stamp differs from the stamp it had at the last record
            b = lm.alt["seen"]
            if first or any(shares[si].stamp != b["seen"].get(tag) for tag, si, _ in lm.loggees):
                b["records"].append(line)
                b["seen"] = dict((tag, shares[si].stamp) for tag, si, _ in lm.loggees)
            return
        if rule == "change":
            cur = _current(lm, shares)
            line = _line(lm, shares, t)
            first = not lm.logged
            if first or any(_differs(cur[k], lm.last.get(k, _ABSENT)) for k in cur):
                self._emit(lm, t)
                lm.last = cur
            c = lm.alt["reset"]
            if first:
                c["records"].append(line)
            elif any(_differs(cur[k], c["last"].get(k, _ABSENT)) for k in cur):
                c["records"].append(line)
                c["last"] = cur
            return
        if rule == "streak":
            tag, si, f = lm.fields[0]
            sh = shares[si]
            lm.logged = True
            if f and f[0] in sh.data:
                val = sh.data[f[0]]
                if isinstance(val, list):
                    for elem in val:
                        lm.records.append("%s\t%s\n" % (_fmt(t), _fmt(elem)))
                    del val[:]
                elif isinstance(val, dict):
                    for item in list(val.items()):
                        lm.records.append("%s\t%s\n" % (_fmt(t), _fmt(item)))
                    val.clear()
                else:
                    lm.records.append("%s\t%s\n" % (_fmt(t), _fmt(val)))
            return
        if rule == "deck":
            tag, si, f = lm.fields[0]
            sh = shares[si]
            lm.logged = True
            for entry in sh.deck:
                s = _fmt(t)
                for fld in f:
                    s += ("\t" + _fmt(entry[fld])) if fld in entry else "\t"
                lm.records.append(s + "\n")
            del sh.deck[:]
            return


def _differs(a, b):
    if a is _ABSENT or b is _ABSENT:
        return (a is _ABSENT) != (b is _ABSENT)
    return a != b


def run_model(case):
    m = Model(case)
    ctls = _norm_controls(case)
    for k, tick in enumerate(case["ticks"]):
        t = k * TICK
        for op in tick.get("pre") or []:
            m.write(op, t, None)
        ev = m.control(ctls[k], t)
        for op in tick.get("post") or []:
            m.write(op, t, ev)
    return m, ctls


# ======================================================================================
# real executions

def _ioflo_site(tb):
    site = "?"
    for fr in traceback.extract_tb(tb):
        if "/ioflo/" in fr.filename:
            site = "%s:%s" % (os.path.basename(fr.filename), fr.name)
    return site


def _apply(op, shares):
    kind = op[0]
    if kind == "upd":
        shares[op[1]].update(**{op[2]: op[3]})
    elif kind == "chg":
        shares[op[1]].change(**{op[2]: op[3]})
    elif kind == "now":
        shares[op[1]].stampNow()
    elif kind == "app":
        lst = shares[op[1]].get(op[2])
        if isinstance(lst, (list, SeqQueue)):
            lst.append(op[3])
        elif isinstance(lst, dict):
            MAPKEYS[0] += 1
            lst["e%d" % MAPKEYS[0]] = op[3]
    elif kind == "push":
        from ioflo.aid.odicting import odict
        shares[op[1]].push(odict(sorted(op[2].items())))


class SeqQueue(MutableSequence):
    """A mutable sequence that is not a list (as collections.deque or ioflo's Deck are); prints like a list."""

    def __init__(self, items=()):
        self._l = list(items)

    def __getitem__(self, i):
        return self._l[i]

    def __setitem__(self, i, v):
        self._l[i] = v

    def __delitem__(self, i):
        del self._l[i]

    def __len__(self):
        return len(self._l)

    def insert(self, i, v):
        self._l.insert(i, v)

    def __repr__(self):
        return repr(self._l)

    __str__ = __repr__


MAPKEYS = [0]      # counter of elements put into a mapping-valued streak queue (reset per case)


def _init_share(sh, init, unstamped=False, seq=False):
    from ioflo.aid.odicting import odict
    pairs = []
    seen = set()
    for k, v in init or []:
        if k in seen:
            continue
        seen.add(k)
        pairs.append((k, (SeqQueue(v) if seq else list(v)) if isinstance(v, list) else (dict(v) if isinstance(v, dict) else v)))
    if pairs and unstamped:
        sh.change(odict(pairs))      # unstamped write: the share keeps stamp None
    elif pairs:
        sh.create(odict(pairs))


def _queues_empty(case, shares, model_logs, fails, k):
    """streak / deck must leave the queue empty after every logger run."""
    for i, spec in enumerate(case["logs"]):
        lm = model_logs[i]
        if spec["rule"] == "streak" and lm.fields:
            tag, si, f = lm.fields[0]
            if f:
                val = shares[si].get(f[0])
                if isinstance(val, (list, dict, SeqQueue)) and len(val):
                    fails.append(("streak-queue-not-drained", "tick %d: after the logger run the streak list %r still holds %r"
                                  % (k, f[0], val)))
        if spec["rule"] == "deck":
            si = spec["loggees"][0]["share"]
            if len(shares[si].deck):
                fails.append(("deck-queue-not-drained", "tick %d: after the logger run the deck still holds %d entries"
                              % (k, len(shares[si].deck))))


def run_direct(case, ctls, root, model_logs):
    """Returns (files {log index: text or None}, failures)."""
    from ioflo.base import housing, logging as iolog, globaling as g
    rulevals = {"never": g.NEVER, "once": g.ONCE, "always": g.ALWAYS, "update": g.UPDATE, "change": g.CHANGE,
                "streak": g.STREAK, "deck": g.DECK}
    fails = []
    MAPKEYS[0] = 0
    housing.House.Clear()
    housing.ClearRegistries()
    house = housing.House(name="vp")
    store = house.store
    house.assignRegistries()
    logger = iolog.Logger(name="lg", store=store, schedule=g.ACTIVE, prefix=root)
    house.taskers.append(logger)
    house.mids.append(logger)
    house.orderTaskables()
    store.changeStamp(0.0)
    shares = []
    for s in case["shares"]:
        sh = store.create(s["path"])
        _init_share(sh, s.get("init"), s.get("unstamped"), s.get("seq"))
        shares.append(sh)
    logs = []
    for i, spec in enumerate(case["logs"]):
        log = iolog.Log(name="L%d" % i, store=store, kind="text", rule=rulevals[spec["rule"]])
        for lg in spec["loggees"]:
            log.addLoggee(tag=lg["tag"], loggee=case["shares"][lg["share"]]["path"],
                          fields=list(lg["fields"]) if lg.get("fields") else None)
        logger.addLog(log)
        logs.append(log)
    logger.resolve()
    running = False
    ctlvals = {"start": g.START, "run": g.RUN, "stop": g.STOP}
    try:
        for k, tick in enumerate(case["ticks"]):
            store.changeStamp(k * TICK)
            for op in tick.get("pre") or []:
                _apply(op, shares)
            c = ctls[k]
            if c is not None:
                logger.runner.send(ctlvals[c])
                running = c != "stop"
                _queues_empty(case, shares, model_logs, fails, k)
            for op in tick.get("post") or []:
                _apply(op, shares)
        if running:
            logger.runner.send(g.ABORT)   # what Skedder.run does with a running tasker at shutdown
    except Exception as ex:
        fails.append(("raises-%s@%s" % (type(ex).__name__, _ioflo_site(ex.__traceback__)),
                      "driving the logger raised %r" % (ex,)))
    finally:
        try:
            logger.runner.close()
        except Exception:
            pass
    files = {}
    for i, log in enumerate(logs):
        files[i] = _read(log.path)
    return files, fails


def _read(path):
    if not path or not os.path.exists(path):
        return None
    with open(path, "r") as fh:
        return fh.read()


# ---- flo family -----------------------------------------------------------------------
_FLO = {"ticks": None, "shares": None, "errors": None}
_DOERS = {"done": False}


def _register_doers():
    if _DOERS["done"]:
        return
    from ioflo.base import doing

    def make(which):
        def act(self, **kwa):
            plan = _FLO
            if plan["ticks"] is None:
                return
            k = int(round(self.store.stamp / TICK))
            if 0 <= k < len(plan["ticks"]):
                for op in plan["ticks"][k].get(which) or []:
                    _apply(op, plan["shares"])
        return act

    doing.doify("VpLogPre")(make("pre"))
    doing.doify("VpLogPost")(make("post"))
    _DOERS["done"] = True


def _num(x):
    return ("%r" % float(x))


def flo_text(case, root):
    orders = case.get("orders") or ["front", "mid", "back"]
    lines = ["house vp", "",
             "  framer wa be active in %s first fa" % orders[0],
             "    frame fa",
             "      do vp log pre", "",
             "  logger lg to %s at %s in %s flush 1" % (root, _num(case.get("period", 0.0)), orders[1])]
    for i, spec in enumerate(case["logs"]):
        lines.append("    log L%d on %s" % (i, spec["rule"]))
        parts = []
        for lg in spec["loggees"]:
            p = ""
            if lg.get("fields"):
                p += " ".join(lg["fields"]) + " in "
            p += case["shares"][lg["share"]]["path"] + " as " + lg["tag"]
            parts.append(p)
        lines.append("      loggee " + " ".join(parts))
    lines += ["",
              "  framer wb be active in %s first fb" % orders[2],
              "    frame fb",
              "      do vp log post", ""]
    return "\n".join(lines)


def run_flo(case, ctls, root):
    from vp.flo.build import build_text, run_bounded
    _register_doers()
    fails = []
    text = flo_text(case, root)
    built = build_text(text)
    if not built.ok:     # a harness error (exit 2), never a verdict about the property
        raise RuntimeError("C22 harness: FloScript of the case did not build: %r\n%s" % (built.exc, text))
    house = built.houses[0]
    store = house.store
    store.changeStamp(0.0)
    shares = []
    for s in case["shares"]:
        sh = store.create(s["path"])
        _init_share(sh, s.get("init"), s.get("unstamped"), s.get("seq"))
        shares.append(sh)
    logger = [t for t in house.taskers if t.name == "lg"][0]
    _FLO["ticks"] = case["ticks"]
    _FLO["shares"] = shares
    try:
        tb, exc = run_bounded(built.skedder, len(case["ticks"]) - 1)
        if exc is not None:
            fails.append(("raises-%s@%s" % (type(exc).__name__, _ioflo_site(exc.__traceback__)),
                          "Skedder.run raised %r" % (exc,)))
    finally:
        _FLO["ticks"] = None
        _FLO["shares"] = None
        try:
            logger.runner.close()
        except Exception:
            pass
    files = {}
    for i, log in enumerate(logger.logs):
        files[i] = _read(log.path)
    return files, fails


# ======================================================================================
# oracle

def _is_subseq(small, big):
    it = iter(big)
    return all(any(x == y for y in it) for x in small)


def _compare(lm, text):
    """Compare one log file with the model. Returns [(sig, what)]."""
    rule = lm.rule
    fails = []
    if lm.header is None:      # logger never started: no file may exist
        if text:
            fails.append(("%s-file-without-start" % rule, "log file exists though the logger never started: %r" % text[:200]))
        return fails
    if text is None:
        return [("%s-no-log-file" % rule, "the logger was started but log %s has no file" % lm.name)]
    hdr = lm.header
    lines = text.splitlines(True)
    hl = hdr.splitlines(True)
    if lines[:2] != hl:
        fails.append(("header-wrong-or-missing", "rule %s: file starts with %r, expected header %r" % (rule, lines[:2], hl)))
        recs = [ln for ln in lines if ln not in hl]
    else:
        recs = lines[2:]
        nhdr = sum(1 for ln in recs if ln == hl[0])
        if nhdr:
            fails.append(("header-repeated", "rule %s: header written %d times into one file: %r" % (rule, nhdr + 1, text[:400])))
            recs = [ln for ln in recs if ln not in hl]
    exp = lm.records
    if recs == exp:
        return fails
    # name the root cause
    detail = "rule %s: records in file %r, model expects %r" % (rule, recs, exp)
    if rule == "update":
        if recs == lm.alt["seen"]["records"]:
            return fails + [(SIG_UPDATE_REUPDATE, "a share stamped before AND after the logger's record in one tick: the later "
                             "update is never recorded. " + detail)]
        if recs == lm.alt["stamp"]["records"]:
            return fails + [(SIG_UPDATE_SAME_TICK, "an update made after the logger recorded in the same tick (equal stamps) is "
                             "never recorded. " + detail)]
    if rule == "change" and recs == lm.alt["reset"]["records"]:
        return fails + [(SIG_CHANGE_RESTART, "a change made while the logger was stopped is never recorded after the restart "
                         "(prepare() rebuilds the last values). " + detail)]
    if len(recs) < len(exp) and _is_subseq(recs, exp):
        sig = "%s-missing-record" % rule
    elif len(recs) > len(exp) and _is_subseq(exp, recs):
        sig = "%s-extra-record" % rule
    elif sorted(recs) == sorted(exp):
        sig = "%s-record-order" % rule
    else:
        sig = "%s-record-mismatch" % rule
    return fails + [(sig, detail)]


def check_case(case):
    """Execute one case against the real tree and the model.
    Returns (failures, nontrivial, classes)."""
    from vp.core import env
    env.quiet_ioflo()
    MAPKEYS[0] = 0
    model, ctls = run_model(case)
    root = tempfile.mkdtemp(prefix="vpc22", dir=_TMPROOT)
    try:
        if case.get("family") == "flo":
            files, fails = run_flo(case, ctls, root)
        else:
            files, fails = run_direct(case, ctls, root, model.logs)
        if files is not None:
            for i, lm in enumerate(model.logs):
                fails.extend(_compare(lm, files.get(i)))
    finally:
        shutil.rmtree(root, ignore_errors=True)
    facts = model.facts
    interesting = facts & {"update-after-update-record-same-tick", "reupdate-after-update-record-same-tick",
                           "value-preserving-update", "value-preserving-change", "restart",
                           "streak-element-queued", "deck-element-queued"}
    nontrivial = model.runs >= 2 and bool(interesting)
    classes = ["family:" + case.get("family", "direct"), "runs:%s" % _bucket(model.runs)]
    classes += ["rule:" + lm.rule for lm in model.logs]
    classes += ["fact:" + f for f in sorted(facts)]
    for lm in model.logs:
        classes.append("records:%s:%s" % (lm.rule, _bucket(len(lm.records))))
    if ctls and ctls[-1] != "stop" and model.started:
        classes.append("ends-running-abort")
    # de-duplicate failures with the same signature
    seen = set()
    out = []
    for sig, what in fails:
        if sig not in seen:
            seen.add(sig)
            out.append((sig, what))
    return out, nontrivial, classes


def _bucket(n):
    if n <= 2:
        return str(n)
    if n <= 5:
        return "3-5"
    if n <= 10:
        return "6-10"
    return ">10"


# ======================================================================================
# generator

VALS = [0, 1, 2, 3, "a", "b"]
ELEMS = [0, 1, 7, "e", "f", "hello"]
DECK_ENTRIES = [{"n": 1}, {"n": 2, "e": 3}, {"e": "a"}, {"n": 0, "e": 0, "d": 5}, {"d": 1}, {"n": "b", "d": 2}, {}, {},
                {"e": 2, "n": 3}, {"n": 3, "e": "a", "d": 0}]


def case_strategy(family):
    from hypothesis import strategies as st
    vals = st.sampled_from(VALS)
    elems = st.sampled_from(ELEMS)

    @st.composite
    def build(draw):
        nnormal = draw(st.integers(1, 2))
        # a share may start UNSTAMPED (its fields set by an unstamped write, as a share inited by a script is): its
        # first stamped update may then carry the stamp 0.0
        shares = [{"path": "p.a", "init": [["x", draw(vals)], ["y", draw(vals)]], "unstamped": draw(st.sampled_from([False, False, True]))}]
        if nnormal == 2:
            shares.append({"path": "p.b", "init": [["u", draw(vals)]], "unstamped": draw(st.sampled_from([False, False, True]))})
        fieldsof = {0: ["x", "y", "z"], 1: ["u", "w"]}
        rules = draw(st.one_of(st.just(list(ALLRULES)),
                               st.lists(st.sampled_from(ALLRULES), min_size=1, max_size=3, unique=True)))
        logs = []
        s_idx = d_idx = None
        for rule in rules:
            if rule == "streak":
                s_idx = len(shares)
                # the queues are lists or (a third of the cases) another kind of mutable sequence
                shares.append({"path": "q.s", "init": [["q", draw(st.lists(elems, max_size=2))], ["r", []], ["k", 0], ["m", {}]],
                               "seq": draw(st.sampled_from([False, False, True]))})
                fsel = draw(st.sampled_from([None, ["q"], ["r", "k"], ["r"], ["m"], ["m"]]))
                logs.append({"rule": rule, "loggees": [{"tag": "s", "share": s_idx, "fields": fsel}]})
            elif rule == "deck":
                d_idx = len(shares)
                shares.append({"path": "q.d", "init": []})
                fsel = draw(st.sampled_from([["n"], ["n", "e"], ["e", "n", "g"]]))
                logs.append({"rule": rule, "loggees": [{"tag": "d", "share": d_idx, "fields": fsel}]})
            else:
                which = draw(st.sampled_from([[0], [0, 1], [1], [1, 0]])) if nnormal == 2 else [0]
                lgs = []
                for si in which:
                    pool = fieldsof[si]
                    fsel = draw(st.one_of(st.none(),
                                          st.lists(st.sampled_from(pool), min_size=1, max_size=3, unique=True)))
                    lgs.append({"tag": "t%d" % si, "share": si, "fields": fsel})
                logs.append({"rule": rule, "loggees": lgs})

        # finite table of concrete write operations: one draw per operation
        table = []
        for si in range(nnormal):
            pool = fieldsof[si]
            for v in VALS:
                for fld in pool:
                    table.append(["upd", si, fld, v])
                    table.append(["chg", si, fld, v])
                table.append(["upd", si, pool[0], v])      # bias: the first (always logged by default) field
            table.append(["now", si])
            table.append(["now", si])
        if s_idx is not None:
            for e in ELEMS:
                table.append(["app", s_idx, "q", e])
                table.append(["app", s_idx, "r", e])
                table.append(["app", s_idx, "m", e])
        if d_idx is not None:
            for entry in DECK_ENTRIES:
                table.append(["push", d_idx, entry])
        op = st.sampled_from(table)
        nt = draw(st.integers(3, 14))
        ticks = []
        for k in range(nt):
            pre = draw(st.lists(op, max_size=3))
            post = draw(st.lists(op, max_size=2))
            tick = {"pre": pre, "post": post}
            if family == "direct":
                if k == 0:
                    ctl = draw(st.sampled_from(["start", "start", "start", "none"]))
                else:
                    ctl = draw(st.sampled_from(["run", "run", "run", "run", "none", "stop", "start", "start"]))
                tick["ctl"] = ctl
            ticks.append(tick)
        case = {"family": family, "shares": shares, "logs": logs, "ticks": ticks}
        if family == "flo":
            case["period"] = draw(st.sampled_from([0.0, 0.0, 0.125, 0.25, 0.5]))
            case["orders"] = draw(st.sampled_from([["front", "mid", "back"], ["mid", "mid", "mid"], ["front", "front", "back"],
                                                   ["front", "back", "back"], ["front", "front", "front"], ["mid", "mid", "back"]]))
        return case

    return build()


# ======================================================================================
# harness entry points

def plan(tier):
    if tier == "quick":
        return [{"family": "direct", "i": i} for i in range(5)] + [{"family": "flo", "i": 5 + i} for i in range(3)] + \
            [{"family": "files", "i": 40}]
    return [{"family": "direct", "i": i} for i in range(11)] + [{"family": "flo", "i": 11 + i} for i in range(5)] + \
        [{"family": "files", "i": 40 + i} for i in range(2)]


def check_files(case):
    """The header clause over every log file a logger ever creates - first runs, restarts, a new process on an existing
    prefix (reuse), rotated copies: the configurations, histories and file model of C23 (vp.checks.c23_log_rotation), of
    whose verdicts only the ones about headers are C22's."""
    from vp.checks import c23_log_rotation as R
    fails, r = R.check_case(case)
    fails = [(s, w) for s, w in fails if s.startswith("header-")]
    newproc = any(t[0] == "newproc" for t in case["ticks"])
    classes = ["files", "files:keep=%d" % case["keep"], "files:reuse=%s" % case["reuse"]]
    if newproc:
        classes.append("files:new-process-on-existing-prefix")
    return fails, bool(newproc or case["keep"]), classes


def work(shard, seed, tier):
    from vp.core.hyp import campaign, Outcome, Budget
    acc = Acc()
    family = shard["family"]
    if tier == "quick":
        n = 200 if family == "direct" else 130
        budget = 16
    else:
        n = 3000 if family == "direct" else 1500
        budget = 360

    if family == "files":
        from vp.checks import c23_log_rotation as R

        def execute_files(case):
            fails, nontrivial, classes = check_files(case)
            return Outcome(fails, nontrivial=nontrivial, classes=classes, key=case, sample=None)
        campaign(acc, R.case_strategy(), execute_files, 120 if tier == "quick" else 2500, seed * 1000 + shard["i"],
                 budget=Budget(budget), to_case=lambda c: dict(c, files=True))
        return acc

    def execute(case):
        fails, nontrivial, classes = check_case(case)
        return Outcome(fails, nontrivial=nontrivial, classes=classes, key=case, sample=case)

    campaign(acc, case_strategy(family), execute, n, seed * 1000 + shard["i"], budget=Budget(budget), shrink=False)
    _shrink_failures(acc)
    return acc


def _shrink_failures(acc, seconds=2.0, max_sigs=3):
    """Structural (tick list / op list) delta debugging of the first case of each signature."""
    from vp.core.hyp import shrink_json
    from vp.core.acc import Failure, jsonable, unjson
    for sig in [s for s in sorted(acc.failures) if s != SIG_UPDATE_REUPDATE][:max_sigs]:
        # (the open finding has its minimal case in replays/C22/, no need to shrink it in every shard)
        f0 = acc.failures[sig][0]
        case = unjson(f0.case)

        def still(c, sig=sig):
            if not (isinstance(c, dict) and c.get("ticks") and c.get("logs") and c.get("shares")):
                return False
            try:
                return any(s == sig for s, _ in check_case(c)[0])
            except Exception:
                return False
        small = shrink_json(case, still, seconds)
        if small != case:
            what = [w for s, w in check_case(small)[0] if s == sig]
            if what:
                acc.failures[sig].insert(0, Failure(sig, "(shrunk) " + what[0], jsonable(small)))
                del acc.failures[sig][3:]


def replay(case):
    if case.get("files"):
        return check_files(case)[0]
    fails, _, _ = check_case(case)
    return fails
