"""C25 Transport errors are classified: connection loss cuts off, others raise.

Fault enumeration (the whole table, both tiers). Every errno of the connection-loss set
{ECONNRESET, ENETRESET, ENETUNREACH, EHOSTUNREACH, ENETDOWN, EHOSTDOWN, ETIMEDOUT,
ECONNREFUSED} + TLS EOF, the would-block results (EAGAIN on plain sockets, SSL want-read /
want-write on TLS sockets; EINPROGRESS/EALREADY/EAGAIN as connect_ex results) and a sample
of other errors {EPIPE, EBADF, ENOTCONN, EINVAL, EACCES, ENOMEM, a fatal SSLError} is
injected through socket doubles into each operation (connect_ex result, send, recv,
recvfrom, sendto, do_handshake) of each class (Client, ClientTls, Incomer, IncomerTls,
SocketUdpNb) and stack (GramStack, UdpStack, TcpClientStack), through the direct method and the
service methods, at each position of a short sequence of successful operations.

Oracle = classification table, scoped to the property statement:
  stream send/recv (classes + TcpClientStack): loss -> no raise, returns 0 / b'', cutoff True;
      would-block -> no raise, returns 0 / None, nothing about the connection changes (cutoff,
      socket object, open/connected state) and the next operation works; other -> the same
      error propagates.
  connect: connect_ex reports errors as a return code; any failing code -> connect()/
      serviceConnect() return False without raising ("try again later") and the client is not
      connected; in-progress codes leave the socket untouched. (cutoff is not demanded here:
      Client.accept documents "Returns False if not so try again later".)
  handshake: want-read/want-write -> False, no state change; an error outside the loss set
      propagates. For loss/EOF during the handshake either documented outcome is accepted
      (propagate, or cut off without raising); cut-off semantics are not demanded.
  SocketUdpNb: would-block recvfrom -> (b'', None), state unchanged; other -> propagates. A
      would-block / loss error on sendto may propagate but must not close or replace the socket.
  datagram stacks: loss-set ("transient destination") error on send -> no raise, the packet
      stays queued and is sent by a later service call; on receive -> no raise, no data, the
      stack keeps receiving afterwards; other -> propagates.
"""
import errno

from vp.core.acc import Acc
from vp.net import doubles as D

PROPERTY = "C25"
LEVEL = "fault_enumeration"
RULE = ("full table: subject (Client, ClientTls, Incomer, IncomerTls, SocketUdpNb, GramStack, UdpStack, TcpClientStack) x "
        "operation/entry point (send, receive, serviceTxes, serviceReceives, serviceReceiveOnce, connect/serviceConnect "
        "result, handshake via handshake()/connect()/serviceHandshake(), recvfrom, sendto, serviceTxPkts[Once], "
        "serviceReceives[Once], serviceAll) x fault (8 loss errnos, TLS EOF, would-block forms, 6 other errnos, fatal "
        "SSLError) x position 0-2 (thorough 0-5) after successful operations; oracle = classification table of the "
        "property statement. non-trivial = loss-set fault (incl. TLS EOF) on a TLS class or on a stack; distinct = "
        "distinct (subject, entry, fault, position, variant)")
ASSUMPTIONS = [
    "errors are injected as the platform raises them: OSError(errno, strerror) subclasses, ssl.SSLEOFError(SSL_ERROR_EOF, ..), "
    "ssl.SSLWantReadError/SSLWantWriteError; a TLS socket never raises EAGAIN (OpenSSL reports want-read/want-write)",
    "connect_ex returns error codes instead of raising; for those only 'returns False, no raise, not connected' is demanded",
    "for loss/EOF errors during the TLS handshake both 'propagates' and 'cut off without raising' are accepted",
    "would-block / loss on SocketUdpNb.send (sendto) may propagate (udping documents no classification); only 'socket "
    "not closed/replaced' is demanded there; ETIME (in ioflo's datagram tuple) is not demanded",
    "'other' sample excludes errnos numerically equal to SSL_ERROR_WANT_READ/WRITE/EOF (2, 3, 8) which the TLS classes "
    "cannot distinguish by args[0]",
]
META = {
    "level": LEVEL,
    "text": "The fault space is the finite table operation x error x class x position; it is enumerated completely in "
            "both tiers and each cell is judged against the classification stated by the property.",
    "note": "Trusts vp.net.doubles to raise errors in the shape the platform does (args[0] == errno). Real kernels are not involved.",
    "technique": "exhaustive fault injection through socket doubles, classification-table oracle",
    "design_ref": "DESIGN.md section 3, C25",
}

LOSS = ["ECONNRESET", "ENETRESET", "ENETUNREACH", "EHOSTUNREACH", "ENETDOWN", "EHOSTDOWN", "ETIMEDOUT", "ECONNREFUSED"]
OTHER = ["EPIPE", "EBADF", "ENOTCONN", "EINVAL", "EACCES", "ENOMEM"]
INPROGRESS = ["EINPROGRESS", "EALREADY", "EAGAIN"]
TCP = ["Client", "ClientTls", "Incomer", "IncomerTls"]
TLS = ("ClientTls", "IncomerTls")
STACKS = ("GramStack", "UdpStack", "TcpClientStack")
DEST = [("127.0.0.1", 8002), ("127.0.0.1", 8003), ("10.0.0.9", 8004), ("127.0.0.1", 8005),
        ("127.0.0.1", 8006), ("127.0.0.1", 8007), ("127.0.0.1", 8008), ("127.0.0.1", 8009)]


INPROCESS = True       # the whole table runs in ~1 s (thorough ~3 s); a process pool only adds fork cost


class HarnessError(BaseException):
    pass


def faults_for(subject, handshake=False):
    """Fault specs (JSON) applicable to I/O of `subject`."""
    out = [{"kind": "errno", "name": n} for n in LOSS]
    tls = subject in TLS
    if tls:
        out.append({"kind": "tls_eof"})
        out += [{"kind": "want_read"}, {"kind": "want_write"}]
        out.append({"kind": "tls_error"})
    else:
        out.append({"kind": "errno", "name": "EAGAIN"})
        if errno.EWOULDBLOCK != errno.EAGAIN:
            out.append({"kind": "errno", "name": "EWOULDBLOCK"})
    out += [{"kind": "errno", "name": n} for n in OTHER]
    if handshake:
        out.append({"kind": "errno", "name": "ECONNABORTED"})
    return out


def category(spec):
    k = spec["kind"]
    if k in ("want_read", "want_write"):
        return "would"
    if k == "tls_eof":
        return "loss"
    if k == "tls_error":
        return "other"
    name = spec["name"]
    if name in LOSS:
        return "loss"
    if name in ("EAGAIN", "EWOULDBLOCK"):
        return "would"
    return "other"


def make(spec):
    k = spec["kind"]
    if k == "want_read":
        return D.tls_want_read()
    if k == "want_write":
        return D.tls_want_write()
    if k == "tls_eof":
        return D.tls_eof()
    if k == "tls_error":
        return D.tls_error()
    return D.oserr(getattr(errno, spec["name"]))


def fname(spec):
    return spec.get("name", spec["kind"])


def same_error(raised, injected):
    return raised is not None and type(raised) is type(injected) and raised.args == injected.args


class PrefixFailed(Exception):
    """A fault-free preparatory operation of a case misbehaved; recorded as a failure of the case."""


_ANY = object()


def pre(J, what, fn, *a, **kw):
    """Run a preparatory (fault-free) operation of the case; anything unexpected is a finding about
    ioflo on that case (signature 'prefix-...'), not a harness error."""
    want = kw.get("want", _ANY)
    try:
        res = fn(*a)
    except Exception as ex:       # noqa: BLE001
        J.fails.append(("prefix-%s@%s" % (D.exc_site(ex), J.where), "%s: %s raised %r" % (J.entry, what, ex)))
        raise PrefixFailed()
    if want is not _ANY and not want(res):
        J.fails.append(("prefix-unexpected-result@%s" % (J.where,), "%s: %s returned %r" % (J.entry, what, res)))
        raise PrefixFailed()
    return res


def call(fn, *a):
    try:
        return fn(*a), None
    except Exception as ex:           # noqa: BLE001  (classifying is the point)
        return None, ex


class Judge(object):
    def __init__(self, case):
        self.case = case
        self.fails = []
        self.where = "%s:%s" % (case["subject"], case["op"])     # signature: class + socket operation
        self.entry = "%s.%s" % (case["subject"], case["entry"])
        self.outcome = "?"

    def fail(self, kind, text):
        spec = self.case["fault"]
        cat = category(spec) if self.case.get("mode") != "code" else "code"
        label = "tls_eof" if spec["kind"] == "tls_eof" else cat
        self.fails.append(("%s-%s@%s" % (label, kind, self.where),
                           "%s: %s injected into %s at position %d: %s" % (self.entry, fname(spec), self.case["op"],
                                                                                 self.case["pos"], text)))

    def expect_no_raise(self, ex, what):
        if ex is not None:
            self.fail("raised", "%s must not raise but raised %r" % (what, ex))
            return False
        return True

    def expect_propagates(self, ex, injected):
        if not same_error(ex, injected):
            self.fail("not-propagated", "an error outside the loss / would-block sets must propagate unchanged; got %r"
                      % (ex,))
            return False
        return True


# ------------------------------------------------------------------ stream classes
def snapshot(obj, sock):
    return (obj.cutoff, obj.cs, getattr(obj, "connected", None), getattr(obj, "accepted", None),
            sock.closed, len(sock.shuts))


def build_tcp(subject):
    tls = subject in TLS
    if subject.startswith("Client"):
        return D.client_on_double(tls=tls, bufsize=64)
    return D.incomer_on_double(tls=tls, bs=64)


def run_tcp(case, J):
    subject, entry, pos, spec = case["subject"], case["entry"], case["pos"], case["fault"]
    cat = category(spec)
    inj = make(spec)
    obj, sock = build_tcp(subject)
    chunks = [bytes([65 + i]) * (i + 1) for i in range(pos + 1)]
    server = None
    if entry.startswith("server."):
        server, _listen = D.server_on_double(tls=subject in TLS)
        server.ixes[obj.ca] = obj
        entry = {"server.serviceTxesAllIx": "serviceTxes", "server.serviceReceivesAllIx": "serviceReceives"}[entry]
    if entry in ("send", "serviceTxes"):
        sock.scripts["send"].push(*([D.FULL] * pos + [inj]))
        if entry == "send":
            for i in range(pos):
                pre(J, "send before the fault", obj.send, b"ok", want=lambda r: r == 2)
            before = snapshot(obj, sock)
            res, ex = call(obj.send, b"data")
        else:
            for i in range(pos + 2):
                obj.tx(b"m%d" % i)
            before = snapshot(obj, sock)
            res, ex = call(server.serviceTxesAllIx if server is not None else obj.serviceTxes)
        if cat == "loss":
            if J.expect_no_raise(ex, "a connection-loss error on send"):
                if entry == "send" and res != 0:
                    J.fail("returned-data", "send must report 0 bytes sent, returned %r" % (res,))
                if obj.cutoff is not True:
                    J.fail("no-cutoff", "cutoff must be True after a connection-loss error, is %r" % (obj.cutoff,))
        elif cat == "would":
            if J.expect_no_raise(ex, "a would-block on send"):
                if entry == "send" and res != 0:
                    J.fail("returned-data", "send must report 0 bytes sent, returned %r" % (res,))
                if snapshot(obj, sock) != before:
                    J.fail("state-changed", "would-block changed connection state %r -> %r" % (before[0:1] + before[2:], snapshot(obj, sock)[0:1] + snapshot(obj, sock)[2:]))
                else:
                    res2, ex2 = call(obj.send, b"xy")
                    if ex2 is not None or res2 != 2:
                        J.fail("state-changed", "the send after a would-block did not work: %r %r" % (res2, ex2))
        else:
            J.expect_propagates(ex, inj)
        return
    # receive side
    more = b"ZZZ"
    sock.scripts["recv"].push(*(chunks[:pos] + [inj, more]))
    if entry == "receive":
        for i in range(pos):
            pre(J, "receive before the fault", obj.receive, want=lambda r, i=i: r == chunks[i])
        before = snapshot(obj, sock)
        res, ex = call(obj.receive)
        rx_expected = None
    elif entry == "serviceReceiveOnce":
        for i in range(pos):
            pre(J, "serviceReceiveOnce before the fault", obj.serviceReceiveOnce)
        before = snapshot(obj, sock)
        res, ex = call(obj.serviceReceiveOnce)
        rx_expected = b"".join(chunks[:pos])
    else:
        before = snapshot(obj, sock)
        res, ex = call(server.serviceReceivesAllIx if server is not None else obj.serviceReceives)
        rx_expected = b"".join(chunks[:pos])
    if cat == "loss":
        if J.expect_no_raise(ex, "a connection-loss error on receive"):
            if entry == "receive" and not (isinstance(res, (bytes, bytearray)) and len(res) == 0):
                J.fail("returned-data", "receive must return empty bytes, returned %r" % (res,))
            if rx_expected is not None and bytes(obj.rxbs) != rx_expected:
                J.fail("returned-data", ".rxbs %r != data received before the error %r" % (bytes(obj.rxbs), rx_expected))
            if obj.cutoff is not True:
                J.fail("no-cutoff", "cutoff must be True after a connection-loss error, is %r" % (obj.cutoff,))
    elif cat == "would":
        if J.expect_no_raise(ex, "a would-block on receive"):
            if entry == "receive" and res is not None:
                J.fail("returned-data", "receive must return None when it would block, returned %r" % (res,))
            if rx_expected is not None and bytes(obj.rxbs) != rx_expected:
                J.fail("returned-data", ".rxbs %r != data received before the would-block %r" % (bytes(obj.rxbs), rx_expected))
            if snapshot(obj, sock) != before:
                J.fail("state-changed", "would-block changed connection state")
            else:
                res2, ex2 = call(obj.receive)
                if ex2 is not None or res2 != more:
                    J.fail("state-changed", "the receive after a would-block did not deliver the next chunk: %r %r" % (res2, ex2))
    else:
        J.expect_propagates(ex, inj)


# ------------------------------------------------------------------ connect (result codes) and handshake
def run_connect(case, J):
    from ioflo.aio.tcp import clienting
    subject, entry, pos, spec = case["subject"], case["entry"], case["pos"], case["fault"]
    mode = case.get("mode", "code")
    proxy = D.SocketModuleProxy(lambda *a, **k: D.FakeSocket(peer=None, sock=D.CA))
    with D.patched(clienting, "socket", proxy):
        obj, sock = D.client_on_double(tls=subject in TLS, connect=False)
        code = getattr(errno, spec["name"])
        inj = D.oserr(code)
        sock.scripts["connect_ex"].push(*([errno.EINPROGRESS] * pos + [code if mode == "code" else inj]))
        fn = obj.connect if entry == "connect" else obj.serviceConnect
        for i in range(pos):
            pre(J, "connect attempt answered EINPROGRESS", fn, want=lambda r: not r)
        res, ex = call(fn)
        if mode == "raise":
            J.expect_propagates(ex, inj)
            return
        if J.expect_no_raise(ex, "a connect_ex error code"):
            if res or obj.connected:
                J.fail("connected", "connect reported %r / connected %r although connect_ex returned %s"
                       % (res, obj.connected, spec["name"]))
            if spec["name"] in INPROGRESS and (obj.cs is not sock or sock.closed or sock.shuts):
                J.fail("state-changed", "an in-progress connect result replaced / closed the socket")
        if obj.cs is not None:
            obj.close()


def run_handshake(case, J):
    subject, entry, pos, spec = case["subject"], case["entry"], case["pos"], case["fault"]
    cat = category(spec)
    inj = make(spec)
    script = [D.WANT_READ if i % 2 == 0 else D.WANT_WRITE for i in range(pos)] + [inj]
    if subject == "ClientTls":
        obj, sock = D.client_on_double(tls=True, connect=False)
        sock.scripts["do_handshake"].push(*script)
        if entry == "handshake":
            pre(J, "accept (connect_ex -> 0)", obj.accept, want=bool)
            obj.wrap()
            fn = obj.handshake
        else:
            fn = obj.connect                  # accept + wrap + handshake attempt
        for i in range(pos):
            pre(J, "handshake attempt answered want-read/want-write", fn, want=lambda r: not r)
    else:
        obj, sock = D.incomer_on_double(tls=True, handshake=False)
        sock.scripts["do_handshake"].push(*script)
        fn = obj.handshake if entry == "handshake" else obj.serviceHandshake
        for i in range(pos):
            pre(J, "handshake attempt answered want-read/want-write", fn, want=lambda r: not r)

    def state():
        # the live socket must still be the accepted double (ClientTls.connect wraps it on its first call)
        return (obj.connected, getattr(obj.cs, "raw", obj.cs) is sock, sock.closed, len(sock.shuts), obj.cutoff)
    before = state()
    res, ex = call(fn)
    if cat == "would":
        if J.expect_no_raise(ex, "want-read/want-write during the handshake"):
            if res or obj.connected:
                J.fail("connected", "handshake reported %r / connected %r on a want-read/write" % (res, obj.connected))
            if state() != before:
                J.fail("state-changed", "want-read/write during the handshake changed connection state %r -> %r" % (before, state()))
            else:
                res2, ex2 = call(fn)          # script exhausted -> handshake completes
                if ex2 is not None or not res2 or not obj.connected:
                    J.fail("state-changed", "the handshake attempt after a want-read/write did not complete: %r %r" % (res2, ex2))
    elif cat == "other":
        J.expect_propagates(ex, inj)
    else:   # loss / EOF while handshaking: propagate, or cut off quietly
        if ex is not None:
            J.outcome = "handshake-loss-propagates"
            if not same_error(ex, inj):
                J.fail("changed-error", "a different error came out: %r" % (ex,))
        else:
            J.outcome = "handshake-loss-cutoff"
            if res or obj.connected or obj.cutoff is not True:
                J.fail("swallowed", "handshake error neither propagated nor cut the connection off (returned %r, connected %r, "
                       "cutoff %r)" % (res, obj.connected, obj.cutoff))


# ------------------------------------------------------------------ udp handler and datagram stacks
def run_udp(case, J):
    subject, entry, pos, spec = case["subject"], case["entry"], case["pos"], case["fault"]
    cat = category(spec)
    inj = make(spec)
    obj, sock = D.udp_on_double(ha=("127.0.0.1", 8000))
    if entry == "receive":
        grams = [(b"g%d" % i, DEST[i % len(DEST)]) for i in range(pos + 1)]
        sock.scripts["recvfrom"].push(*(grams[:pos] + [inj, grams[pos]]))
        for i in range(pos):
            pre(J, "receive before the fault", obj.receive, want=lambda r, i=i: r == grams[i])
        res, ex = call(obj.receive)
        if cat == "would":
            if J.expect_no_raise(ex, "a would-block on recvfrom"):
                if res != (b"", None):
                    J.fail("returned-data", "receive must return (b'', None), returned %r" % (res,))
                if obj.ss is not sock or sock.closed or not obj.opened:
                    J.fail("state-changed", "would-block closed / replaced the socket")
                elif obj.receive() != grams[pos]:
                    J.fail("state-changed", "the receive after a would-block did not deliver the next datagram")
        elif cat == "other":
            J.expect_propagates(ex, inj)
        else:
            J.outcome = "udp-recv-loss-%s" % ("propagates" if ex is not None else "swallowed")
            if ex is not None and not same_error(ex, inj):
                J.fail("changed-error", "a different error came out: %r" % (ex,))
        return
    sock.scripts["sendto"].push(*([D.FULL] * pos + [inj]))
    for i in range(pos):
        pre(J, "send before the fault", obj.send, b"ok", DEST[0], want=lambda r: r == 2)
    res, ex = call(obj.send, b"data", DEST[1])
    if cat == "other":
        J.expect_propagates(ex, inj)
    else:
        J.outcome = "udp-send-%s-%s" % (cat, "propagates" if ex is not None else "swallowed")
        if ex is not None and not same_error(ex, inj):
            J.fail("changed-error", "a different error came out: %r" % (ex,))
        if obj.ss is not sock or sock.closed or not obj.opened:
            J.fail("state-changed", "a %s error on sendto closed / replaced the socket" % cat)


def build_gram(subject):
    from ioflo.aio.udp import udping
    from ioflo.aio.proto import stacking
    proxy = D.SocketModuleProxy(lambda *a, **k: D.FakeSocket(peer=None, sock=None))
    with D.patched(udping, "socket", proxy):
        if subject == "UdpStack":
            stack = stacking.UdpStack(name="alpha", ha=("127.0.0.1", 8000))
        else:
            stack = stacking.GramStack(name="alpha", handler=udping.SocketUdpNb(ha=("127.0.0.1", 8000)))
    sock = stack.handler.ss
    if not isinstance(sock, D.FakeSocket) or not stack.handler.opened:
        raise HarnessError("stack handler is not on a double")
    return stack, sock


def run_gram(case, J):
    from ioflo.aio.proto import packeting
    subject, entry, pos, spec = case["subject"], case["entry"], case["pos"], case["fault"]
    cat = category(spec)
    inj = make(spec)
    stack, sock = build_gram(subject)
    once = entry.endswith("Once")
    if entry.startswith("serviceTxPkts"):
        n = pos + 2
        same = case.get("dest") == "same"
        payloads = [b"pkt%d" % i for i in range(n)]
        for i, p in enumerate(payloads):
            stack.transmit(packeting.Packet(packed=p), ha=DEST[0] if same else DEST[i])
        sock.scripts["sendto"].push(*([D.FULL] * pos + [inj]))
        fn = stack.serviceTxPktsOnce if once else stack.serviceTxPkts
        if once:
            for i in range(pos):
                pre(J, "service call before the fault", fn)
        res, ex = call(fn)
        if cat == "loss":
            if J.expect_no_raise(ex, "a transient destination error on datagram send"):
                queued, odd = [], []
                for item in stack.txPkts:      # entries are (packet, ha); anything else cannot be retried
                    try:
                        queued.append(bytes(item[0].packed))
                    except Exception:   # noqa: BLE001
                        odd.append(repr(item)[:80])
                if odd:
                    J.fail("queue-corrupted", "after the error the retry queue holds entries that are not (packet, ha): %s" % (odd,))
                elif payloads[pos] not in queued:
                    J.fail("packet-dropped", "the packet that met the error is no longer queued for retry (queued %r)" % (queued,))
                else:
                    for _ in range(n + 1):
                        res2, ex2 = call(fn)
                        if ex2 is not None:
                            J.fail("retry-raised", "the retry service call raised %r" % (ex2,))
                            break
                    sent = [d for d, a in sock.sentto]
                    missing = [p for p in payloads if p not in sent]
                    if ex2 is None and missing:
                        J.fail("packet-dropped", "after fault-free service calls packets %r were never sent" % (missing,))
        elif cat == "other":
            J.expect_propagates(ex, inj)
        else:
            J.outcome = "gram-send-would-%s" % ("propagates" if ex is not None else "swallowed")
            if ex is not None and not same_error(ex, inj):
                J.fail("changed-error", "a different error came out: %r" % (ex,))
            if stack.handler.ss is not sock or sock.closed or not stack.handler.opened:
                J.fail("state-changed", "a would-block on sendto closed / replaced the socket")
        return
    grams = [(b"g%d" % i, DEST[i % len(DEST)]) for i in range(pos + 1)]
    sock.scripts["recvfrom"].push(*(grams[:pos] + [inj, grams[pos]]))
    fn = stack.serviceReceivesOnce if once else stack.serviceReceives
    if once:
        for i in range(pos):
            pre(J, "service call before the fault", fn)
    res, ex = call(fn)
    got = [(bytes(pk.packed), ha) for pk, ha in stack.rxPkts]
    if cat in ("loss", "would"):
        label = "a transient destination error" if cat == "loss" else "a would-block"
        if J.expect_no_raise(ex, label + " on datagram receive"):
            if got != grams[:pos]:
                J.fail("returned-data", "received packets %r != datagrams that arrived before the error %r" % (got, grams[:pos]))
            elif stack.handler.ss is not sock or sock.closed or not stack.handler.opened:
                J.fail("state-changed", "the error closed / replaced the socket")
            else:
                res2, ex2 = call(fn)
                got = [(bytes(pk.packed), ha) for pk, ha in stack.rxPkts]
                if ex2 is not None or got != grams:
                    J.fail("not-retryable", "the stack did not receive the next datagram afterwards (%r, %r)" % (ex2, got))
    else:
        J.expect_propagates(ex, inj)


def build_tcpstack():
    from ioflo.aio.tcp import clienting
    from ioflo.aio.proto import stacking
    proxy = D.SocketModuleProxy(lambda *a, **k: D.FakeSocket(peer=None, sock=D.CA))
    with D.patched(clienting, "socket", proxy):
        stack = stacking.TcpClientStack(ha=D.HA)
        sock = stack.handler.cs
        stack.serviceConnect()
    if not isinstance(sock, D.FakeSocket) or not stack.handler.connected or stack.handler.cs is not sock:
        raise HarnessError("TcpClientStack handler did not connect on a double")
    return stack, sock


def run_tcpstack(case, J):
    from ioflo.aio.proto import packeting
    subject, entry, pos, spec = case["subject"], case["entry"], case["pos"], case["fault"]
    cat = category(spec)
    inj = make(spec)
    stack, sock = build_tcpstack()
    h = stack.handler
    side = "tx" if case["op"] == "send" else "rx"
    before = (h.cutoff, h.cs, h.connected, sock.closed, len(sock.shuts))
    if side == "tx":
        for i in range(pos + 2):
            stack.transmit(packeting.Packet(packed=b"pkt%d" % i))
        sock.scripts["send"].push(*([D.FULL] * pos + [inj]))
    else:
        chunks = [bytes([65 + i]) * (i + 1) for i in range(pos)]
        sock.scripts["recv"].push(*(chunks + [inj]))
    fn = getattr(stack, entry)
    if entry.endswith("Once") and side == "tx":
        for i in range(pos):
            pre(J, "service call before the fault", fn)
    res, ex = call(fn)
    if cat == "loss":
        if J.expect_no_raise(ex, "a connection-loss error under the stack"):
            if h.cutoff is not True:
                J.fail("no-cutoff", "handler.cutoff must be True after a connection-loss error, is %r" % (h.cutoff,))
            if side == "rx" and entry != "serviceAll" and \
                    b"".join(bytes(p.packed) for p in stack.rxPkts) + bytes(stack.rxbs) != b"".join(chunks):
                J.fail("returned-data", "stack holds data that never arrived")
    elif cat == "would":
        if J.expect_no_raise(ex, "a would-block under the stack"):
            if (h.cutoff, h.cs, h.connected, sock.closed, len(sock.shuts)) != before:
                J.fail("state-changed", "would-block changed connection state")
    else:
        J.expect_propagates(ex, inj)


# ------------------------------------------------------------------ table
def table(tier):
    npos = 3 if tier == "quick" else 6
    cases = []
    for subject in TCP:
        for entry in ("send", "serviceTxes", "receive", "serviceReceives", "serviceReceiveOnce"):
            for spec in faults_for(subject):
                for pos in range(npos):
                    cases.append({"subject": subject, "entry": entry, "op": "send" if entry in ("send", "serviceTxes") else "recv",
                                  "fault": spec, "pos": pos})
    for subject in ("Incomer", "IncomerTls"):
        # the same faults met through the server's own service calls over its table of accepted connections
        for entry in ("server.serviceTxesAllIx", "server.serviceReceivesAllIx"):
            for spec in faults_for(subject):
                for pos in range(npos):
                    cases.append({"subject": subject, "entry": entry, "op": "send" if "Txes" in entry else "recv",
                                  "fault": spec, "pos": pos})
    for subject in ("Client", "ClientTls"):
        for entry in ("connect", "serviceConnect"):
            for name in LOSS + INPROGRESS + ["EINVAL", "EACCES", "ENOMEM", "EPIPE"]:
                for pos in range(npos):
                    cases.append({"subject": subject, "entry": entry, "op": "connect_ex", "mode": "code",
                                  "fault": {"kind": "errno", "name": name}, "pos": pos})
            for name in OTHER:
                for pos in range(npos):
                    cases.append({"subject": subject, "entry": entry, "op": "connect_ex", "mode": "raise",
                                  "fault": {"kind": "errno", "name": name}, "pos": pos})
    for subject in TLS:
        for entry in ("handshake", "connect" if subject == "ClientTls" else "serviceHandshake"):
            for spec in faults_for(subject, handshake=True):
                for pos in range(npos):
                    cases.append({"subject": subject, "entry": entry, "op": "do_handshake", "fault": spec, "pos": pos})
    for entry in ("receive", "send"):
        for spec in faults_for("SocketUdpNb"):
            for pos in range(npos):
                cases.append({"subject": "SocketUdpNb", "entry": entry, "op": "recvfrom" if entry == "receive" else "sendto",
                              "fault": spec, "pos": pos})
    for subject in ("GramStack", "UdpStack"):
        for entry in ("serviceTxPkts", "serviceTxPktsOnce"):
            for dest in ("same", "distinct"):
                for spec in faults_for(subject):
                    for pos in range(npos):
                        cases.append({"subject": subject, "entry": entry, "op": "sendto", "fault": spec, "pos": pos, "dest": dest})
        for entry in ("serviceReceives", "serviceReceivesOnce"):
            for spec in faults_for(subject):
                for pos in range(npos):
                    cases.append({"subject": subject, "entry": entry, "op": "recvfrom", "fault": spec, "pos": pos})
    for entry, side in (("serviceTxPkts", "tx"), ("serviceTxPktsOnce", "tx"), ("serviceReceives", "rx"),
                        ("serviceReceivesOnce", "rx"), ("serviceAll", "rx"), ("serviceAll", "tx")):
        for spec in faults_for("TcpClientStack"):
            for pos in range(npos):
                cases.append({"subject": "TcpClientStack", "entry": entry, "op": "send" if side == "tx" else "recv",
                              "fault": spec, "pos": pos})
    return cases


def run_case(case):
    """Returns (failures, classes, nontrivial)."""
    from ioflo.aid.consoling import getConsole
    console = getConsole()
    if console._verbosity:
        console.reinit(verbosity=0)
    J = Judge(case)
    subject = case["subject"]
    op = case["op"]
    try:
        if op == "connect_ex":
            cat = "connect-" + case["mode"]
            run_connect(case, J)
        elif op == "do_handshake":
            cat = "handshake-" + category(case["fault"])
            run_handshake(case, J)
        else:
            cat = category(case["fault"])
            if subject in TCP:
                run_tcp(case, J)
            elif subject == "SocketUdpNb":
                run_udp(case, J)
            elif subject in ("GramStack", "UdpStack"):
                run_gram(case, J)
            elif subject == "TcpClientStack":
                run_tcpstack(case, J)
            else:
                raise HarnessError("unknown subject %r" % (subject,))
    except PrefixFailed:
        pass
    lossy = op != "connect_ex" and category(case["fault"]) == "loss"
    nt = lossy and (subject in TLS or subject in STACKS)
    classes = [subject, "cat=" + cat, "%s.%s" % (subject, case["entry"])]
    if J.outcome != "?":
        classes.append("outcome=" + J.outcome)
    return J.fails, classes, nt


def _freeze():
    """plan() runs in the parent just before the worker pool forks: move everything allocated so far
    (ioflo, hypothesis) out of the collector's reach so that collections in the children do not touch
    (and copy) the inherited pages - measured 3-10x faster shards on this VM."""
    import gc
    gc.collect()
    gc.freeze()


def plan(tier):
    import ioflo.aio.tcp.serving, ioflo.aio.tcp.clienting, ioflo.aio.udp.udping, ioflo.aio.proto.stacking  # noqa: preload before fork
    _freeze()
    subjects = TCP + ["SocketUdpNb", "GramStack", "UdpStack", "TcpClientStack"]
    return [{"subject": s} for s in subjects]


def work(shard, seed, tier):
    acc = Acc()
    n = 0
    for case in table(tier):
        if case["subject"] != shard["subject"]:
            continue
        fails, classes, nt = run_case(case)
        acc.case(key=case, nontrivial=nt, classes=classes, sample=case if n % 37 == 0 else None)
        for sig, what in fails:
            acc.fail(sig, what, case)
        n += 1
    acc.exhaustive = True
    acc.note("the whole subject x entry point x fault x position table is enumerated in both tiers")
    return acc


def replay(case):
    return run_case(case)[0]
