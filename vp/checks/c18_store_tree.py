"""C18 The data store tree stays well formed under any operation sequence.

Generator: Hypothesis lists of operations (create / createNode / add(Share) / addNode /
change(Share) / fetch / fetchShare / fetchNode) over a small path alphabet with shared
prefixes, dotted variants (leading / trailing / double dots, '', '.'), empty inner segments,
conflicting kinds, shares that carry data whose field names are also path segments, and
the store's own initial entries (`time` share with a `value` field, `meta` node).

Oracle: an abstract tree (nested dicts of model nodes holding the placed objects). The
history is interpreted against a fresh real Store and the model side by side. After every
step the real tree (store.shares) and every lookup by every known path (with a dotted
variant) must agree with the model by *identity*; every node name equals its dotted path,
every share name equals its path modulo leading / trailing dots. An operation the model
rejects must raise ValueError and leave a recursive snapshot of the store unchanged.
"""
from hypothesis import strategies as st

from vp.core.acc import Acc
from vp.core.hyp import campaign, Outcome, Budget

PROPERTY = "C18"
LEVEL = "exploration"
RULE = ("Hypothesis-generated operation histories (up to 30 steps quick / 50 thorough) of create, createNode, "
        "add, addNode, change, fetch, fetchShare, fetchNode over paths built from the segment alphabet "
        "{a,b,c,value,time,meta} (depth 1-4) with leading/trailing/double dots, empty inner segments and "
        "the strings '', '.', '..'; interpreted against a fresh Store and an abstract tree model, compared "
        "after every step (whole tree by identity + lookups of every known path). Non-trivial = the history "
        "contains a rejected operation and a later successful mutation under the same first path segment; "
        "distinct = distinct operation list")
ASSUMPTIONS = [
    "A fresh Store's initial tree (meta node; time, realtime, datetime shares) is taken as the starting model state",
    "Required rejections are those named by the property and the add/addNode/change docstrings: add over an "
    "existing entry, passing through or replacing a share by a node, replacing a node by a share, change of a "
    "missing share, any empty path segment (including a path that is empty after stripping dots)",
    "addNode on a path that already is a node: both behaviours are accepted (the tree returns the existing node, "
    "the docstring says it raises); either way the store must be unchanged",
    "Shares placed with add/change keep the name they were given: compared with the path modulo leading/trailing dots",
    "Key order inside nodes is not checked (not promised by the property)",
]
META = {
    "level": LEVEL,
    "text": "Thousands of generated operation histories with deliberately colliding paths are run against the real "
            "Store and an independent abstract tree; every step is followed by a whole-tree identity comparison, "
            "lookups of every known path and, for rejected operations, a recursive before/after snapshot.",
    "note": "Trusts the harness tree model (60 lines) and the listed reading of which operations must be rejected. "
            "Holds only on the explored histories.",
    "technique": "model-based operation-history testing (Hypothesis op lists vs abstract tree, identity oracle)",
    "design_ref": "DESIGN.md section 3, C18",
}

SEGS = ["a", "a", "a", "b", "b", "b", "c", "value", "value", "time", "meta"]
FIELDS = ["value", "value", "a", "b"]
MUTATORS = ("create", "createNode", "add", "addNode", "change")
LOOKUPS = ("fetch", "fetchShare", "fetchNode")


# ------------------------------------------------------------------------------ generator
def _mkpath(core, lead, trail, empty_at):
    segs = list(core)
    if empty_at is not None and len(segs) >= 2:
        segs.insert(1 + empty_at % (len(segs) - 1), "")
    return "." * lead + ".".join(segs) + "." * trail


def path_strategy():
    dots = st.sampled_from([0, 0, 0, 0, 1, 1, 2])
    depth = st.sampled_from([1, 1, 2, 2, 2, 2, 3, 3, 4])
    core = depth.flatmap(lambda n: st.lists(st.sampled_from(SEGS), min_size=n, max_size=n))
    normal = st.builds(_mkpath, core, dots, dots,
                       st.one_of(*([st.none()] * 11 + [st.integers(0, 3)])))
    special = st.sampled_from(["", ".", "..", "a..", "..a", "a..b", ".a..b.", "a.b..c"])
    return st.one_of(*([normal] * 19 + [special]))


def op_strategy():
    path = path_strategy()
    data = st.one_of(st.none(), st.lists(st.tuples(st.sampled_from(FIELDS), st.integers(0, 9)).map(list),
                                         min_size=1, max_size=2))

    def plain(name):
        return st.builds(lambda p: {"op": name, "path": p}, path)

    def shared(name):
        return st.builds(lambda p, d: {"op": name, "path": p, "data": d}, path, data)

    return st.one_of(plain("create"), plain("create"), plain("createNode"), shared("add"), shared("add"),
                     plain("addNode"), shared("change"), shared("change"),
                     plain("fetch"), plain("fetch"), plain("fetchShare"), plain("fetchNode"))


def history_strategy(max_steps):
    # explicit length draw: Hypothesis' own list sizes are strongly biased to short lists
    op = op_strategy()
    return st.integers(1, max_steps).flatmap(lambda n: st.lists(op, min_size=n, max_size=n))


# ------------------------------------------------------------------------------ model
class MNode(object):
    __slots__ = ("kind", "obj", "children")

    def __init__(self, kind, obj=None):
        self.kind = kind          # 'node' | 'share'
        self.obj = obj            # the real object placed there (nodes: bound when first seen)
        self.children = {}        # only for nodes


def split(path):
    return path.strip(".").split(".")


class Model(object):
    def __init__(self):
        self.root = MNode("node")

    def lookup(self, path):
        cur = self.root
        for lv in split(path):
            if cur.kind != "node":
                return None
            cur = cur.children.get(lv)
            if cur is None:
                return None
        return cur

    def situation(self, path):
        """Classify a lookup path: share / node / absent / below-share / empty-seg."""
        cur = self.root
        levels = split(path)
        for i, lv in enumerate(levels):
            if cur.kind != "node":
                return "below-share"
            if not lv:
                return "empty-seg"
            cur = cur.children.get(lv)
            if cur is None:
                return "absent"
        return cur.kind

    def predict_share(self, levels):
        """add of a share: ('ok', None) or ('reject', reason)."""
        if any(not lv for lv in levels):
            return ("reject", "empty-seg")
        cur = self.root
        for lv in levels[:-1]:
            nxt = cur.children.get(lv)
            if nxt is None:
                return ("ok", None)
            if nxt.kind == "share":
                return ("reject", "through-share")
            cur = nxt
        tail = cur.children.get(levels[-1])
        if tail is not None:
            return ("reject", "exists-" + tail.kind)
        return ("ok", None)

    def predict_node(self, levels):
        if any(not lv for lv in levels):
            return ("reject", "empty-seg")
        cur = self.root
        for i, lv in enumerate(levels):
            nxt = cur.children.get(lv)
            if nxt is None:
                return ("ok", None)
            if nxt.kind == "share":
                return ("reject", "share-to-node" if i == len(levels) - 1 else "through-share")
            cur = nxt
        return ("noop", "existing-node")

    def predict_change(self, levels):
        if any(not lv for lv in levels):
            return ("reject", "empty-seg")
        cur = self.root
        for lv in levels[:-1]:
            nxt = cur.children.get(lv)
            if nxt is None:
                return ("reject", "missing")
            if nxt.kind == "share":
                return ("reject", "through-share")
            cur = nxt
        tail = cur.children.get(levels[-1])
        if tail is None:
            return ("reject", "missing")
        if tail.kind == "node":
            return ("reject", "node-to-share")
        return ("ok", None)

    def place_share(self, levels, obj):
        cur = self.root
        for lv in levels[:-1]:
            nxt = cur.children.get(lv)
            if nxt is None:
                nxt = cur.children[lv] = MNode("node")
            cur = nxt
        cur.children[levels[-1]] = MNode("share", obj)

    def place_node(self, levels, obj):
        cur = self.root
        for lv in levels:
            nxt = cur.children.get(lv)
            if nxt is None:
                nxt = cur.children[lv] = MNode("node")
            cur = nxt
        if cur.obj is None:
            cur.obj = obj

    def paths(self):
        out = []

        def walk(m, prefix):
            for k in m.children:
                p = prefix + [k]
                out.append((".".join(p), m.children[k]))
                if m.children[k].kind == "node":
                    walk(m.children[k], p)
        walk(self.root, [])
        return out


# ------------------------------------------------------------------------------ interpreter
def _snapshot(storing, node, prefix, out):
    for k in list(node.keys()):
        v = dict.__getitem__(node, k)
        p = prefix + [k]
        if isinstance(v, storing.Share):
            try:
                items = repr(list(v.items()))
            except Exception as ex:  # a corrupted share is part of the state as well
                items = "items-raise-%s" % type(ex).__name__
            out.append((".".join(p), "share", id(v), v.name, items, id(v.store)))
        elif isinstance(v, storing.Node):
            out.append((".".join(p), "node", id(v), v.name))
            _snapshot(storing, v, p, out)
        else:
            out.append((".".join(p), "other", id(v), repr(v)[:40]))
    return out


def _compare(storing, store, real, mnode, prefix, fails):
    rkeys = list(real.keys())
    mkeys = list(mnode.children)
    if sorted(rkeys) != sorted(mkeys):
        extra = sorted(set(rkeys) - set(mkeys))
        missing = sorted(set(mkeys) - set(rkeys))
        fails.append(("tree-mismatch", "under '%s': store has unexpected entries %r, lacks %r"
                      % (".".join(prefix), extra, missing)))
        return
    for k in mkeys:
        r = dict.__getitem__(real, k)
        m = mnode.children[k]
        p = ".".join(prefix + [k])
        if m.kind == "share":
            if r is not m.obj:
                fails.append(("share-identity", "entry '%s' is %r, the share most recently placed there is %r"
                              % (p, r, m.obj)))
                continue
            if not isinstance(r.name, str) or r.name.strip(".") != p:
                fails.append(("share-name", "share at '%s' has name %r" % (p, r.name)))
            if r.store is not store:
                fails.append(("share-store", "share at '%s' has .store %r, not the store holding it" % (p, r.store)))
        else:
            if isinstance(r, storing.Share) or not isinstance(r, storing.Node):
                fails.append(("kind-mismatch", "entry '%s' should be a node, is %r" % (p, r)))
                continue
            if m.obj is None:
                m.obj = r
            elif r is not m.obj:
                fails.append(("node-identity", "node at '%s' was replaced by another object" % p))
                continue
            if r.name != p:
                fails.append(("node-name", "node at '%s' has name %r" % (p, r.name)))
            _compare(storing, store, r, m, prefix + [k], fails)


VARIANTS = ("%s", ".%s", "%s.", ".%s.", "..%s", "%s..")


def _lookup_all(store, model, step, fails):
    for i, (p, m) in enumerate(model.paths()):
        q = VARIANTS[(i + step) % len(VARIANTS)] % p
        for fname in LOOKUPS:
            try:
                got = getattr(store, fname)(q)
            except Exception as ex:
                fails.append(("lookup-raises@%s:%s:%s" % (fname, type(ex).__name__, m.kind),
                              "%s(%r) raised %r" % (fname, q, ex)))
                continue
            exp = m.obj
            if fname == "fetchShare" and m.kind != "share":
                exp = None
            if fname == "fetchNode" and m.kind != "node":
                exp = None
            if got is not exp:
                fails.append(("lookup-mismatch@%s:%s" % (fname, m.kind),
                              "%s(%r) returned %r, expected %r (what was most recently placed at '%s')"
                              % (fname, q, got, exp, p)))


def run_history(ops):
    """Interpret ops against a fresh Store and the model. Returns (failures, info)."""
    from vp.core import env
    env.quiet_ioflo()
    from ioflo.base import storing

    storing.Store.Clear()
    store = storing.Store(stamp=0.0)
    model = Model()
    fails = []
    labels = set()
    rejected_firsts = set()
    nontrivial = False

    # the initial tree is adopted as the starting state of the model
    def adopt(real, mnode):
        for k in list(real.keys()):
            v = dict.__getitem__(real, k)
            if isinstance(v, storing.Share):
                mnode.children[k] = MNode("share", v)
            else:
                mnode.children[k] = MNode("node", v)
                adopt(v, mnode.children[k])
    adopt(store.shares, model.root)
    model.root.obj = store.shares

    for step, op in enumerate(ops):
        name = op["op"]
        path = op["path"]
        levels = split(path)
        first = levels[0] if levels else ""
        if name in LOOKUPS:
            m = model.lookup(path)
            sit = model.situation(path)
            exp = m.obj if m is not None else None
            if name == "fetchShare" and (m is None or m.kind != "share"):
                exp = None
            if name == "fetchNode" and (m is None or m.kind != "node"):
                exp = None
            labels.add("lookup:%s" % sit)
            try:
                got = getattr(store, name)(path)
            except Exception as ex:
                fails.append(("lookup-raises@%s:%s:%s" % (name, type(ex).__name__, sit),
                              "step %d: %s(%r) raised %r" % (step, name, path, ex)))
                break
            if got is not exp:
                fails.append(("lookup-mismatch@%s:%s" % (name, sit),
                              "step %d: %s(%r) returned %r, expected %r (path is %s in the model)"
                              % (step, name, path, got, exp, sit)))
                break
            continue

        # ---- mutating operations
        share = None
        site = name
        if name in ("add", "change"):
            share = storing.Share(name=path)
            if op.get("data"):
                share.change([tuple(kv) for kv in op["data"]])
        if name == "add":
            pred = ("reject", "empty-name") if path == "" else model.predict_share(levels)
        elif name == "change":
            pred = model.predict_change(levels)
        elif name == "addNode":
            pred = model.predict_node(levels)
        elif name == "create":
            m = model.lookup(path)
            if m is not None and m.kind == "share":
                pred = ("existing", m)
            else:
                pred = model.predict_share(levels)
                site = "add"
        else:  # createNode
            m = model.lookup(path)
            if m is not None and m.kind == "node":
                pred = ("existing", m)
            else:
                pred = model.predict_node(levels)
                site = "addNode"
        kind, reason = pred
        before = _snapshot(storing, store.shares, [], []) if kind != "ok" else None
        labels.add("%s:%s%s" % (name, kind, ":" + reason if isinstance(reason, str) else ""))

        try:
            if share is not None:
                result = getattr(store, name)(share)
            else:
                result = getattr(store, name)(path)
            raised = None
        except ValueError as ex:
            result, raised = None, ex
        except Exception as ex:
            fails.append(("wrong-exception@Store.%s:%s" % (site, type(ex).__name__),
                          "step %d: %s(%r) raised %r (model: %s %s)" % (step, name, path, ex, kind, reason)))
            break

        what = "step %d: %s(%r)" % (step, name, path)
        if kind == "reject":
            if raised is None:
                fails.append(("not-rejected@Store.%s:%s" % (site, reason),
                              "%s must be rejected (%s) but returned %r" % (what, reason, result)))
                break
            after = _snapshot(storing, store.shares, [], [])
            if after != before:
                diff = [e for e in after if e not in before] + [("gone",) + e for e in before if e not in after]
                fails.append(("rejected-op-changed-store@Store.%s:%s" % (site, reason),
                              "%s was rejected (%s: %s) but changed the store: %r" % (what, reason, raised, diff[:4])))
                break
            rejected_firsts.add(first)
        elif kind in ("existing", "noop"):
            if raised is not None and kind == "existing":
                fails.append(("retrieve-raised@Store.%s" % name, "%s should return the existing entry, raised %r"
                              % (what, raised)))
                break
            if raised is None:
                exp = reason.obj if kind == "existing" else model.lookup(path).obj
                if result is not exp:
                    fails.append(("retrieve-mismatch@Store.%s" % name,
                                  "%s returned %r, not the existing entry %r" % (what, result, exp)))
                    break
            after = _snapshot(storing, store.shares, [], [])
            if after != before:
                fails.append(("retrieve-changed-store@Store.%s" % name, "%s changed the store" % what))
                break
        else:  # ok
            if raised is not None:
                fails.append(("unexpected-reject@Store.%s" % site,
                              "%s raised %r although nothing conflicts in the model" % (what, raised)))
                break
            if name in ("add", "change"):
                if result is not share:
                    fails.append(("return@Store.%s" % name, "%s returned %r, not the share" % (what, result)))
                    break
                model.place_share(levels, share)
            elif name == "create":
                if not isinstance(result, storing.Share) or result.name != ".".join(levels):
                    fails.append(("return@Store.create", "%s returned %r (a share named %r expected)"
                                  % (what, result, ".".join(levels))))
                    break
                model.place_share(levels, result)
            else:
                if not isinstance(result, storing.Node) or isinstance(result, storing.Share):
                    fails.append(("return@Store.%s" % name, "%s returned %r, not a node" % (what, result)))
                    break
                model.place_node(levels, result)
            if first in rejected_firsts:
                nontrivial = True

        # ---- after every mutating step: whole tree + every lookup
        n0 = len(fails)
        _compare(storing, store, store.shares, model.root, [], fails)
        if len(fails) == n0:
            _lookup_all(store, model, step, fails)
        if len(fails) > n0:
            fails[n0:] = [(s, "after %s: %s" % (what, w)) for s, w in fails[n0:n0 + 3]]
            break

    # de-duplicate signatures inside one history
    seen, out = set(), []
    for s, w in fails:
        if s not in seen:
            seen.add(s)
            out.append((s, w))
    if any(k for k in labels if k.startswith("lookup:below-share")):
        labels.add("has:lookup-below-share")
    return out, {"nontrivial": nontrivial, "labels": sorted(labels), "size": len(model.paths())}


# ------------------------------------------------------------------------------ harness glue
def plan(tier):
    n = 8 if tier == "quick" else 16
    return [{"i": i} for i in range(n)]


def work(shard, seed, tier):
    acc = Acc()
    n = 400 if tier == "quick" else 3000
    steps = 30 if tier == "quick" else 50

    def execute(ops):
        fails, info = run_history(ops)
        classes = list(info["labels"])
        classes.append("steps<=10" if len(ops) <= 10 else ("steps<=30" if len(ops) <= 30 else "steps<=50"))
        if info["nontrivial"]:
            classes.append("nontrivial")
        return Outcome(fails, nontrivial=info["nontrivial"], classes=classes, key=ops,
                       sample={"ops": ops[:8], "steps": len(ops)})

    campaign(acc, history_strategy(steps), execute, n, seed * 1000 + shard["i"],
             to_case=lambda ops: {"ops": ops}, budget=Budget(100 if tier == "quick" else 540))
    return acc


def replay(case):
    fails, _ = run_history(case["ops"])
    return fails
