"""C34 HTTP redirects are followed safely to the final response.

2-3 real `Valet` servers on ephemeral loopback ports (`Valet(servant=Server(ha=('127.0.0.1', 0)))`)
run a generated routing table: the request at position i of a generated chain (length 0-4) is
answered with 301/302/303/307 and a `Location` that names position i+1 as

  abs        http://127.0.0.1:<port>/<quoted path>?<query>      (any server: port change)
  abshost    http://localhost:<port>/<quoted path>?<query>      (any server)
  relpath    /<quoted path>?<query>                             (same server)
  relquery   ?<query>                                           (same server, same path, new query)
  relseg     <quoted segment(s)>?<query>, ../<segment>          (same server, resolved
             against the current request path as RFC 3986 / urllib.parse.urljoin does)

and the last position answers 200.  A real redirectable `Patron` issues the first request.

Oracle: the servers see exactly the chain, in order, each hop at the right server with the
right PATH_INFO and the right query arguments (parse_qsl of QUERY_STRING) and a Host header
naming that server's port; the client delivers exactly one response, the final 200, whose
`redirects` list has one entry per hop, in order, with that hop's status and Location.
TLS part (repository test certificates): an https -> https and an http -> https redirect are
followed, an https -> http redirect is refused: the plain server never sees a request and no
final response from it is delivered; the same for two hop chains http -> https -> http and
https -> https -> http, whose last hop must be refused.

Default port: an absolute Location without a port names port 80 whatever port the redirecting server uses: the
redirecting server must not receive the reissued request, the client's requester names port 80, and when a Valet
can be bound to 127.0.0.1:80 the whole chain is checked.

All sockets are closed in `finally`; a run that does not finish within the (generous) bound
of service rounds is recorded as inconclusive, never as a violation.
"""
import os
from urllib.parse import parse_qsl, quote, urlencode, urljoin

from hypothesis import strategies as st

from vp.core import env
from vp.core.acc import Acc
from vp.core.hyp import campaign, Outcome, Budget
from vp.net import httppipe

PROPERTY = "C34"
LEVEL = "exploration"
RULE = ("Hypothesis-generated redirect chains of length 0-4 over 2-3 real loopback Valet servers: per hop a status "
        "from {301,302,303,307}, a Location style (absolute 127.0.0.1 / absolute localhost / absolute-path relative / "
        "path-relative incl. '../'), a target server, a unicode path and query arguments with reserved characters; "
        "a real redirectable Patron issues the first GET; plus a small TLS part (https->https and http->https "
        "followed, https->http refused, also as the last hop of http->https->http and https->https->http chains) with the repository test certificates. non-trivial = the chain contains a relative Location or a "
        "port change; distinct = distinct generated chain")
ASSUMPTIONS = [
    "urllib.parse.urljoin is the reference for resolving a relative Location against the request URL (RFC 3986)",
    "urllib.parse.parse_qsl(keep_blank_values=True) is the reference decoder of query strings",
    "only GET requests are redirected (what a redirect does to the method/body of other requests is not stated)",
    "paths contain no '?', '#', ':' or control characters; Locations are percent-encoded by the servers",
    "real loopback sockets: a service-round bound that is hit is inconclusive, not a violation",
]
META = {
    "level": LEVEL,
    "text": "Generated redirect chains are served by real Valet servers on loopback ports and followed by a real Patron; "
            "what the servers saw and what the client delivered is compared with the generated chain. Exploration over "
            "real sockets: holds for the explored chains.",
    "note": "Trusts urllib.parse (urljoin/quote/parse_qsl) and the loopback TCP stack.",
    "technique": "Hypothesis-generated redirect chains against real loopback servers, history compared with the generated chain",
    "design_ref": "DESIGN.md section 3, C34",
}

CODES = {301: "Moved Permanently", 302: "Found", 303: "See Other", 307: "Temporary Redirect"}
CERTDIR_REL = "ioflo/aio/test/tls/certs"

seg_body = st.one_of(st.text(alphabet="abcXYZ019-._~", max_size=5),
                     st.text(alphabet="ab &=+%@,;!é☃", max_size=5))
dir_seg = seg_body.filter(lambda s: s not in ("", ".", ".."))
token = st.text(alphabet="abcdefghijklmnopqrstuvwxyzABCXYZ0123456789-._~", min_size=1, max_size=5)
qval = st.one_of(st.text(alphabet="ab1 &=+%;#?/é☃", max_size=7), st.text(alphabet="abcxyz019", max_size=5))


def _uniq(pairs):
    out, seen = [], set()
    for k, v in pairs:
        if k not in seen:
            seen.add(k)
            out.append([k, v])
    return out


qargs_st = st.lists(st.tuples(token, qval), max_size=3).map(_uniq)
hop_st = st.fixed_dictionaries({
    "code": st.sampled_from(sorted(CODES)),
    "style": st.sampled_from(["abs", "abs", "abshost", "relpath", "relpath", "relseg", "relseg", "reldotdot", "relquery"]),
    "server": st.integers(0, 2),
    "dirs": st.lists(dir_seg, max_size=2),
    "leaf": seg_body,
    "qargs": qargs_st,
    "bodylen": st.sampled_from([0, 0, 7]),
    "frag": st.sampled_from([None, None, None, "top", "sec-2"]),
})
case_st = st.fixed_dictionaries({
    "nservers": st.integers(2, 3),
    "start": st.fixed_dictionaries({"server": st.integers(0, 2), "dirs": st.lists(dir_seg, max_size=2),
                                    "leaf": seg_body, "qargs": qargs_st}),
    "hops": st.sampled_from([0, 1, 1, 2, 2, 3, 3, 4, 4]).flatmap(lambda n: st.lists(hop_st, min_size=n, max_size=n)),
    "again": st.one_of(st.none(), st.integers(0, 7)),
    "method": st.sampled_from(["GET", "GET", "GET", "HEAD"]),
    "finalloc": st.sampled_from([None, None, "rel", "abs"]),
})


def build_chain(case):
    """Positions [(server, path, qargs)] and hops [(code, location template)] from a case.

    Path i ends in a segment starting with 'h<i>-', so every (server, path) is routed once.
    """
    n = case["nservers"]
    s0 = case["start"]
    positions = [(s0["server"] % n, "/" + "/".join(list(s0["dirs"]) + ["h0-" + s0["leaf"]]), s0["qargs"])]
    hops = []
    for i, h in enumerate(case["hops"]):
        cur_server, cur_path, _ = positions[-1]
        leaf = "h%d-%s" % (i + 1, h["leaf"])
        style = h["style"]
        if style in ("abs", "abshost"):
            server = h["server"] % n
            path = "/" + "/".join(list(h["dirs"]) + [leaf])
            ref = None
        elif style == "relquery":
            # a reference with an empty path (`?query`): same server, same path, new query (RFC 3986 5.2.2)
            server = cur_server
            path = cur_path
            ref = ""
            positions.append((server, path, [["hop", str(i + 1)]] + [q for q in h["qargs"] if q[0] != "hop"]))
            hops.append({"code": h["code"], "style": style, "ref": ref, "bodylen": h["bodylen"], "frag": h.get("frag")})
            continue
        elif style == "relpath":
            server = cur_server
            path = "/" + "/".join(list(h["dirs"]) + [leaf])
            ref = quote(path)
        else:
            server = cur_server
            rel = "/".join(list(h["dirs"]) + [leaf])
            if style == "reldotdot":
                rel = "../" + rel
            elif rel[:1].isspace():
                # Patron.redirect unquotes the Location before splitting it and urlsplit strips leading
                # blanks; a reference starting with an encoded blank is written with a leading './'
                rel = "./" + rel
            ref = quote(rel)
            path = _resolve(cur_path, rel)
        positions.append((server, path, h["qargs"]))
        hops.append({"code": h["code"], "style": style, "ref": ref, "bodylen": h["bodylen"], "frag": h.get("frag")})
    return positions, hops


def _resolve(base_path, rel):
    """RFC 3986 resolution of a path-relative reference (on the quoted forms, then unquoted)."""
    from urllib.parse import unquote
    return unquote(urljoin("http://h" + quote(base_path), quote(rel))[len("http://h"):])


def location(hop, target, ports):
    server, path, qargs = target
    q = urlencode([(k, v) for k, v in qargs])
    tail = ("?" + q) if q else ""
    if hop.get("frag"):
        tail += "#" + hop["frag"]        # a fragment is never part of the request sent to the resolved location
    if hop["style"] == "abs":
        return "http://127.0.0.1:%d%s%s" % (ports[server], quote(path), tail)
    if hop["style"] == "abshost":
        return "http://localhost:%d%s%s" % (ports[server], quote(path), tail)
    return hop["ref"] + tail


def make_app(idx, table, log):
    def app(environ, start_response):
        log.append((idx, environ["REQUEST_METHOD"], environ["PATH_INFO"], environ["QUERY_STRING"],
                    environ.get("HTTP_HOST")))
        qkey = tuple((k, str(v)) for k, v in parse_qsl(environ["QUERY_STRING"], keep_blank_values=True))
        act = table.get((idx, environ["PATH_INFO"], qkey)) or table.get((idx, environ["PATH_INFO"]))
        if act is None:
            body = b"unrouted"
            start_response("404 Not Found", [("Content-Length", str(len(body)))])
            return [body]
        head = environ["REQUEST_METHOD"] == "HEAD"       # the reply to a HEAD carries the headers only
        if act["kind"] == "final":
            body = b"final:%d" % act["pos"]
            extra = [("Location", act["location"])] if act.get("location") else []      # not a redirect: nothing to follow
            start_response("200 OK", [("Content-Type", "text/plain"), ("Content-Length", str(len(body)))] + extra)
            return [] if head else [body]
        body = b"x" * act["bodylen"]
        start_response("%d %s" % (act["code"], CODES[act["code"]]),
                       [("Location", act["location"]), ("Content-Length", str(len(body)))])
        return [body] if body and not head else []
    return app


def follow(patron, valets, max_rounds=3000):
    """Service everything until the patron has a response. Returns (state, rounds, exception)."""
    rounds = 0
    try:
        while rounds < max_rounds:
            for v in valets:
                v.serviceAll()
            patron.serviceAll()
            rounds += 1
            httppipe.pace(rounds)
            if patron.responses and not patron.waited:
                for _ in range(3):        # let a spurious extra request/response show up
                    for v in valets:
                        v.serviceAll()
                    patron.serviceAll()
                return "done", rounds, None
        return "bound", rounds, None
    except Exception as ex:   # noqa: BLE001
        return "raised", rounds, ex


def run_case(case):
    """Returns (failures, inconclusive)."""
    from ioflo.base import storing
    from ioflo.aio.http import clienting
    from ioflo.aid.odicting import odict
    positions, hops = build_chain(case)
    store = storing.Store(stamp=0.0)
    log, table, valets, ports = [], {}, [], []
    patron = None
    try:
        for idx in range(case["nservers"]):
            valet, port = httppipe.loopback_valet(make_app(idx, table, log), store=store)
            valets.append(valet)
            ports.append(port)
        locations = []
        def key(pos):      # routed by server, path and query (a `?query` reference keeps the path)
            return (pos[0], pos[1], tuple((k, str(v)) for k, v in pos[2]))
        for i, hop in enumerate(hops):
            loc = location(hop, positions[i + 1], ports)
            locations.append(loc)
            table[key(positions[i])] = {"kind": "redirect", "code": hop["code"], "location": loc, "bodylen": hop["bodylen"]}
        table[key(positions[-1])] = {"kind": "final", "pos": len(positions) - 1}
        if case.get("finalloc"):
            # the final (non 3xx) response names a resource in a Location header, as a 201 / 200 may: it is the final response
            table[key(positions[-1])]["location"] = {"rel": "/created/17", "abs": "http://127.0.0.1:%d/created/17" % ports[positions[-1][0]]}[case["finalloc"]]

        s0, p0, q0 = positions[0]
        patron = clienting.Patron(hostname="127.0.0.1", port=ports[s0], store=store, bufsize=65536)
        patron.open()
        method = case.get("method", "GET")
        patron.request(method=method, path=p0, qargs=odict((k, v) for k, v in q0),
                       headers=odict([("Accept", "*/*")]))
        state, rounds, ex = follow(patron, valets)
        desc = "chain %r" % ([(s, p, q) for s, p, q in positions],) + " locations %r" % (locations,)
        if state == "raised":
            k = len(log) - 1
            style = hops[k]["style"] if 0 <= k < len(hops) else "?"
            return [("%s/%s" % (httppipe.exc_sig(ex), "relative" if style.startswith("rel") else "absolute"),
                     "following hop %d (Location %r) raised %r; %s"
                     % (k, locations[k] if 0 <= k < len(locations) else None, ex, desc))], False
        if state == "bound":
            if method == "HEAD" and len(log) == len(positions) and not patron.responses:
                # every hop was requested and answered (in-process servers), yet no final response is delivered
                return [("final-response-never-delivered/HEAD", "a redirected HEAD request: all %d requests were made and answered but "
                         "the client delivers no final response (it still waits, response parser method %r); %s"
                         % (len(log), getattr(patron.respondent, "method", None), desc))], False
            return [], True
        fails = []
        # what the servers saw
        want = [(s, method, p, [(k, str(v)) for k, v in q]) for s, p, q in positions]
        got = [(s, m, p, parse_qsl(q, keep_blank_values=True)) for s, m, p, q, _ in log]
        if got != want:
            k = next((i for i, (a, b) in enumerate(zip(got, want)) if a != b), min(len(got), len(want)))
            style = hops[k - 1]["style"] if 0 < k <= len(hops) else "first"
            what = "query" if k < len(got) and k < len(want) and got[k][:3] == want[k][:3] else "hop"
            fails.append(("wrong-%s/%s" % (what, style), "servers saw %r, chain is %r (first difference at request %d); %s"
                          % (got, want, k, desc)))
        else:
            for i, (s, m, p, q, host) in enumerate(log):
                if not host or not host.endswith(":%d" % ports[s]):
                    fails.append(("host-header", "request %d reached server %d (port %d) with Host %r" % (i, s, ports[s], host)))
                    break
        if fails:
            return fails, False      # what the client delivers after a wrong hop is a consequence
        # what the client delivered
        if len(patron.responses) != 1:
            fails.append(("response-count", "%d responses delivered; %s" % (len(patron.responses), desc)))
        resp = patron.responses[0]
        wantbody = b"" if method == "HEAD" else b"final:%d" % (len(positions) - 1)
        if resp.get("status") != 200 or bytes(resp.get("body", b"")) != wantbody:
            fails.append(("final-response", "final response is %r %r, expected 200 %r; %s"
                          % (resp.get("status"), bytes(resp.get("body", b""))[:40], wantbody, desc)))
        reds = resp.get("redirects") or []
        got_chain = [(r.get("status"), (r.get("headers") or {}).get("location")) for r in reds]
        want_chain = [(h["code"], loc) for h, loc in zip(hops, locations)]
        if got_chain != want_chain:
            fails.append(("redirects-list", "response.redirects is %r, the chain was %r" % (got_chain, want_chain)))
        if fails or case.get("again") is None:
            return fails, False
        # a further request through the SAME Patron (now talking to the final server): it starts at a position of the
        # chain that lives on that server and must report exactly the hops it follows itself
        cands = [j for j in range(len(positions)) if positions[j][0] == positions[-1][0]]
        k = cands[case["again"] % len(cands)]
        patron.responses.clear()
        del log[:]
        sk, pk, qk = positions[k]
        patron.request(method=method, path=pk, qargs=odict((a, b) for a, b in qk), headers=odict([("Accept", "*/*")]))
        state, rounds, ex = follow(patron, valets)
        if state == "raised":
            return [("%s/again" % httppipe.exc_sig(ex), "second request (from position %d) raised %r; %s" % (k, ex, desc))], False
        if state == "bound":
            return [], True
        want = [(s_, method, p_, [(a, str(b)) for a, b in q_]) for s_, p_, q_ in positions[k:]]
        got = [(s_, m_, p_, parse_qsl(q_, keep_blank_values=True)) for s_, m_, p_, q_, _ in log]
        if got != want:
            return [("again-wrong-hop", "second request from position %d: servers saw %r, chain is %r; %s" % (k, got, want, desc))], False
        if len(patron.responses) != 1:
            return [("again-response-count", "second request: %d responses delivered; %s" % (len(patron.responses), desc))], False
        resp = patron.responses[0]
        if resp.get("status") != 200 or bytes(resp.get("body", b"")) != wantbody:
            fails.append(("again-final-response", "second request: final response is %r %r; %s"
                          % (resp.get("status"), bytes(resp.get("body", b""))[:40], desc)))
        got_chain = [(r.get("status"), (r.get("headers") or {}).get("location")) for r in resp.get("redirects") or []]
        want_chain = [(h["code"], loc) for h, loc in zip(hops[k:], locations[k:])]
        if got_chain != want_chain:
            fails.append(("again-redirects-list", "second request through the same Patron (from position %d of the chain): "
                          "response.redirects is %r, the hops it followed were %r" % (k, got_chain, want_chain)))
        return fails, False
    finally:
        httppipe.close_all([patron] if patron else [], valets)


# ------------------------------------------------------------------------------ TLS part
TLS_TARGETS = [("/h1-t", [["k", "v w"]]), ("/h1-x y/z", []), ("/h1-é", [["a", "1&2=3"], ["b", ""]]),
               ("/d/h1-%", [["q", "☃"]]), ("/h1-a+b", [["p", "/?#"]]), ("/h1-;", [["n", "0"]])]


def run_tls(case):
    """case = {"tls": "downgrade" | "secure" | "upgrade" | "updown" | "securedown", "code": 302, "target": index}.
    -> (fails, inconclusive)

    downgrade: https origin -> Location http://...   must be refused (plain server sees nothing)
    secure:    https origin -> Location https://...  followed over a new TLS connection
    upgrade:   http origin  -> Location https://...  followed over TLS; the redirected connector
               has no TLS parameters of its own, so the process default trust store is pointed
               at the repository's test CA (SSL_CERT_FILE) for the duration of the case
    """
    import ssl
    from ioflo.base import storing
    from ioflo.aio.http import clienting
    from ioflo.aid.odicting import odict
    certdir = os.path.join(env.REPO, CERTDIR_REL)
    store = storing.Store(stamp=0.0)
    log, table, valets = [], {}, []
    patron = None
    kind = case["tls"]
    tpath, tq = TLS_TARGETS[case.get("target", 0) % len(TLS_TARGETS)]
    tail = quote(tpath) + (("?" + urlencode([(k, v) for k, v in tq])) if tq else "")
    old_env = os.environ.get("SSL_CERT_FILE")
    try:
        if kind in ("updown", "securedown"):
            return _run_tls_chain(case, kind, certdir, store, log, table, valets, tpath, tq, tail)
        if kind == "upgrade":
            os.environ["SSL_CERT_FILE"] = certdir + "/server.pem"
            v0, p0 = httppipe.loopback_valet(make_app(0, table, log), store=store)
        else:
            v0, p0 = httppipe.loopback_valet_tls(make_app(0, table, log), certdir, store=store)
        valets.append(v0)
        if kind == "secure":
            v1, p1 = httppipe.loopback_valet_tls(make_app(1, table, log), certdir, store=store)
            loc = "https://localhost:%d%s" % (p1, tail)
        elif kind == "upgrade":
            v1, p1 = httppipe.loopback_valet_tls(make_app(1, table, log), certdir, store=store, client_cert=False)
            loc = "https://localhost:%d%s" % (p1, tail)
        else:
            v1, p1 = httppipe.loopback_valet(make_app(1, table, log), store=store)
            loc = "http://localhost:%d%s" % (p1, tail)
        valets.append(v1)
        table[(0, "/h0-s")] = {"kind": "redirect", "code": case["code"], "location": loc, "bodylen": 0}
        table[(1, tpath)] = {"kind": "final", "pos": 1}
        if kind == "upgrade":
            patron = clienting.Patron(hostname="127.0.0.1", port=p0, store=store, bufsize=65536)
        else:
            patron = clienting.Patron(hostname="localhost", port=p0, scheme="https", store=store, bufsize=65536,
                                      certedhost="localhost", keypath=certdir + "/client_key.pem",
                                      certpath=certdir + "/client_cert.pem", cafilepath=certdir + "/server.pem")
        patron.open()
        patron.request(method="GET", path="/h0-s", qargs=odict(), headers=odict([("Accept", "*/*")]))
        state, rounds, ex = follow(patron, valets, max_rounds=6000)
        seen1 = [e for e in log if e[0] == 1]
        if kind == "downgrade":
            fails = []
            if not [e for e in log if e[0] == 0]:
                return [], True                      # TLS handshake never completed here: inconclusive
            if seen1:
                fails.append(("https-downgraded", "https -> %s was followed: the plain http server saw %r" % (loc, seen1)))
            if patron.responses and patron.responses[0].get("status") == 200:
                fails.append(("https-downgraded", "a final response from the plain http server was delivered"))
            return fails, False
        if state == "raised":
            if kind == "upgrade" and isinstance(ex, ssl.SSLError):
                return [], True                      # default trust store not configurable here: inconclusive
            return [("%s/tls-%s" % (httppipe.exc_sig(ex), kind), "%s redirect to %r raised %r" % (kind, loc, ex))], False
        if state == "bound":
            return [], True
        fails = []
        got = [(s, p, parse_qsl(q, keep_blank_values=True)) for s, m, p, q, _ in log]
        want = [(0, "/h0-s", []), (1, tpath, [(k, v) for k, v in tq])]
        if got != want:
            fails.append(("wrong-hop/tls-%s" % kind, "servers saw %r, expected %r (Location %r)" % (got, want, loc)))
        resp = patron.responses[0]
        reds = [(r.get("status"), (r.get("headers") or {}).get("location")) for r in resp.get("redirects") or []]
        if resp.get("status") != 200 or reds != [(case["code"], loc)]:
            fails.append(("final-response/tls-%s" % kind, "final status %r redirects %r, expected 200 and %r"
                          % (resp.get("status"), reds, [(case["code"], loc)])))
        return fails, False
    finally:
        if old_env is None:
            os.environ.pop("SSL_CERT_FILE", None)
        else:
            os.environ["SSL_CERT_FILE"] = old_env
        httppipe.close_all([patron] if patron else [], valets)


SAME_HOSTS = ["127.0.0.1", "localhost"]


def run_sameaddr(case):
    """case = {"sameaddr": True, "code": 302, "host": index into SAME_HOSTS, "target": index, "scheme": "https" | "http"}
    A Patron over an in-memory plain connection to 127.0.0.1:8080 receives a redirect whose Location names the SAME
    host and port. With scheme https only the scheme differs: the request for the https Location must not be written
    to the plain connection (not a byte of it), the connector is replaced by a TLS one and the requester's scheme is
    https. With scheme http nothing differs and the request is reissued (on whatever connection) as GET <target>."""
    from vp.net import http_doubles
    from ioflo.aio.tcp import clienting as tcpclienting
    tpath, tq = TLS_TARGETS[case.get("target", 0) % len(TLS_TARGETS)]
    tail = quote(tpath) + (("?" + urlencode([(k, v) for k, v in tq])) if tq else "")
    scheme = case["scheme"]
    loc = "%s://%s:8080%s" % (scheme, SAME_HOSTS[case["host"] % len(SAME_HOSTS)], tail)
    patron, cs = http_doubles.make_patron(method="GET", path="/", redirectable=True)
    old = patron.connector
    fails = []
    try:
        patron.request(method="GET", path="/h0-s")
        patron.serviceAll()
        first = bytes(cs.sent)
        cs.deliver(("HTTP/1.1 %d Moved\r\nLocation: %s\r\nContent-Length: 0\r\n\r\n" % (case["code"], loc)).encode())
        try:
            for _ in range(4):
                patron.serviceAll()
        except Exception as ex:   # noqa: BLE001
            return [("%s/sameaddr-%s" % (httppipe.exc_sig(ex), scheme), "redirect to %r (same host and port as the connection) raised %r" % (loc, ex))], False
        later = bytes(cs.sent)[len(first):]
        if scheme == "https":
            if later:
                fails.append(("https-location-requested-in-clear", "Location %r differs from the connection (http://127.0.0.1:8080) in "
                              "its scheme only: the reissued request was written to the plain connection: %r" % (loc, later[:80])))
            elif patron.connector is old or not isinstance(patron.connector, tcpclienting.ClientTls):
                fails.append(("scheme-change-no-reconnect", "Location %r: the client kept its plain connector (%s) instead of "
                              "reconnecting with TLS" % (loc, type(patron.connector).__name__)))
            elif patron.requester.scheme != "https":
                fails.append(("scheme-change-requester", "Location %r: requester scheme is %r" % (loc, patron.requester.scheme)))
        else:
            sent = later if patron.connector is old else None
            if sent is not None and not sent.startswith(("GET %s HTTP/1.1\r\n" % tail).encode()):
                fails.append(("same-address-not-reissued", "Location %r (nothing differs): the connection carried %r instead of the "
                              "reissued GET %s" % (loc, sent[:80], tail)))
        return fails, False
    finally:
        for c in {id(old): old, id(patron.connector): patron.connector}.values():
            try:
                if c.cs is not cs:
                    c.close()
            except Exception:   # noqa: BLE001
                pass


def _run_tls_chain(case, kind, certdir, store, log, table, valets, tpath, tq, tail):
    """Two hop chains whose LAST hop leaves https for http and must be refused:
    updown:     http origin -> https middle -> Location http://...
    securedown: https origin -> https middle -> Location http://...
    (called inside run_tls' try/finally, which closes `valets` and restores SSL_CERT_FILE; the patron is
    closed here)"""
    from ioflo.aio.http import clienting
    from ioflo.aid.odicting import odict
    patron = None
    try:
        os.environ["SSL_CERT_FILE"] = certdir + "/server.pem"
        if kind == "updown":
            v0, p0 = httppipe.loopback_valet(make_app(0, table, log), store=store)
        else:
            v0, p0 = httppipe.loopback_valet_tls(make_app(0, table, log), certdir, store=store)
        valets.append(v0)
        v1, p1 = httppipe.loopback_valet_tls(make_app(1, table, log), certdir, store=store,
                                             client_cert=(kind != "updown"))
        valets.append(v1)
        v2, p2 = httppipe.loopback_valet(make_app(2, table, log), store=store)
        valets.append(v2)
        loc1 = "https://localhost:%d/h1-m?step=1" % p1
        loc2 = "http://localhost:%d%s" % (p2, tail)
        table[(0, "/h0-s")] = {"kind": "redirect", "code": case["code"], "location": loc1, "bodylen": 0}
        table[(1, "/h1-m")] = {"kind": "redirect", "code": case.get("code2", case["code"]), "location": loc2, "bodylen": 0}
        table[(2, tpath)] = {"kind": "final", "pos": 2}
        if kind == "updown":
            patron = clienting.Patron(hostname="127.0.0.1", port=p0, store=store, bufsize=65536)
        else:
            patron = clienting.Patron(hostname="localhost", port=p0, scheme="https", store=store, bufsize=65536,
                                      certedhost="localhost", keypath=certdir + "/client_key.pem",
                                      certpath=certdir + "/client_cert.pem", cafilepath=certdir + "/server.pem")
        patron.open()
        patron.request(method="GET", path="/h0-s", qargs=odict(), headers=odict([("Accept", "*/*")]))
        state, rounds, ex = follow(patron, valets, max_rounds=6000)
        if not [e for e in log if e[0] == 1]:
            return [], True       # the https middle server was never reached (handshake / trust store): inconclusive
        fails = []
        seen2 = [e for e in log if e[0] == 2]
        if seen2:
            fails.append(("https-downgraded/chain-%s" % kind, "chain %s -> %s -> %s: the last hop leaves https and was followed: the "
                          "plain http server saw %r" % ("http" if kind == "updown" else "https", loc1, loc2, seen2)))
        if patron.responses and patron.responses[0].get("status") == 200:
            fails.append(("https-downgraded/chain-%s" % kind, "a final response from the plain http server was delivered after %s -> %s"
                          % (loc1, loc2)))
        return fails, False
    finally:
        httppipe.close_all([patron] if patron else [], [])


def run_defport(case):
    """An absolute Location WITHOUT a port resolves to the default port of its scheme (RFC 3986 / urlsplit: 80 for
    http), whatever port the redirecting server listens on. case = {"defport": True, "code", "target", "pre"}.
    pre=1: a relative hop on the origin server comes first. A Valet is bound to 127.0.0.1:80 when the environment
    allows it (then the whole chain is checked); otherwise only: the origin server (ephemeral port) must not receive
    the redirected request and the client's requester must name port 80.  -> (fails, inconclusive)"""
    from ioflo.base import storing
    from ioflo.aio.tcp import Server
    from ioflo.aio.http import clienting, serving
    from ioflo.aid.odicting import odict
    store = storing.Store(stamp=0.0)
    log, table, valets = [], {}, []
    patron = None
    tpath, tq = TLS_TARGETS[case.get("target", 0) % len(TLS_TARGETS)]
    tail = quote(tpath) + (("?" + urlencode([(k, v) for k, v in tq])) if tq else "")
    try:
        v0, p0 = httppipe.loopback_valet(make_app(0, table, log), store=store)
        valets.append(v0)
        v80 = None
        try:
            servant = Server(ha=("127.0.0.1", 80), store=store, bufsize=65536)
            v80 = serving.Valet(servant=servant, store=store, app=make_app(1, table, log))
            if not v80.open():
                httppipe.close_all([], [v80])
                v80 = None
        except Exception:   # noqa: BLE001  port 80 not available here
            v80 = None
        if v80 is not None:
            valets.append(v80)
        loc = "http://127.0.0.1" + tail
        if case.get("pre"):
            table[(0, "/h0-s")] = {"kind": "redirect", "code": case["code"], "location": "/h0-r", "bodylen": 0}
            table[(0, "/h0-r")] = {"kind": "redirect", "code": case["code"], "location": loc, "bodylen": 0}
        else:
            table[(0, "/h0-s")] = {"kind": "redirect", "code": case["code"], "location": loc, "bodylen": 0}
        table[(1, tpath)] = {"kind": "final", "pos": 1}
        patron = clienting.Patron(hostname="127.0.0.1", port=p0, store=store, bufsize=65536)
        patron.open()
        patron.request(method="GET", path="/h0-s", qargs=odict(), headers=odict([("Accept", "*/*")]))
        state, rounds, ex = follow(patron, valets, max_rounds=3000 if v80 is not None else 150)
        fails = []
        nred = 2 if case.get("pre") else 1
        seen0 = [e for e in log if e[0] == 0]
        if len(seen0) < nred:
            return [], True        # the redirecting hops themselves did not complete: inconclusive
        stray = [e for e in seen0 if e[2] == tpath]
        if stray:
            fails.append(("default-port-ignored", "Location %r has no port, so it names port 80; the request was reissued to the "
                          "redirecting server on port %d instead: %r" % (loc, p0, stray[:2])))
        port_now = getattr(patron.requester, "port", None)
        if not stray and port_now not in (80, "80", None):
            fails.append(("default-port-ignored", "after following %r the client's requester names port %r, not 80" % (loc, port_now)))
        if v80 is not None and not fails:
            if state == "raised":
                return [("%s/defport" % httppipe.exc_sig(ex), "following %r raised %r" % (loc, ex))], False
            if state == "bound":
                return [], True
            seen1 = [(e[2], parse_qsl(e[3], keep_blank_values=True)) for e in log if e[0] == 1]
            if seen1 != [(tpath, [(k, v) for k, v in tq])]:
                fails.append(("wrong-hop/defport", "the server on port 80 saw %r, expected the request for %r" % (seen1, loc)))
            elif not patron.responses or patron.responses[0].get("status") != 200:
                fails.append(("final-response/defport", "no final 200 response from the port 80 server"))
        return fails, False
    finally:
        httppipe.close_all([patron] if patron else [], valets)


# ------------------------------------------------------------------------------ bookkeeping
def classify(case):
    positions, hops = build_chain(case)
    cls = ["len=%d" % len(hops), "servers=%d" % case["nservers"]]
    nt = False
    for i, h in enumerate(hops):
        cls.append("style:" + h["style"])
        cls.append("code:%d" % h["code"])
        if h["style"].startswith("rel"):
            nt = True
        if positions[i][0] != positions[i + 1][0]:
            cls.append("port-change")
            nt = True
        if positions[i + 1][2]:
            cls.append("location-with-query")
            if h.get("frag"):
                cls.append("location-with-query-and-fragment")
    if case.get("again") is not None:
        cls.append("second-request-same-patron")
    cls.append("method:" + case.get("method", "GET"))
    if case.get("finalloc"):
        cls.append("final-response-with-location-header")
    cls = sorted(set(cls))
    if nt:
        cls.append("non-trivial")
    return nt, cls


def plan(tier):
    n = 6 if tier == "quick" else 14
    shards = [{"part": "chains", "i": i} for i in range(n)]
    shards.append({"part": "tls", "i": 90})
    return shards


def work(shard, seed, tier):
    acc = Acc()
    if shard["part"] == "tls":
        combos = [(t, c) for t in range(len(TLS_TARGETS)) for c in sorted(CODES)]
        if tier == "quick":
            combos = [combos[(seed + 5 * k) % len(combos)] for k in range(2)]
        for target, code in combos:
            for kind in ("downgrade", "secure", "upgrade", "updown", "securedown"):
                case = {"tls": kind, "code": code, "target": target}
                try:
                    fails, inconclusive = run_tls(case)
                except Exception as ex:   # noqa: BLE001  TLS not usable in this environment
                    acc.note("TLS part not executable here: %r" % (ex,))
                    acc.label("tls-unavailable")
                    continue
                acc.case(key=("tls", kind, code, target), nontrivial=True,
                         classes=["tls:" + kind] + (["tls-inconclusive"] if inconclusive else []), sample=case)
                if inconclusive:
                    acc.budget_hit = True
                    acc.note("a TLS case was inconclusive (handshake/trust store/bound)")
                for sig, what in fails:
                    acc.fail(sig, what, case)
        # Location on the same host and port: only the scheme differs (or nothing does)
        for code in sorted(CODES):
            for host in range(len(SAME_HOSTS)):
                for scheme in ("https", "http"):
                    case = {"sameaddr": True, "code": code, "host": host, "scheme": scheme, "target": (seed + code + host) % len(TLS_TARGETS)}
                    fails, _ = run_sameaddr(case)
                    acc.case(key=("sameaddr", code, host, scheme, case["target"]), nontrivial=scheme == "https",
                             classes=["sameaddr:" + scheme], sample=case if (code == 302 and host == 0) else None)
                    for sig, what in fails:
                        acc.fail(sig, what, case)
        # absolute Location without a port (default port of the scheme)
        dcombos = [(t, c, pre) for t in range(len(TLS_TARGETS)) for c in sorted(CODES) for pre in (0, 1)]
        if tier == "quick":
            dcombos = [dcombos[(seed * 7 + 11 * k) % len(dcombos)] for k in range(4)]
        for target, code, pre in dcombos:
            case = {"defport": True, "code": code, "target": target, "pre": pre}
            fails, inconclusive = run_defport(case)
            acc.case(key=("defport", code, target, pre), nontrivial=True,
                     classes=["defport"] + (["defport-inconclusive"] if inconclusive else []), sample=case)
            if inconclusive:
                acc.budget_hit = True
                acc.note("a default-port case was inconclusive")
            for sig, what in fails:
                acc.fail(sig, what, case)
        return acc
    n = 16 if tier == "quick" else 75

    def execute(case):
        nt, cls = classify(case)
        fails, inconclusive = run_case(case)
        if inconclusive:
            acc.budget_hit = True
            acc.note("a chain hit the service-round bound over real sockets: inconclusive")
            cls = cls + ["inconclusive"]
        return Outcome(fails, nontrivial=nt, classes=cls, key=case)
    campaign(acc, case_st, execute, n, seed * 1000 + shard["i"], budget=Budget(90 if tier == "quick" else 420),
             shrink_examples=60)
    return acc


def replay(case):
    if "defport" in case:
        return run_defport(case)[0]
    if "sameaddr" in case:
        return run_sameaddr(case)[0]
    if "tls" in case:
        return run_tls(case)[0]
    return run_case(case)[0]
