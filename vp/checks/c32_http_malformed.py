"""C32 Malformed HTTP input only affects its own connection.

Server scene: a Valet (servant = tcp Server whose serviceAccepts is stubbed and whose .axes
is fed fake accepted sockets, vp.net.http_doubles) serves three concurrent connections.
Two carry valid generated requests (vp.net.httpgen.message, ground truth known) delivered in
generated pieces over generated service rounds; the third ("bad", at a generated position in
the service order) receives a byte-level mutation of a valid request (broken start line,
header line without colon, junk header lines, bad chunk sizes / chunk terminators / lengths,
absolute URLs with bad ports or brackets, truncation, oversized lines, > 100 headers) or
random bytes, also in pieces, optionally followed by the peer closing. The same rounds are
run once more without the bad peer.
Oracle: Valet.serviceAll never raises; each healthy connection gets the correct response
(status line, Content-Length, echoed method / path / query / body equal the request's ground
truth), byte-identical to and complete in the same service round as in the run without the
bad peer; the bad connection ends consistently waiting/served (still registered) or closed
(removed from .ixes/.reqs/.reps and its socket closed).

Client scene: a Patron over a tcp Client "connected" to a fake socket sends one request and
receives a mutated response (same mutation families; also text/event-stream bodies) in pieces,
optionally followed by the server closing.
Oracle: Patron.serviceAll never raises; whatever response is delivered has a boolean
`errored` (and an `error` text when set); the unmutated control response is delivered
un-errored with the status and body of its ground truth.
"""
import contextlib
import io
import traceback

from hypothesis import strategies as st

from vp.core import env
from vp.core.acc import Acc
from vp.core.hyp import campaign, Outcome, Budget
from vp.net import httpgen, http_doubles

PROPERTY = "C32"
LEVEL = "exploration"
RULE = ("Hypothesis byte-level / structural mutations of constructed valid HTTP messages "
        "(vp.net.httpgen.malformed: start line, header line without colon, junk header lines, chunk "
        "size, chunk terminator, content-length, absolute URL with bad port/brackets, truncation, "
        "oversize, random bytes) delivered piecewise over service rounds to one of three concurrent "
        "in-memory connections of a Valet while two carry valid requests (oracle: no exception out of "
        "serviceAll, healthy responses correct + identical bytes and completion round as in a run "
        "without the bad peer, bad connection consistently waiting or closed), and to a Patron as a "
        "response (oracle: no exception, errored recorded). non-trivial = the damage lies behind an "
        "intact start line (reaches header / body parsing); distinct = distinct (scene, bad bytes, "
        "schedule, position)")
ASSUMPTIONS = [
    "in-memory doubles: tcp.Server with serviceAccepts stubbed and fake accepted sockets in .axes; "
    "tcp.Client with .cs = fake socket and connected = True (vp/net/http_doubles.py); the store clock "
    "does not advance, so no idle timeout fires",
    "healthy requests are well-formed (same generator as C29) and the WSGI app echoes method, PATH_INFO, "
    "QUERY_STRING and body with Content-Length, Date and Server set by the app (deterministic bytes)",
    "the client scene uses redirectable=False (redirects are property C34)",
    "what a mutated message must parse to is not judged (it may still be valid, incomplete or malformed); "
    "only the confinement obligations of the statement are",
]
META = {
    "level": LEVEL,
    "text": "Thousands of mutated requests/responses per run against real Valet/Patron service loops over "
            "in-memory sockets, with two healthy neighbours as witnesses and a bad-peer-free reference run.",
    "note": "Trusts the socket doubles and the harness WSGI app; absence of escapes is shown on the explored "
            "inputs only. A coverage-guided campaign over the same oracle is in vp/fuzz/fuzz_http.py.",
    "technique": "mutation fuzzing (Hypothesis) of constructed messages; differential against a run "
                 "without the bad peer + ground-truth responses",
    "design_ref": "DESIGN.md section 3, C32",
}

DATE = "Thu, 01 Jan 2026 00:00:00 GMT"


def exc_sig(ex):
    inner, site = None, "?"
    for fs in traceback.extract_tb(ex.__traceback__):
        if "/ioflo/aio/" in fs.filename:
            inner = "%s:%s" % (fs.filename.rsplit("/", 1)[-1], fs.name)
        elif "/ioflo/" in fs.filename:
            site = "%s:%s" % (fs.filename.rsplit("/", 1)[-1], fs.name)
    return "%s@%s" % (type(ex).__name__, inner or site)


def app(environ, start_response):
    body = environ["wsgi.input"].read()
    out = b"M=" + environ["REQUEST_METHOD"].encode("ascii") + \
        b";P=" + environ["PATH_INFO"].encode("utf-8").hex().encode("ascii") + \
        b";Q=" + environ["QUERY_STRING"].encode("iso-8859-1").hex().encode("ascii") + \
        b";B=" + body
    start_response("200 OK", [("Content-Type", "application/octet-stream"), ("Content-Length", str(len(out))),
                              ("Server", "vp"), ("Date", DATE)])
    return [out]


def arrivals(sched, data):
    """sched = {"cuts": [...], "gaps": [...]} -> {round: bytes} (piece k arrives gaps[k] rounds
    after piece k-1; piece 0 at round gaps[0])."""
    out = {}
    r = 0
    parts = httpgen.pieces(data, sched["cuts"])
    for k, piece in enumerate(parts):
        r += sched["gaps"][k] if k < len(sched["gaps"]) else 1
        if piece:
            out[r] = out.get(r, b"") + piece
    return out, r


PRIOR = b"POST /prior?big=1 HTTP/1.1\r\nHost: h\r\nContent-Length: 4000\r\n\r\n" + b"p" * 4000


def run_server(case, with_bad):
    """-> dict(exc=[(round, sig, msg)], good=[(sent bytes, done round)], bad=state dict)"""
    conns = []      # (role, data, sched, close_round)
    gi = 0
    for pos in range(3):
        if pos == case["bad_pos"]:
            if with_bad:
                data = bytes(case["bad"]["data"])
                if case["bad"].get("prior"):
                    # the bad peer first sends a valid keep-alive request with a large answer and does not read that
                    # answer (it stays queued on the server side); the damaged bytes follow on the same connection
                    data = PRIOR + data
                conns.append(("bad", data, case["bad"]["sched"], case["bad"]["close"]))
        else:
            g = case["good"][gi]
            gi += 1
            conns.append(("good", bytes(g["wire"]), g["sched"], None))
    valet, socks = http_doubles.make_valet(app, len(conns))
    for i, (role, data, sched, close) in enumerate(conns):
        if role == "bad" and case["bad"].get("prior"):
            socks[i].stall_after = 64
    plans = []
    last = 0
    for role, data, sched, close in conns:
        arr, r = arrivals(sched, data)
        plans.append(arr)
        last = max(last, r + (close or 0))
    nrounds = last + 5
    res = {"exc": [], "good": [], "bad": None}
    sent_at = [dict() for _ in conns]
    err = io.StringIO()
    with contextlib.redirect_stderr(err):
        for rnd in range(nrounds + 1):
            for i, (role, data, sched, close) in enumerate(conns):
                if rnd in plans[i] and not socks[i].closed:
                    socks[i].deliver(plans[i][rnd])
                if close is not None and rnd == max(plans[i] or [0]) + close:
                    socks[i].peer_close()
            try:
                valet.serviceAll()
            except Exception as ex:
                res["exc"].append((rnd, exc_sig(ex), "%s: %s" % (type(ex).__name__, ex)))
            for i in range(len(conns)):
                n = len(socks[i].sent)
                if n not in sent_at[i]:
                    sent_at[i][n] = rnd
    for i, (role, data, sched, close) in enumerate(conns):
        sent = bytes(socks[i].sent)
        if role == "good":
            res["good"].append((sent, sent_at[i][len(sent)]))
        else:
            ca = socks[i].peer
            res["bad"] = {"in_ixes": ca in valet.servant.ixes, "in_reqs": ca in valet.reqs,
                          "in_reps": ca in valet.reps, "sock_closed": socks[i].closed,
                          "sent": len(sent)}
    try:
        valet.close()
    except Exception:
        pass
    return res


def check_response(spec, sent):
    """Independent check of a healthy connection's response bytes. -> problem text or None"""
    head, sep, body = sent.partition(b"\r\n\r\n")
    if not sep:
        return "no complete response head in %r" % sent[:80]
    lines = head.split(b"\r\n")
    if lines[0] != b"HTTP/1.1 200 OK":
        return "status line %r" % lines[0]
    clen = [l.split(b":", 1)[1].strip() for l in lines[1:] if l.lower().startswith(b"content-length:")]
    if clen != [b"%d" % len(body)]:
        return "Content-Length %r but %d body bytes" % (clen, len(body))
    s = spec["start"]
    pre, sepb, echoed = body.partition(b";B=")
    if echoed != bytes(spec["body"]):
        return "echoed body %r, sent %r" % (echoed[:60], bytes(spec["body"])[:60])
    fields = dict(f.split(b"=", 1) for f in pre.split(b";"))
    if fields.get(b"M") != s["method"].encode("ascii"):
        return "echoed method %r, sent %r" % (fields.get(b"M"), s["method"])
    if s["form"] in ("origin", "absolute"):
        if bytes.fromhex(fields[b"P"].decode()).decode("utf-8") != s["path"]:
            return "echoed path %r, sent %r" % (fields[b"P"], s["path"])
        if bytes.fromhex(fields[b"Q"].decode()).decode("iso-8859-1") != s["query"]:
            return "echoed query %r, sent %r" % (fields[b"Q"], s["query"])
    return None


def check_server(case):
    fails = []
    ref = run_server(case, with_bad=False)
    try:
        with env.cpu_watchdog(4):        # (the whole scene normally takes milliseconds)
            got = run_server(case, with_bad=True)
    except env.Hang:
        return [("service-never-returns", "the server scene used more than 4 s of CPU: a service or close call of the Valet never "
                 "returned (bad input %r, %s%s)" % (bytes(case["bad"]["data"])[:80], case["bad"]["mut"],
                                                   ", behind an unread queued answer" if case["bad"].get("prior") else ""))]
    if ref["exc"]:
        rnd, sig, msg = ref["exc"][0]
        return [("healthy-only:" + sig, "serviceAll raised with only the two valid connections: %s" % msg)]
    for i, spec in enumerate(case["good"]):
        prob = check_response(spec, ref["good"][i][0])
        if prob:
            return [("healthy-only:wrong-response", "valid request %d alone: %s" % (i, prob))]
    if got["exc"]:
        rnd, sig, msg = got["exc"][0]
        return [(sig, "Valet.serviceAll raised in round %d: %s (bad input %r, %s)" % (
            rnd, msg, bytes(case["bad"]["data"])[:120], case["bad"]["mut"]))]
    for i, spec in enumerate(case["good"]):
        if got["good"][i][0] != ref["good"][i][0]:
            fails.append(("healthy-disturbed:bytes", "healthy connection %d got %r, without the bad peer %r" % (
                i, got["good"][i][0][:100], ref["good"][i][0][:100])))
        elif got["good"][i][1] != ref["good"][i][1]:
            fails.append(("healthy-disturbed:rounds", "healthy connection %d complete in round %d, without the "
                          "bad peer in round %d" % (i, got["good"][i][1], ref["good"][i][1])))
    b = got["bad"]
    closed = not b["in_ixes"] and not b["in_reqs"] and not b["in_reps"] and b["sock_closed"]
    opened = b["in_ixes"] and b["in_reqs"] and not b["sock_closed"]
    if not (closed or opened):
        fails.append(("bad-connection-inconsistent", "bad connection neither waiting nor closed: %r" % (b,)))
    return fails[:2]


BAD_LOCATIONS = [b"http://h:99999/", b"http://h:abc/x", b"http://[::1/", b"http://h:-1/", b"http://]/", b"//[/",
                 b"http://h:80:90/", b"//h:65536", b"http://[]/", b"http://h:0x50/", b"http://h: 80/", None]


def run_client(case):
    # (a redirectable client only in the cases whose redirect cannot be followed: no or a malformed Location)
    patron, cs = http_doubles.make_patron(method="GET", path="/", redirectable=bool(case.get("redirectable")),
                                          dictable=bool(case.get("dictable")))
    patron.request(method=case["reqmethod"], path="/p")
    arr, last = arrivals(case["sched"], bytes(case["data"]))
    close = case["close"]
    nrounds = last + (close or 0) + 4
    excs = []
    for rnd in range(nrounds + 1):
        if rnd in arr:
            cs.deliver(arr[rnd])
        if close is not None and rnd == last + close:
            cs.peer_close()
        try:
            patron.serviceAll()
        except Exception as ex:
            excs.append((rnd, exc_sig(ex), "%s: %s" % (type(ex).__name__, ex)))
            break
    return patron, cs, excs


def check_client(case):
    patron, cs, excs = run_client(case)
    if excs:
        rnd, sig, msg = excs[0]
        return [(sig, "Patron.serviceAll raised in round %d: %s (response bytes %r, %s)" % (
            rnd, msg, bytes(case["data"])[:120], case["mut"]))]
    fails = []
    for resp in patron.responses:
        if resp.get("errored") not in (True, False):
            fails.append(("client-errored-missing", "response without boolean errored: %r" % (resp.get("errored"),)))
        elif resp["errored"] and not isinstance(resp.get("error"), str):
            fails.append(("client-error-text", "errored response without error text: %r" % (resp.get("error"),)))
    truth = case.get("truth")
    if truth and (truth["framing"] != "close" or case["close"] is not None):
        if len(patron.responses) != 1:
            fails.append(("client-control", "valid response: %d responses delivered" % len(patron.responses)))
        else:
            resp = patron.responses[0]
            if resp["errored"] or resp["status"] != truth["start"]["status"] or \
                    bytes(resp["body"]) != bytes(truth["body"]):
                fails.append(("client-control", "valid response delivered as errored=%r status=%r body=%r" % (
                    resp["errored"], resp["status"], bytes(resp["body"])[:60])))
    return fails[:2]


def check_case(case):
    if case["scene"] == "server":
        return check_server(case)
    return check_client(case)


# ----------------------------------------------------------------------------- strategy
@st.composite
def schedule(draw, total, maxcuts=4):
    k = draw(st.integers(0, maxcuts))
    cuts = sorted(draw(st.lists(st.integers(0, total), min_size=k, max_size=k)))
    gaps = [draw(st.integers(0, 2)) for _ in range(k + 1)]
    return {"cuts": cuts, "gaps": gaps}


SSE_BODIES = [b"data: a\n\n", b"id: 1\ndata: x\r\n\r\nretry: 5\n\n", b": c\ndata: \xc3\xa9\n\n", b"event: e\rdata: 1\r\r"]


@st.composite
def json_body(draw):
    kind = draw(st.sampled_from(["ok", "cut", "deep", "deepdict", "notutf8", "junk"]))
    if kind == "deep" or kind == "deepdict":
        n = draw(st.sampled_from([3, 200, 900, 1100, 2500, 20000]))
        opener, closer = (b"[", b"]") if kind == "deep" else (b'{"a":', b"}")
        return opener * n + (b"1" if kind == "deepdict" else b"") + closer * draw(st.sampled_from([0, n]))
    good = draw(st.sampled_from([b'{"a": 1, "b": [true, null, "x"]}', b'[1, 2, {"k": "v"}]', b'"s"', b"12", b"{}"]))
    if kind == "cut":
        return good[:draw(st.integers(0, len(good) - 1))]
    if kind == "notutf8":
        k = draw(st.integers(0, len(good)))
        return good[:k] + draw(st.sampled_from([b"\xff", b"\xc3", b"\xed\xa0\x80"])) + good[k:]
    if kind == "junk":
        return draw(st.binary(max_size=24))
    return good


@st.composite
def server_case(draw):
    goods = []
    for _ in range(2):
        g = draw(httpgen.message("request", draw(st.booleans())))
        goods.append({"wire": g["wire"], "start": g["start"], "body": g["body"], "framing": g["framing"],
                      "sched": draw(schedule(len(g["wire"])))})
    bad = draw(httpgen.malformed("request"))
    bad["sched"] = draw(schedule(len(bad["data"])))
    bad["close"] = draw(st.one_of(st.none(), st.integers(0, 3)))
    bad.pop("truth", None)
    bad["prior"] = draw(st.integers(0, 3)) == 0
    return {"scene": "server", "bad_pos": draw(st.integers(0, 998)) % 3, "good": goods, "bad": bad}


@st.composite
def client_case(draw):
    if draw(st.integers(0, 7)) == 0:
        # a redirect that cannot be followed, received by a redirectable client: no Location at all (legal for 300) or a
        # Location that is no URL (port not a number / out of range, unbalanced brackets; all rejected by urlsplit)
        loc = draw(st.sampled_from(BAD_LOCATIONS))
        code = draw(st.sampled_from([b"300 Multiple Choices", b"301 Moved Permanently", b"302 Found", b"303 See Other",
                                     b"307 Temporary Redirect"]))
        body = draw(st.sampled_from([b"", b"moved"]))
        wire = b"HTTP/1.1 " + code + b"\r\n" + (b"Location: " + loc + b"\r\n" if loc is not None else b"") + \
            b"Content-Length: %d\r\n\r\n" % len(body) + body
        return {"scene": "client", "data": wire, "mut": "redirect-no-location" if loc is None else "redirect-bad-location",
                "nt": True, "reqmethod": "GET", "redirectable": True, "sched": draw(schedule(len(wire))),
                "close": draw(st.one_of(st.none(), st.integers(0, 2)))}
    if draw(st.integers(0, 9)) == 0:
        # a body that is declared (or taken by a dictable client) to be JSON and is not decodable: cut short, not UTF-8,
        # no JSON at all, or nested deeper than the decoder goes (plain body and event stream data)
        body = draw(json_body())
        sse = draw(st.integers(0, 2)) == 0
        dictable = sse or draw(st.booleans())
        if sse:
            wire = b"HTTP/1.1 200 OK\r\nContent-Type: text/event-stream\r\n\r\ndata: " + \
                body.replace(b"\n", b" ").replace(b"\r", b" ") + b"\n\n"
        else:
            ctype = draw(st.sampled_from([b"application/json", b"application/json; charset=utf-8", b"text/plain"]))
            wire = b"HTTP/1.1 200 OK\r\nContent-Type: " + ctype + b"\r\nContent-Length: %d\r\n\r\n" % len(body) + body
        return {"scene": "client", "data": wire, "mut": "json-sse-data" if sse else "json-body", "nt": True,
                "reqmethod": "GET", "dictable": dictable, "sched": draw(schedule(len(wire))),
                "close": draw(st.one_of(st.none(), st.integers(0, 2)))}
    if draw(st.integers(0, 6)) == 0:
        body = draw(st.sampled_from(SSE_BODIES))
        head = b"HTTP/1.1 200 OK\r\nContent-Type: text/event-stream\r\n"
        if draw(st.booleans()):
            wire = head + b"Transfer-Encoding: chunked\r\n\r\n%x\r\n" % len(body) + body + b"\r\n0\r\n\r\n"
        else:
            wire = head + b"\r\n" + body
        data, first = draw(httpgen.byte_edits(wire, lo=17))
        m = {"data": data, "mut": "sse-bytes", "nt": True, "reqmethod": "GET"}
    else:
        m = draw(httpgen.malformed("response"))
        m["reqmethod"] = (m.get("truth") or {}).get("reqmethod", draw(st.sampled_from(["GET", "GET", "POST", "HEAD"])))
    case = {"scene": "client", "data": m["data"], "mut": m["mut"], "nt": m["nt"], "reqmethod": m["reqmethod"],
            "sched": draw(schedule(len(m["data"]))), "close": draw(st.one_of(st.none(), st.integers(0, 2)))}
    if m.get("truth"):
        case["truth"] = m["truth"]
    return case


def plan(tier):
    n = 4 if tier == "quick" else 6
    shards = []
    if tier == "thorough":
        shards += [{"part": "atheris", "target": t, "seconds": 300, "i": 900 + k, "max_len": m}
                   for k, (t, m) in enumerate([("c32-server-raw", 2048), ("c32-client-raw", 2048),
                                               ("c32-server", 16384), ("c32-client", 16384)])]
    return shards + [{"scene": "server", "i": i} for i in range(n)] + [{"scene": "client", "i": n + i} for i in range(n)]


def work(shard, seed, tier):
    from vp.core import env
    env.quiet_ioflo()
    acc = Acc()
    if shard.get("part") == "atheris":
        from vp.fuzz.fuzz_http import run_campaign
        run_campaign(acc, shard["target"], shard["seconds"], seed, max_len=shard["max_len"])
        return acc
    n = 200 if tier == "quick" else 12000
    strat = server_case() if shard["scene"] == "server" else client_case()

    def execute(case):
        fails = check_case(case)
        if case["scene"] == "server":
            mut, nt, data = case["bad"]["mut"], case["bad"]["nt"], bytes(case["bad"]["data"])
            key = ("s", data, repr(case["bad"]["sched"]), case["bad"]["close"], case["bad_pos"],
                   bytes(case["good"][0]["wire"]), bytes(case["good"][1]["wire"]))
            classes = ["server", "server:" + mut, "bad-pos:%d" % case["bad_pos"]] + (
                ["server:damage-behind-an-unread-queued-answer"] if case["bad"].get("prior") else []) + [
                       "bad-peer-closes" if case["bad"]["close"] is not None else "bad-peer-stays"]
            sample = {"scene": "server", "mut": mut, "bad": data[:120], "bad_pos": case["bad_pos"],
                      "good": [bytes(g["wire"])[:60] for g in case["good"]]}
        else:
            mut, nt, data = case["mut"], case["nt"], bytes(case["data"])
            key = ("c", data, repr(case["sched"]), case["close"], case["reqmethod"])
            classes = ["client", "client:" + mut]
            sample = {"scene": "client", "mut": mut, "response": data[:120]}
        if nt:
            classes.append(case["scene"] + ":behind-start-line")
        return Outcome(fails, nontrivial=bool(nt), classes=classes, key=key, sample=sample)

    campaign(acc, strat, execute, n, seed * 1000 + shard["i"], budget=Budget(120 if tier == "quick" else 420))
    return acc


def replay(case):
    from vp.core import env
    env.quiet_ioflo()
    return check_case(case)
