"""C38 Exchanges time out and retransmit on schedule.

Generator: the full grid timeout in {None(default), 0, 0.5, 1, 2} x redo in {None(default), 0, 0.25,
0.5, 1.5} for the three exchange classes (creation), and for Exchanger / base Exchange a
Hypothesis-generated schedule of dyadic stamp advances, process() calls and send(new tx) calls
on a Stack (no handler) whose Stamper the harness advances - no wall clock anywhere.
Oracle: a twelve line model of the two StoreTimers (expired iff stamp >= start + duration).
"""
import inspect

from hypothesis import strategies as st

from vp.core.acc import Acc
from vp.core.hyp import campaign, Outcome, Budget

PROPERTY = "C38"
LEVEL = "exploration"
RULE = ("every (class, timeout, redo) of the 3 x 5 x 5 grid (None = class default) is created once "
        "(exhaustive part); for Exchanger and base Exchange every grid point is combined with "
        "Hypothesis-generated schedules of <= 40 steps (advance the stack's Stamper by a multiple of "
        "0.125 then process(); process() again without advance; send(new packet)), start stamp from "
        "{0, 0.25, 3}; non-trivial = the model performed >= 2 retransmissions before the exchange "
        "failed or the schedule ended; distinct = (class, timeout, redo, start, schedule)")
ASSUMPTIONS = [
    "time is the stack's Stamper (.stamp), advanced only by the harness; all stamps are multiples of 0.125 so float comparison is exact",
    "StoreTimer semantics adopted from ioflo/aid/timing.py: expired iff stamp >= start + duration (inclusive)",
    "the redo interval runs from start() (or creation for base Exchange) or from the last retransmission; send() of a new message does not restart it",
    "a retransmission is one stack.transmit(latest tx), observed as one more entry (identical object) at the tail of stack.txPkts",
    "an exchange is given a device (process()/start() format device.name into their log line); device=None is not exercised",
    "the redo keyword is the documented name 'redoTimeout' when the constructor accepts it, else the accepted spelling 'redoTimout'",
]
META = {
    "level": LEVEL,
    "text": "The whole configuration grid is created for all three exchange classes and each grid point of the two "
            "classes that run timers after start is driven through hundreds of generated stamp schedules, comparing "
            "after every call the done/failed flags and the exact packet queue with a timer model; boundaries "
            "(t == start+timeout, t == last_redo+redo, both at once, timeout 0, redo 0) are hit by construction "
            "because steps and settings share the 0.125 lattice.",
    "note": "Trusts the harness model of the two timers and that observing stack.txPkts sees every retransmission. "
            "Absence of violations is shown only for the explored schedules.",
    "technique": "exhaustive configuration grid + Hypothesis schedules against a reference timer model (no wall clock)",
    "design_ref": "DESIGN.md section 3, C38",
}

TIMEOUTS = [None, 0.0, 0.5, 1.0, 2.0]
REDOS = [None, 0.0, 0.25, 0.5, 1.5]
CLASSES = ["Exchange", "Exchanger", "Exchangent"]
STARTS = [0.0, 0.25, 3.0]
STEP = 0.125


def _redo_keyword(cls):
    params = inspect.signature(cls.__init__).parameters
    if "redoTimeout" in params:
        return "redoTimeout"
    if "redoTimout" in params:
        return "redoTimout"
    return None


def _where(ex):
    tb = ex.__traceback__
    name = "?"
    while tb is not None:
        fn = tb.tb_frame.f_code.co_filename
        if "ioflo" in fn:
            name = "%s:%s" % (fn.rsplit("/", 1)[-1], tb.tb_frame.f_code.co_name)
        tb = tb.tb_next
    return name


def _create(clsname, timeout, redo, start):
    """Returns (exchange, stack, fails)."""
    from ioflo.aid.timing import Stamper
    from ioflo.aio.proto import exchanging, stacking, devicing
    fails = []
    stack = stacking.Stack(stamper=Stamper(stamp=start))
    device = devicing.Device(stack=stack, name="peer")
    cls = getattr(exchanging, clsname)
    kw = {}
    if timeout is not None:
        kw["timeout"] = timeout
    if redo is not None:
        key = _redo_keyword(exchanging.Exchange)
        if key is None:
            return None, stack, [("no-redo-keyword", "Exchange.__init__ accepts neither redoTimeout nor redoTimout")]
        kw[key] = redo
    try:
        exch = cls(stack=stack, device=device, **kw)
    except Exception as ex:
        return None, stack, [("create-%s@%s" % (type(ex).__name__, _where(ex)),
                              "%s(stack, device, **%r) raised %r" % (clsname, kw, ex))]
    exp_t = timeout if timeout is not None else cls.Timeout
    exp_r = redo if redo is not None else cls.RedoTimeout
    if exch.timeout != exp_t or exch.timer.duration != exp_t:
        fails.append(("timeout-setting", "%s(**%r): .timeout=%r timer.duration=%r, expected %r"
                      % (clsname, kw, exch.timeout, exch.timer.duration, exp_t)))
    if exch.redoTimeout != exp_r or exch.redoTimer.duration != exp_r:
        fails.append(("redo-setting", "%s(**%r): .redoTimeout=%r redoTimer.duration=%r, expected %r"
                      % (clsname, kw, exch.redoTimeout, exch.redoTimer.duration, exp_r)))
    if exch.done or exch.failed:
        fails.append(("flags-at-creation", "%s(**%r): done=%r failed=%r right after creation"
                      % (clsname, kw, exch.done, exch.failed)))
    return exch, stack, fails


def run_case(case):
    """case: {"cls", "timeout", "redo", "start", "steps": [[kind, k], ...]}
    kind 'a': advance k*0.125 then process(); 'p': process() again; 's': send(new packet); 't': transmit(new packet).
    Returns (fails, info)."""
    from ioflo.aio.proto import packeting
    clsname, timeout, redo, start = case["cls"], case["timeout"], case["redo"], float(case["start"])
    info = {"redos": 0, "failed": False, "redos_before_end": 0, "calls": 0}
    exch, stack, fails = _create(clsname, timeout, redo, start)
    if exch is None or fails:
        return fails, info
    cls = type(exch)
    m_timeout = timeout if timeout is not None else cls.Timeout
    m_redo = redo if redo is not None else cls.RedoTimeout

    def pkt(i):
        return packeting.Packet(stack=stack, packed=b"tx%d" % i)

    if clsname == "Exchangent":
        # correspondent exchange: start(rx) responds and finishes at once; nothing to retransmit
        try:
            exch.start(rx=pkt(0))
        except Exception as ex:
            return [("start-%s@%s" % (type(ex).__name__, _where(ex)), "Exchangent.start raised %r" % (ex,))], info
        if not exch.done or exch.failed:
            fails.append(("exchangent-start", "Exchangent.start(rx): done=%r failed=%r" % (exch.done, exch.failed)))
        return fails, info

    # model
    t = start
    m_start = start          # timers (re)started at creation == start() stamp
    m_last = start
    delay = int(case.get("delay", 0))
    if delay:
        # delayed start: time passes between creation and start(); Exchanger.start() restarts both timers,
        # the base Exchange keeps running from creation (stated assumption)
        t = start + delay * STEP
        stack.stamper.change(t)
        if clsname == "Exchanger":
            m_start = t
            m_last = t
    m_queue = []             # expected contents of stack.txPkts (identity)
    npkt = 0
    late = bool(case.get("late")) and clsname == "Exchange"
    latest = None if late else pkt(npkt)
    try:
        if clsname == "Exchanger":
            exch.start(tx=latest)
        else:
            exch.start()
            if not late:       # (late: the exchange is started with nothing to send yet; its first message comes with a later step)
                exch.send(latest)
    except Exception as ex:
        return [("start-%s@%s" % (type(ex).__name__, _where(ex)), "%s start/send raised %r" % (clsname, ex))], info
    if not late:
        m_queue.append(latest)
    else:
        info["late"] = True
    m_done = False

    def compare(stepno, what):
        got = list(stack.txPkts)
        if len(got) != len(m_queue) or any(a is not b for a, b in zip(got, m_queue)):
            kind = "missing-redo" if len(got) < len(m_queue) else ("extra-redo" if len(got) > len(m_queue) else "wrong-message")
            fails.append((kind, "%s timeout=%r redo=%r start=%r: after step %d (%s) at t=%r the stack queue holds %r, "
                          "model expects %r" % (clsname, timeout, redo, start, stepno, what, t,
                                                [bytes(p.packed) for p in got], [bytes(p.packed) for p in m_queue])))
            return False
        if bool(exch.failed) != m_done or bool(exch.done) != m_done:
            if m_done:
                kind = "no-timeout"
            elif m_timeout == 0:
                kind = "timeout0-expired"
            else:
                kind = "early-timeout"
            fails.append((kind, "%s timeout=%r redo=%r start=%r: after step %d (%s) at t=%r done=%r failed=%r, "
                          "model expects %r (timeout stamp %r)" % (clsname, timeout, redo, start, stepno, what, t,
                                                                   exch.done, exch.failed, m_done, m_start + m_timeout)))
            return False
        return True

    if not compare(0, "start"):
        return fails, info
    for i, (kind, k) in enumerate(case["steps"], 1):
        if m_done:
            break
        if kind in ("s", "t"):
            # a new latest message: through send(), or queued directly with transmit(pkt) ("always last transmitted")
            npkt += 1
            latest = pkt(npkt)
            try:
                if kind == "s":
                    exch.send(latest)
                else:
                    exch.transmit(latest)
                    info["transmits"] = info.get("transmits", 0) + 1
            except Exception as ex:
                fails.append(("send-%s@%s" % (type(ex).__name__, _where(ex)), "%s raised %r" % ("send" if kind == "s" else "transmit", ex)))
                break
            m_queue.append(latest)
            if not compare(i, "send" if kind == "s" else "transmit"):
                break
            continue
        if kind == "a":
            t = t + k * STEP
            stack.stamper.change(t)
        try:
            exch.process()
        except Exception as ex:
            fails.append(("process-%s@%s" % (type(ex).__name__, _where(ex)), "process() at t=%r raised %r" % (t, ex)))
            break
        info["calls"] += 1
        if m_timeout > 0 and t >= m_start + m_timeout:
            m_done = True
            info["failed"] = True
        elif m_redo > 0 and t >= m_last + m_redo:
            m_last = t                    # the redo interval restarts whether or not there is a message yet
            if latest is not None:
                m_queue.append(latest)
                info["redos"] += 1
        if not compare(i, "advance %r + process" % (k * STEP) if kind == "a" else "process again"):
            break
    return fails, info


# ------------------------------------------------------------------------------------------
def plan(tier):
    shards = [{"part": "grid"}]
    n = 6 if tier == "quick" else 16
    shards += [{"part": "sched", "i": i, "n": n} for i in range(n)]
    return shards


# one integer draw per step (cheap for Hypothesis): index into this table
STEP_TABLE = ([["a", 1]] * 6 + [["a", 2]] * 7 + [["a", 3]] * 2 + [["a", 4]] * 4 + [["a", 6]] * 2 +
              [["a", 0], ["a", 5], ["a", 8], ["a", 12], ["a", 16], ["a", 20]] +
              [["p", 0]] * 3 + [["s", 0]] * 2 + [["t", 0]] * 2)


def _steps_strategy():
    code = st.integers(0, len(STEP_TABLE) - 1)
    return st.one_of(st.lists(code, min_size=1, max_size=40), st.lists(code, min_size=12, max_size=40))


def work(shard, seed, tier):
    from vp.core.env import quiet_ioflo
    quiet_ioflo()
    acc = Acc()
    if shard["part"] == "grid":
        for clsname in CLASSES:
            for timeout in TIMEOUTS:
                for redo in REDOS:
                    for start in STARTS:
                        # creation + a fixed walk over the 0.125 lattice up to 4 s past start
                        steps = [["a", 1]] * 34
                        case = {"cls": clsname, "timeout": timeout, "redo": redo, "start": start, "steps": steps}
                        fails, info = run_case(case)
                        acc.case(key=("grid", clsname, timeout, redo, start), nontrivial=info["redos"] >= 2,
                                 classes=["grid-" + clsname, "grid-failed" if info["failed"] else "grid-not-failed"],
                                 sample=case if (timeout, redo, start) == (1.0, 0.25, 0.25) else None)
                        for sig, what in fails:
                            acc.fail(sig, what, case)
        acc.exhaustive = True
        acc.note("creation grid 3 classes x 5 timeouts x 5 redos x 3 start stamps enumerated completely")
        return acc

    n = 1200 if tier == "quick" else 8000
    strat = st.tuples(st.sampled_from(["Exchanger", "Exchanger", "Exchange"]), st.sampled_from(TIMEOUTS),
                      st.sampled_from(REDOS), st.sampled_from(STARTS), _steps_strategy(),
                      st.sampled_from([0, 0, 1, 3, 4, 8, 12, 20]), st.sampled_from([False, False, True]))

    def to_case(v):
        return {"cls": v[0], "timeout": v[1], "redo": v[2], "start": v[3], "steps": [list(STEP_TABLE[c]) for c in v[4]],
                "delay": v[5], "late": v[6]}

    def execute(v):
        case = to_case(v)
        fails, info = run_case(case)
        classes = [case["cls"],
                   "timeout=%s" % ("default" if case["timeout"] is None else case["timeout"]),
                   "redo=%s" % ("default" if case["redo"] is None else case["redo"]),
                   "ended-failed" if info["failed"] else "ended-running",
                   "redos>=2" if info["redos"] >= 2 else "redos<2"]
        if info["failed"] and info["redos"] >= 2:
            classes.append("redos>=2-then-timeout")
        if any(s[0] in ("s", "t") for s in case["steps"]) and info["redos"] >= 1:
            classes.append("redo-after-new-message")
        if info.get("transmits"):
            classes.append("latest-message-through-transmit")
        if info.get("late"):
            classes.append("first-message-after-start")
        return Outcome(fails, nontrivial=info["redos"] >= 2, classes=classes, key=case, sample=case)

    campaign(acc, strat, execute, n, seed * 1000 + shard["i"], to_case=to_case,
             budget=Budget(300 if tier == "quick" else 1500))
    return acc


def replay(case):
    from vp.core.env import quiet_ioflo
    quiet_ioflo()
    case = dict(case)
    case["steps"] = [list(s) for s in case.get("steps", [])]
    fails, _ = run_case(case)
    return fails
