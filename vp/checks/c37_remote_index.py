"""C37 A stack's remote indexes stay mutually consistent.

Generator: Hypothesis lists of <= 30 operations (create+add / create only (foreign) / add / move /
rename / reha / remove) over a RemoteStack without handler whose local device is (uid 1, 'n1',
'h1'); remotes are drawn from 4 uids x 4 names x 4 addresses that include the local keys, and
from automatically assigned uids/names (RemoteDevice uid assignment); one third of the re-keyings
aim at a currently free key (from the universe, else from 4 escape keys) so that they succeed. Operations address a pool
of every device object created so far: members, removed ex-members and never-added (foreign,
possibly key-equal but non-identical) devices, so a large share of operations must be rejected.
Oracle: snapshot comparison after every step (see RULE); no prediction of acceptance is needed.
"""
from hypothesis import strategies as st

from vp.core.acc import Acc
from vp.core.hyp import campaign, Outcome, Budget

PROPERTY = "C37"
LEVEL = "exploration"
RULE = ("Hypothesis op lists (<= 30 ops, each one integer = weighted op code x 3 small arguments; 'newfree' "
        "constructs a non-colliding device so that stacks fill to 3 members) interpreted "
        "against a fresh RemoteStack(uid=1,name='n1',ha='h1'); checked after EVERY step: (I1) the three "
        "indexes hold the identical set of device objects, (I2) every entry is stored under the device's "
        "current uid/name/ha, (I3) no key equals the local device's, .remotes is .uidRemotes, (I4) an "
        "operation that raised changed neither an index (keys, order, objects) nor any device attribute, "
        "(I5) a successful move/rename/reha of a member replaced exactly that key at the same position "
        "and left the other two indexes alone, successful add/remove changed only that device's entries, "
        "(I6) an automatically assigned uid is unused; non-trivial = history with >= 1 rejected operation "
        "and >= 1 successful re-keying of a non-last member; distinct = op list")
ASSUMPTIONS = [
    "operations are applied only through addRemote/moveRemote/renameRemote/rehaRemote/removeRemote; device attributes are never assigned by the harness; every string key handed to the stack is an equal but not identical object (as keys read from the wire are)",
    "'rejected' = the operation raised any exception (ValueError normally; removeRemote of a non-identical device raises NameError from its message formatting, still a rejection)",
    "re-keying to the current key is a successful no-op (as coded) and must change nothing",
    "iteration order = order of odict.keys()/values()",
]
META = {
    "level": LEVEL,
    "text": "Thousands of generated operation histories with a high rejection rate are checked step by step "
            "against index-agreement, key-currency, local-collision, atomic-rejection and position invariants "
            "derived directly from the statement; the small key universe forces collisions of every kind "
            "(with members, with the local device, with key-equal foreign devices).",
    "note": "Trusts only the harness snapshot/compare code. Absence is shown for the explored histories.",
    "technique": "Hypothesis operation histories interpreted against the real stack with per-step invariant and frame checks",
    "design_ref": "DESIGN.md section 3, C37",
}

UIDS = [1, 2, 3, 4]
NAMES = ["n1", "n2", "n3", "n4"]
HAS = ["h1", "h2", "h3", ""]       # one falsy address (what Device assigns when none is given)
LOCAL = (1, "n1", "h1")
# escape keys, used only as the target of a constructive ("to a free key") re-keying
XUIDS, XNAMES, XHAS = [5, 6, 7, 8], ["n5", "n6", "n7", "n8"], ["h5", "h6", "h7", "h8"]

def fresh(v):
    """An equal but not identical object for a string key (keys that arrive over the wire or are built with format()
    are never the same objects as the ones a stack already holds); other keys are returned as they are."""
    if isinstance(v, str) and len(v) >= 2:
        return "".join(list(v))
    return v


# op codes (weights by repetition)
KINDS = ["new", "newfree", "newfree", "newfree", "foreign", "add", "move", "move", "rename", "rename", "reha", "reha", "remove"]
NOPS = len(KINDS) * 5 * 6 * 4   # an op is ONE integer in range(NOPS) (one Hypothesis draw per op)


def split(n):
    n, c = divmod(n, 4)
    n, b = divmod(n, 6)
    code, a = divmod(n, 5)
    return code % len(KINDS), a, b, c


def decode(n, free=None):
    """integer -> symbolic op. `free` = (free uids, free names, free has) of the stack right now,
    used by 'newfree' to construct a device that does not collide (so that stacks fill up)."""
    code, a, b, c = split(n)
    kind = KINDS[code]
    if kind == "newfree":
        if free is not None and all(free[:3]):
            return ["new", free[0][a % len(free[0])], free[1][b % len(free[1])], free[2][c % len(free[2])]]
        kind = "new"
    if kind in ("new", "foreign"):
        uid = None if a == 0 else UIDS[a - 1]
        name = None if b % 5 == 0 else NAMES[b % 5 - 1]
        return [kind, uid, name, HAS[c]]
    # b >= 4: re-key to a currently free key (constructive: likely accepted), base universe first
    which = {"move": 0, "rename": 1, "reha": 2}.get(kind)
    if which is not None:
        universe = (UIDS, NAMES, HAS)[which]
        if b >= 4 and free is not None:
            cand = free[which] or free[3 + which]
            if cand:
                return [kind, a, cand[c % len(cand)]]
        return [kind, a, universe[b % 4]]
    return [kind, a]


def free_keys(stack):
    return ([u for u in UIDS if u not in stack.uidRemotes and u != stack.local.uid],
            [n for n in NAMES if n not in stack.nameRemotes and n != stack.local.name],
            [h for h in HAS if h not in stack.haRemotes and h != stack.local.ha],
            [u for u in XUIDS if u not in stack.uidRemotes], [n for n in XNAMES if n not in stack.nameRemotes],
            [h for h in XHAS if h not in stack.haRemotes])


def snapshot(stack, pool):
    idx = tuple(tuple((k, id(r)) for k, r in d.items()) for d in (stack.uidRemotes, stack.nameRemotes, stack.haRemotes))
    attrs = tuple((r.uid, r.name, r.ha) for r in pool)
    local = (stack.local.uid, stack.local.name, stack.local.ha)
    return idx, attrs, local


def invariants(stack):
    out = []
    u, n, h = stack.uidRemotes, stack.nameRemotes, stack.haRemotes
    if stack.remotes is not stack.uidRemotes:
        out.append(("alias-broken", ".remotes is no longer .uidRemotes"))
    ids = [sorted(id(r) for r in d.values()) for d in (u, n, h)]
    if not (ids[0] == ids[1] == ids[2]):
        out.append(("index-sets-differ", "uid index holds %r, name index %r, ha index %r"
                    % (u.keys(), n.keys(), h.keys())))
    for label, d, attr in (("uid", u, "uid"), ("name", n, "name"), ("ha", h, "ha")):
        ks = d.keys()
        if len(ks) != len(set(ks)) or len(ks) != len(d):
            out.append(("index-corrupt", "%s index keys %r vs dict size %d" % (label, ks, len(d))))
        for k, r in d.items():
            if getattr(r, attr) != k:
                out.append(("stale-key-" + label, "%s index stores under %r a device whose .%s is %r"
                            % (label, k, attr, getattr(r, attr))))
    if stack.local.uid in u:
        out.append(("local-collision-uid", "uid index contains the local uid %r" % (stack.local.uid,)))
    if stack.local.name in n:
        out.append(("local-collision-name", "name index contains the local name %r" % (stack.local.name,)))
    if stack.local.ha in h:
        out.append(("local-collision-ha", "ha index contains the local ha %r" % (stack.local.ha,)))
    return out


def run_case(ops):
    """ops: list of integers in range(NOPS). Returns (fails, info)."""
    from ioflo.aio.proto import stacking, devicing
    stack = stacking.RemoteStack(uid=LOCAL[0], name=fresh(LOCAL[1]), ha=fresh(LOCAL[2]))
    pool = []
    fails = []
    info = {"decoded": [], "rejected": 0, "accepted": 0, "rekey_nonlast": 0, "foreign_ops": 0, "auto": 0, "maxsize": 0,
            "rej_kinds": set()}
    if (stack.local.uid, stack.local.name, stack.local.ha) != LOCAL or len(stack.remotes) != 0:
        return [("setup", "RemoteStack(uid=1,name='n1',ha='h1') local=%r remotes=%r"
                 % ((stack.local.uid, stack.local.name, stack.local.ha), stack.remotes))], info

    for stepno, raw in enumerate(ops, 1):
        op = decode(raw, free_keys(stack))
        kind = op[0]
        info["decoded"].append(op)
        target = None
        if kind in ("new", "foreign"):
            try:
                target = devicing.RemoteDevice(stack=stack, uid=op[1], name=fresh(op[2]), ha=fresh(op[3]))
            except Exception as ex:
                fails.append(("device-create-%s" % type(ex).__name__, "step %d %r: RemoteDevice(...) raised %r" % (stepno, op, ex)))
                break
            if op[1] is None:
                info["auto"] += 1
                if target.uid in stack.uidRemotes or target.uid == stack.local.uid:
                    fails.append(("auto-uid-collides", "step %d %r: automatically assigned uid %r is already used "
                                  "(local %r, remotes %r)" % (stepno, op, target.uid, stack.local.uid, stack.uidRemotes.keys())))
                    break
            pool.append(target)
            if kind == "foreign":
                bad = invariants(stack)
                if bad:
                    fails.extend(("%s" % s, "step %d %r (device creation only): %s" % (stepno, op, w)) for s, w in bad)
                    break
                continue
        else:
            if not pool:
                continue
            # selector 0..2: the selector-th current member (if any), 3..4: any device ever created
            members = stack.uidRemotes.values()
            if op[1] < 3 and members:
                target = members[op[1] % len(members)]
            else:
                target = pool[op[1] % len(pool)]
        pre = snapshot(stack, pool)
        member = any(r is target for r in stack.uidRemotes.values())
        pos = None
        if member:
            pos = [i for i, r in enumerate(stack.uidRemotes.values()) if r is target][0]
        if not member and kind not in ("new", "add"):
            info["foreign_ops"] += 1
        old = (target.uid, target.name, target.ha)
        raised = None
        try:
            if kind in ("new", "add"):
                stack.addRemote(target)
            elif kind == "move":
                stack.moveRemote(target, op[2])
            elif kind == "rename":
                stack.renameRemote(target, fresh(op[2]))
            elif kind == "reha":
                stack.rehaRemote(target, fresh(op[2]))
            elif kind == "remove":
                stack.removeRemote(target)
        except Exception as ex:
            raised = ex
        post = snapshot(stack, pool)
        desc = "step %d %r on device(uid=%r,name=%r,ha=%r,%s)" % (stepno, op, old[0], old[1], old[2],
                                                                  "member#%d" % pos if member else "non-member")
        step_fails = []
        if raised is not None:
            info["rejected"] += 1
            info["rej_kinds"].add(kind)
            if post != pre:
                step_fails.append(("rejected-op-changed-state@" + ("add" if kind == "new" else kind),
                                   "%s raised %r but changed the state:\n before %r\n after  %r" % (desc, raised, pre, post)))
        else:
            info["accepted"] += 1
            exp = None
            tid = id(target)
            if kind in ("new", "add"):
                if member:
                    exp = pre[0]
                else:
                    got_wo = tuple(tuple(e for e in ix if e[1] != tid) for ix in post[0])
                    if got_wo != pre[0] or not all(any(e[1] == tid for e in ix) for ix in post[0]):
                        step_fails.append(("add-effect", "%s succeeded: indexes before %r after %r" % (desc, pre[0], post[0])))
            elif kind == "remove":
                exp = tuple(tuple(e for e in ix if e[1] != tid) for ix in pre[0])
            elif member:
                which = {"move": 0, "rename": 1, "reha": 2}[kind]
                new = op[2]
                if new == old[which]:
                    exp = pre[0]
                else:
                    lst = list(pre[0])
                    lst[which] = tuple((new, i) if i == tid else (k, i) for k, i in pre[0][which])
                    exp = tuple(lst)
                    if pos < len(pre[0][0]) - 1 or \
                            [i for i, e in enumerate(pre[0][which]) if e[1] == tid][0] < len(pre[0][which]) - 1:
                        info["rekey_nonlast"] += 1
                    if getattr(target, ("uid", "name", "ha")[which]) != new:
                        step_fails.append(("rekey-attr", "%s succeeded but the device's key is %r"
                                           % (desc, getattr(target, ("uid", "name", "ha")[which]))))
            if exp is not None and post[0] != exp:
                sig = {"move": "position-or-content@move", "rename": "position-or-content@rename",
                       "reha": "position-or-content@reha", "remove": "remove-effect"}.get(kind, "add-effect")
                step_fails.append((sig, "%s succeeded: indexes (uid,name,ha) as (key,object) lists\n before   %r\n after    %r\n expected %r"
                                   % (desc, pre[0], post[0], exp)))
            # other devices' attributes never change
            for i, r in enumerate(pool):
                if r is not target and post[1][i] != pre[1][i]:
                    step_fails.append(("other-device-changed", "%s changed another device %r -> %r" % (desc, pre[1][i], post[1][i])))
        if post[2] != LOCAL:
            step_fails.append(("local-changed", "%s changed the local device to %r" % (desc, post[2])))
        step_fails.extend((s, "%s: %s" % (desc, w)) for s, w in invariants(stack))
        info["maxsize"] = max(info["maxsize"], len(stack.uidRemotes))
        if step_fails:
            fails.extend(step_fails)
            break
    return fails, info


def classify(info, nops):
    classes = ["ops<=10" if nops <= 10 else ("ops<=20" if nops <= 20 else "ops<=30")]
    classes.append("rejected>=1" if info["rejected"] else "rejected=0")
    if info["rekey_nonlast"]:
        classes.append("rekey-nonlast>=1")
    if info["foreign_ops"]:
        classes.append("ops-on-non-member>=1")
    if info["auto"]:
        classes.append("auto-uid>=1")
    classes.append("max-members=%d" % min(info["maxsize"], 3))
    for k in sorted(set("add" if k == "new" else k for k in info["rej_kinds"])):
        classes.append("rejected-" + k)
    return classes


def plan(tier):
    n = 8 if tier == "quick" else 16
    return [{"part": "hist", "i": i, "n": n} for i in range(n)]


def work(shard, seed, tier):
    from vp.core.env import quiet_ioflo
    quiet_ioflo()
    acc = Acc()
    n = 400 if tier == "quick" else 4000
    op = st.integers(0, NOPS - 1)
    strat = st.one_of(st.lists(op, min_size=1, max_size=30), st.lists(op, min_size=10, max_size=30))

    def to_case(v):
        return {"ops": list(v)}

    def execute(v):
        ops = list(v)
        fails, info = run_case(ops)
        nt = info["rejected"] >= 1 and info["rekey_nonlast"] >= 1
        return Outcome(fails, nontrivial=nt, classes=classify(info, len(ops)), key=ops,
                       sample={"ops": ops, "decoded": info["decoded"]})

    campaign(acc, strat, execute, n, seed * 1000 + shard["i"], to_case=to_case,
             budget=Budget(300 if tier == "quick" else 1500))
    return acc


def replay(case):
    from vp.core.env import quiet_ioflo
    quiet_ioflo()
    fails, _ = run_case([int(o) for o in case["ops"]])
    return fails
