"""C31 Keep-alive connections carry N requests to N ordered, framed responses.

One persistent connection between a real `Patron` and a real `Valet`; N in 1..8 requests, each
with an id; the generated WSGI application answers request i with the shape generated for
it (fixed length / streamed by a generator without a length / empty) and echoes the id it
*received*.  The generated history says when each request is queued and in which order the
client's and the server's `serviceAll` are called; the transport is the in-memory
`DuplexPipe` with generated segmentation (all tiers) and a real loopback TCP connection
(thorough tier).

Oracle: the application is called exactly once per request, in order; the client delivers
exactly N responses in request order; response i echoes id i, is attached to request i
(`response['request']['rid']`), has the status, and the body produced for i (both at
delivery and at the end of the run: a delivered response must not change afterwards); no
stray bytes remain and the single connection is still open at both ends after every
response (the next request is served on it).
"""
from hypothesis import strategies as st

from vp.core.acc import Acc
from vp.core.hyp import campaign, Outcome, Budget
from vp.net import httppipe

PROPERTY = "C31"
LEVEL = "exploration"
RULE = ("Hypothesis-generated histories: N in 1..8 requests (GET or POST/PUT with a body) on one persistent "
        "connection, a response shape per request (fixed, fixed by generator, streamed generator without length "
        "with pauses, chunked list without length, empty with or without Content-Length), an operation string over "
        "{queue next request, client serviceAll, server serviceAll} followed by fair alternation, and per-direction "
        "send/recv chunk schedules of the in-memory pipe; thorough adds the same histories over real loopback TCP. "
        "non-trivial = N >= 2 and some response without a length (streamed/chunked/empty-no-length) is followed by "
        "another response; distinct = distinct generated history")
ASSUMPTIONS = [
    "the in-memory socket doubles behave like non-blocking stream sockets; everything is deterministic, so a run in which "
    "no byte moves for 16 consecutive unrestricted service rounds (longer than any generated application pause) can never complete",
    "requests are HTTP/1.1 without Connection: close, so the connection is persistent by the rules in checkPersisted",
    "over real loopback a service-round bound that is hit is recorded as inconclusive, never as a violation",
    "extra keys given to Patron.request (rid) are carried into response['request'] as documented in its docstring",
]
META = {
    "level": LEVEL,
    "text": "Generated request/response histories with generated interleavings of the two service loops and generated "
            "segmentation are executed on the unmodified Patron/Valet classes and compared with the trivially correct "
            "model (response i = f(request i)). Exploration: holds for the explored histories and schedules.",
    "note": "Trusts the harness socket doubles; real-socket runs (thorough) use ephemeral loopback ports.",
    "technique": "Hypothesis-generated operation histories and schedules vs reference model over an in-memory socket pair",
    "design_ref": "DESIGN.md section 3, C31",
}

SHAPES = ["fixed", "fixedgen", "stream", "stream", "chunked", "empty", "empty0", "overlong", "raise", "raisegen"]
NOLEN = ("stream", "chunked", "empty")

piece = st.one_of(st.binary(min_size=1, max_size=12), st.binary(min_size=1, max_size=90),
                  st.sampled_from([b"0\r\n\r\n", b"\r\n\r\n", b"HTTP/1.1 200 OK\r\nContent-Length: 0\r\n\r\n"]))
req_st = st.fixed_dictionaries({
    "shape": st.sampled_from(SHAPES),
    "method": st.sampled_from(["GET", "GET", "POST", "PUT", "HEAD"]),
    "reqbody": st.binary(max_size=30),
    "pieces": st.lists(piece, min_size=1, max_size=4),
    "pauses": st.lists(st.integers(0, 2), min_size=1, max_size=4),
    "status": st.sampled_from(["200 OK", "200 OK", "201 Created", "404 Not Found", "204 No Content", "304 Not Modified"]),
    "direct": st.sampled_from([False, False, False, True]),
}).map(lambda r: dict(r, shape=(r["shape"] if r["shape"] in ("empty", "empty0") else "empty"))
       if r["status"][:3] in ("204", "304") else r      # 204 / 304 carry no body (with or without Content-Length: 0)
       ).map(lambda r: dict(r, shape=("fixed" if r["shape"] in ("fixed", "fixedgen", "stream", "chunked", "overlong", "raise", "raisegen") else "empty0"))
             if r["method"] == "HEAD" else r)    # the reply to a HEAD: head only, Content-Length of the would-be body or 0
sched_list = st.one_of(st.just([]), st.lists(st.sampled_from([0, 0, 1, 2, 3, 5, 8, 13, 64, 1000]), min_size=1, max_size=6))
sched_st = st.fixed_dictionaries({"a_send": sched_list, "a_recv": sched_list, "b_send": sched_list, "b_recv": sched_list})
case_st = st.fixed_dictionaries({
    "reqs": st.sampled_from([1, 2, 2, 3, 3, 4, 5, 6, 7, 8]).flatmap(lambda n: st.lists(req_st, min_size=n, max_size=n)),
    "ops": st.text(alphabet="ccssq", max_size=60),
    "collect": st.sampled_from(["each", "end"]),
    "sched": sched_st,
})


def expected(i, r):
    """(status code, body) the application produces for request i."""
    head = b"id=%d;" % i
    if r["shape"] in ("empty", "empty0") or r["method"] == "HEAD":
        return int(r["status"][:3]), b""
    if r["shape"] in ("raise", "raisegen"):
        return 404, _error(i).render()
    body = head + (r["reqbody"] if r["method"] not in ("GET", "HEAD") else b"") + b";" + b"".join(r["pieces"])
    if r["shape"] == "overlong":
        # the application yields more than the Content-Length it declared (the surplus lies in its last piece): the
        # response is delimited by the declared length, the surplus is never sent
        body = body[:len(body) - _surplus(r)]
    return int(r["status"][:3]), body


def _error(i):
    """The HTTP error the application raises instead of answering request i (before anything was sent)."""
    from ioflo.aio.http import httping
    return httping.HTTPError(404, title="gone", detail="id=%d" % i, headers={"X-Echo-Id": str(i)})


def _surplus(r):
    return 1 + len(r["pieces"][-1]) // 2


def make_app(reqs, calls):
    def app(environ, start_response):
        from urllib.parse import parse_qsl
        q = dict(parse_qsl(environ["QUERY_STRING"]))
        i = int(q["id"])
        inp = environ["wsgi.input"].read()
        calls.append((i, environ.get("HTTP_X_REQ_ID"), environ["REQUEST_METHOD"], inp))
        r = reqs[i]
        shape = r["shape"]
        hs = [("X-Echo-Id", str(i)), ("Content-Type", "application/octet-stream")]
        parts = [b"id=%d;" % i, inp + b";"] + list(r["pieces"])
        total = sum(len(p) for p in parts)
        if environ["REQUEST_METHOD"] == "HEAD":
            start_response(r["status"], hs + [("Content-Length", str(total if shape == "fixed" else 0))])
            return []
        if shape == "raise":          # the callable itself raises the error (there is no iterator)
            raise _error(i)
        if shape == "raisegen":

            def failing():
                raise _error(i)
                yield b""             # noqa: unreachable, makes this a generator
            return failing()
        if shape == "empty":
            start_response(r["status"], hs)
            return []
        if shape == "empty0":
            start_response(r["status"], hs + [("Content-Length", "0")])
            return []
        if shape == "fixed":
            start_response(r["status"], hs + [("Content-Length", str(total))])
            return [b"".join(parts[:2])] + parts[2:]
        if shape == "overlong":
            start_response(r["status"], hs + [("Content-Length", str(total - _surplus(r)))])
            return iter(parts)
        if shape == "chunked":
            start_response(r["status"], hs)
            return parts
        pauses = r["pauses"]

        def gen():
            start_response(r["status"], hs + ([("Content-Length", str(total))] if shape == "fixedgen" else []))
            for k, p in enumerate(parts):
                for _ in range(pauses[k % len(pauses)]):
                    yield b""
                yield p
        return gen()
    return app


def _queue(patron, i, r):
    from ioflo.aid.odicting import odict
    patron.request(method=r["method"], path=u"/r", qargs=odict([("id", i)]),
                   headers=odict([("X-Req-Id", str(i)), ("Accept", "*/*")]),
                   body=r["reqbody"] if r["method"] not in ("GET", "HEAD") else None, rid=i)


class Run(object):
    """Interprets a history against a (patron, valet) pair, recording deliveries."""

    def __init__(self, case, patron, valet):
        self.case = case
        self.reqs = case["reqs"]
        self.patron = patron
        self.valet = valet
        self.queued = 0
        self.delivered = []      # (response dict reference, body snapshot at delivery)
        self.snaps = {}          # id(response) -> body snapshot, for responses still queued in the Patron
        self.fails = []
        self.direct = set()      # indices of the requests sent with Patron.transmit()

    def collect(self, final=False):
        """Take delivered responses from the client's queue.

        collect mode "each": popped as soon as they appear (a user polling Patron.respond()).
        collect mode "end": left to accumulate in Patron.responses and popped, in queue order,
        when the history is over; the body of each is still snapshotted when it first appears.
        """
        if self.case.get("collect", "each") == "each" or final:
            while self.patron.responses:
                resp = self.patron.responses.popleft()
                snap = self.snaps.pop(id(resp), None)
                self.delivered.append((resp, bytes(resp["body"]) if snap is None else snap))
        else:
            for resp in self.patron.responses:
                if id(resp) not in self.snaps:
                    self.snaps[id(resp)] = bytes(resp["body"])

    def queue_next(self):
        if self.queued < len(self.reqs):
            r = self.reqs[self.queued]
            if r.get("direct") and (self.patron.waited or self.patron.requests):
                return       # a direct request waits until nothing is in process (tried again at the next call)
            if r.get("direct"):
                # nothing in process: the request is sent at once with Patron.transmit() instead of being queued with
                # Patron.request(); it carries no correlation extras, so its response must not carry any either
                from ioflo.aid.odicting import odict
                self.patron.transmit(method=r["method"], path=u"/r", qargs=odict([("id", self.queued)]),
                                     headers=odict([("X-Req-Id", str(self.queued)), ("Accept", "*/*")]),
                                     body=r["reqbody"] if r["method"] not in ("GET", "HEAD") else None)
                self.direct.add(self.queued)
            else:
                _queue(self.patron, self.queued, r)
            self.queued += 1

    def op(self, o):
        if o == "q":
            self.queue_next()
        elif o == "c":
            self.patron.serviceAll()
            self.collect()
        else:
            self.valet.serviceAll()

    def done(self):
        self.collect()
        n = len(self.delivered) + len(self.patron.responses)
        if (self.queued == len(self.reqs) and n >= len(self.reqs)
                and not self.patron.waited and not self.patron.requests):
            self.collect(final=True)
            return True
        return False


def judge(run, calls, state, rounds):
    """Compare what was delivered with the model."""
    reqs = run.reqs
    n = len(reqs)
    fails = []
    shapes = [r["shape"] for r in reqs]
    got = run.delivered
    if state != "done":
        k = len(got)
        prev = shapes[k - 1] if k else "-"
        kind = "?" if k >= n else ("nolength" if shapes[k] in NOLEN else "length")
        fails.append(("response-never-completes/%s-%s" % ("first" if k == 0 else "later", kind),
                      "response %d of %d (shape %s, previous shape %s) was not delivered: exchange %s after %d rounds; shapes %r"
                      % (k, n, shapes[k] if k < n else "?", prev, state, rounds, shapes)))
    if len(got) > n:
        fails.append(("extra-response", "%d responses delivered for %d requests" % (len(got), n)))
    seen_ids = [c[0] for c in calls]
    if seen_ids != list(range(len(seen_ids))) or (state == "done" and len(seen_ids) != n):
        fails.append(("app-call-order", "application saw request ids %r for %d requests" % (seen_ids, n)))
    for c in calls:
        i, hid, method, inp = c
        want = reqs[i]["reqbody"] if reqs[i]["method"] not in ("GET", "HEAD") else b""
        if hid != str(i) or method != reqs[i]["method"] or inp != want:
            fails.append(("request-mismatch", "request %d arrived as id header %r method %r body %r (sent %r %r)"
                          % (i, hid, method, inp[:60], reqs[i]["method"], want[:60])))
            break
    for k, (resp, snap) in enumerate(got[:n]):
        code, body = expected(k, reqs[k])
        echo = (resp.get("headers") or {}).get("x-echo-id")
        rid = (resp.get("request") or {}).get("rid")
        if resp.get("errored"):
            fails.append(("response-errored", "response %d errored: %r" % (k, resp.get("error"))))
            break
        if echo != str(k) or rid != (None if k in run.direct else k):
            fails.append(("order" if k not in run.direct else "direct-request-gets-another-requests-extras",
                          "response %d echoes id %r and is attached to request rid %r%s; shapes %r"
                          % (k, echo, rid, " (sent with transmit(), no rid of its own)" if k in run.direct else "", shapes)))
            break
        if resp.get("status") != code:
            fails.append(("status", "response %d status %r != %r" % (k, resp.get("status"), code)))
            break
        if snap != body:
            fails.append(("body-at-delivery/%s" % reqs[k]["shape"],
                          "response %d (shape %s) body at delivery %r != produced %r; shapes %r"
                          % (k, reqs[k]["shape"], snap[:80], body[:80], shapes)))
            break
        if bytes(resp["body"]) != snap:
            fails.append(("body-changed-after-delivery",
                          "response %d (shape %s) body was %r when delivered and is %r after later responses; shapes %r"
                          % (k, reqs[k]["shape"], snap[:60], bytes(resp["body"])[:60], shapes)))
            break
    return fails


def run_memory(case):
    calls = []
    mp = httppipe.memory_pair(make_app(case["reqs"], calls), case.get("sched"))
    run = Run(case, mp.patron, mp.valet)
    try:
        try:
            for o in case["ops"]:
                run.op(o)
        except Exception as ex:   # noqa: BLE001
            return [(httppipe.exc_sig(ex), "service call raised %r during the generated interleaving" % (ex,))]

        def done():
            run.queue_next()      # remaining requests are queued one per round
            return run.done()
        state, rounds, ex = httppipe.drive(mp, done)
        if state == "raised":
            return [(httppipe.exc_sig(ex), "service call raised %r" % (ex,))]
        fails = judge(run, calls, state, rounds)
        if state == "done" and not fails:
            # connection still usable and cleanly framed
            for _ in range(3):
                mp.patron.serviceAll()
                mp.valet.serviceAll()
            run.collect(final=True)
            if len(run.delivered) != len(case["reqs"]):
                fails.append(("extra-response", "%d responses after idling" % len(run.delivered)))
            if len(mp.connector.rxbs) or mp.pipe.in_flight():
                fails.append(("stray-bytes", "bytes left on the connection after the last response: client rxbs %r, in flight %d"
                              % (bytes(mp.connector.rxbs[:60]), mp.pipe.in_flight())))
            if mp.patron.connector is not mp.connector or mp.connector.cutoff or not mp.connector.connected \
                    or len(mp.servant.ixes) != 1 or mp.listener.pending or mp.pipe.a.closed or mp.pipe.b.closed:
                fails.append(("connection-not-kept", "connection not open at both ends after %d responses (client cutoff=%r, server connections=%d)"
                              % (len(run.delivered), mp.connector.cutoff, len(mp.servant.ixes))))
        return fails
    finally:
        mp.close()


def run_loopback(case, max_rounds=4000):
    """Same history over a real loopback connection. Returns (fails, inconclusive)."""
    from ioflo.base import storing
    from ioflo.aio.http import clienting
    calls = []
    store = storing.Store(stamp=0.0)
    valet = patron = None
    try:
        valet, port = httppipe.loopback_valet(make_app(case["reqs"], calls), store=store)
        patron = clienting.Patron(hostname="127.0.0.1", port=port, store=store, bufsize=65536)
        patron.open()
        run = Run(case, patron, valet)
        try:
            for o in case["ops"]:
                run.op(o)
            rounds = 0
            while rounds < max_rounds:
                run.queue_next()
                if run.done():
                    break
                patron.serviceAll()
                valet.serviceAll()
                rounds += 1
                httppipe.pace(rounds)
        except Exception as ex:   # noqa: BLE001
            return [(httppipe.exc_sig(ex), "service call raised %r over loopback" % (ex,))], False
        if not run.done():
            return [], True       # bound hit over real sockets: inconclusive
        fails = judge(run, calls, "done", rounds)
        if not fails and (patron.connector.cutoff or len(valet.servant.ixes) != 1):
            fails.append(("connection-not-kept", "loopback connection not kept open (cutoff=%r, server connections=%d)"
                          % (patron.connector.cutoff, len(valet.servant.ixes))))
        return fails, False
    finally:
        httppipe.close_all([patron] if patron else [], [valet] if valet else [])


def classify(case):
    shapes = [r["shape"] for r in case["reqs"]]
    n = len(shapes)
    cls = ["n=%d" % n] + sorted(set("shape:" + s for s in shapes))
    nt = any(s in NOLEN for s in shapes[:-1])
    if nt:
        cls.append("nolength-then-more")
    if any(a in NOLEN and b in ("fixed", "fixedgen", "empty0") for a, b in zip(shapes, shapes[1:])):
        cls.append("nolength-then-fixed")
    if any(a in ("fixed", "fixedgen", "empty0") and b in NOLEN for a, b in zip(shapes, shapes[1:])):
        cls.append("fixed-then-nolength")
    if any(case["sched"].get(k) for k in case["sched"]):
        cls.append("chunked-transport")
    cls.append("collect:" + case.get("collect", "each"))
    if "q" in case["ops"]:
        cls.append("requests-queued-during-service")
    if any(r["method"] not in ("GET", "HEAD") and r["reqbody"] for r in case["reqs"]):
        cls.append("request-with-body")
    ms = [r["method"] == "HEAD" for r in case["reqs"]]
    if any(a != b for a, b in zip(ms, ms[1:])):
        cls.append("method-switches-to-or-from-HEAD")
    return nt, cls


def plan(tier):
    if tier == "quick":
        return [{"part": "mem", "i": i} for i in range(8)]
    return [{"part": "mem", "i": i} for i in range(12)] + [{"part": "loop", "i": 100 + i} for i in range(4)]


def work(shard, seed, tier):
    acc = Acc()
    if shard["part"] == "mem":
        n = 40 if tier == "quick" else 1700

        def execute(case):
            nt, cls = classify(case)
            return Outcome(run_memory(case), nontrivial=nt, classes=cls + ["transport:memory"], key=case)
        campaign(acc, case_st, execute, n, seed * 1000 + shard["i"], to_case=lambda c: dict(c, transport="memory"),
                 budget=Budget(90 if tier == "quick" else 480), shrink_examples=300)
    else:
        def execute(case):
            nt, cls = classify(case)
            fails, inconclusive = run_loopback(case)
            if inconclusive:
                acc.budget_hit = True
                acc.note("a loopback history hit the service-round bound: inconclusive")
                cls = cls + ["loopback-inconclusive"]
            return Outcome(fails, nontrivial=nt, classes=cls + ["transport:loopback"], key=("loop", case))
        campaign(acc, case_st, execute, 250, seed * 1000 + shard["i"], to_case=lambda c: dict(c, transport="loopback"),
                 budget=Budget(400), shrink_examples=100)
    return acc


def replay(case):
    if case.get("transport") == "loopback":
        return run_loopback(case)[0]
    return run_memory(case)
