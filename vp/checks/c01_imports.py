"""C01 Every ioflo module imports in a fresh interpreter, in any order.

(a) solo: every module under <REPO>/ioflo (discovered from the tree at run time) plus the
package `ioflo` itself is imported alone by
    /venv/bin/python -B -c "import sys; sys.path.insert(0, REPO); import <m>"
in a clean subprocess (cwd = empty temp dir outside the repo, no PYTHONPATH / PYTHONSTARTUP,
nothing imported before it; in particular not collections.abc).
Oracle: exit status 0 and no traceback (warnings on stderr are not failures).
(a') bare: the same solo import in an interpreter started with -S, so that nothing has been preloaded by the
environment's start-up hooks (site, .pth files import e.g. importlib.util): same outcome as (a), unless a
third-party module is merely not on the bare path.
(b) orders: Hypothesis draws permutations of subsets (2..12 modules) and of the full module set; one fresh process
imports them one after another, each import wrapped so its own outcome is recorded (the
driver imports nothing but sys). Oracle (metamorphic): outcome of m after any prefix ==
solo outcome of m (ok / exception type). A module that is ok inside an order is not imported
alone again by the order part (the exhaustive solo part reports every module that fails alone);
a module that fails inside an order is imported alone (cached) and the outcomes are compared.
"""
import os
import re
import shutil
import subprocess
import tempfile
from concurrent.futures import ThreadPoolExecutor

from hypothesis import strategies as st

from vp.core import env
from vp.core.acc import Acc
from vp.core.hyp import campaign, Outcome, Budget

PROPERTY = "C01"
LEVEL = "exploration"
IMPORTS_IOFLO = False          # the check itself never imports ioflo in-process
RULE = ("solo: every module found under <repo>/ioflo (exhaustive) + `import ioflo`, each in a clean "
        "subprocess, normally started, started with -S (no site / .pth preloads), started with -OO (asserts and docstrings stripped) started without a standard output (fd 1 closed, sys.stdout is None), and with the import made by a worker thread of a normally started interpreter started with an empty environment, and started with -bb (each of the last three - quick: every package and a third of the modules, thorough: all); orders: Hypothesis-drawn permutations of subsets of 2-12 modules and of all modules, imported "
        "one after another in one fresh process, each outcome compared with the module's solo outcome. "
        "non-trivial solo = module that is not a package __init__ and imports another ioflo module; "
        "non-trivial order = modules from >= 2 different subpackages; distinct = module / module sequence")
ASSUMPTIONS = [
    "interpreter /venv/bin/python (the supported one), -B, cwd outside the repo, environment reduced to PATH/HOME/LANG",
    "warnings on stderr (SyntaxWarning: invalid escape sequence) are not failures; a traceback or non-zero exit is",
    "ioflo/aio/win modules guard `import win32file` with try/except ImportError, so they are expected to import on Linux",
    "a module's outcome is 'ok' or the type name of the exception that ended its import",
]
META = {
    "level": "exploration",
    "text": "The solo part enumerates every module of the tree (exhaustive for that part); the order part samples "
            "permutations of module subsets, which cannot enumerate all orders.",
    "note": "Trusts subprocess exit status / stderr parsing; module discovery = every .py file under ioflo/.",
    "technique": "clean-subprocess import of every module (exhaustive) + Hypothesis-drawn import orders compared with solo outcomes (metamorphic)",
    "design_ref": "DESIGN.md section 3, C01",
}
HARD_CAP_S = {"quick": 900, "thorough": 3600}
TIMEOUT = 120


def discover():
    """[(module name, relative file, is_package_init)] for every .py under REPO/ioflo, sorted."""
    root = os.path.join(env.REPO, "ioflo")
    mods = []
    for d, dirs, files in os.walk(root):
        dirs.sort()
        if "__pycache__" in dirs:
            dirs.remove("__pycache__")
        for f in sorted(files):
            if not f.endswith(".py"):
                continue
            rel = os.path.relpath(os.path.join(d, f), env.REPO)
            parts = rel[:-3].split(os.sep)
            if not all(re.match(r"^[A-Za-z_]\w*$", p) for p in parts):
                continue
            if parts[-1] == "__init__":
                mods.append((".".join(parts[:-1]), rel, True))
            else:
                mods.append((".".join(parts), rel, False))
    return sorted(mods)


_IMPORTS_OTHER = re.compile(r"^\s*(from\s+\.+\w*|from\s+ioflo\b|import\s+ioflo\b)", re.M)


def nontrivial_module(rel, is_init):
    if is_init:
        return False
    try:
        with open(os.path.join(env.REPO, rel), encoding="utf-8", errors="replace") as fh:
            return bool(_IMPORTS_OTHER.search(fh.read()))
    except OSError:
        return False


def _clean_env():
    e = {"PATH": os.environ.get("PATH", "/usr/bin:/bin"), "HOME": os.environ.get("HOME", "/root"),
         "LANG": os.environ.get("LANG", "C.UTF-8")}
    return e


def _run(code, cwd, flags=()):
    try:
        extra = {}
        if "nostdout" in flags:      # interpreter started without a standard output (fd 1 closed): sys.stdout is None
            flags = [f for f in flags if f != "nostdout"]
            extra["preexec_fn"] = lambda: os.close(1)
        penv = _clean_env()
        if "noenv" in flags:         # interpreter started with an empty environment (env -i, init unit, container entry point)
            flags = [f for f in flags if f != "noenv"]
            penv = {}
        p = subprocess.run([env.PYTHON, "-B"] + list(flags) + ["-c", code], cwd=cwd, env=penv, stdin=subprocess.DEVNULL,
                           stdout=subprocess.DEVNULL if extra else subprocess.PIPE, stderr=subprocess.PIPE, timeout=TIMEOUT, **extra)
        return p.returncode, (p.stdout or b"").decode("utf-8", "replace"), p.stderr.decode("utf-8", "replace")
    except subprocess.TimeoutExpired as ex:
        return -999, "", "TIMEOUT after %ss\n%s" % (TIMEOUT, (ex.stderr or b"").decode("utf-8", "replace"))


def _parse_failure(stderr):
    """(exception type, innermost ioflo file relative to the repo, last line) from a traceback."""
    lines = [l for l in stderr.splitlines() if l.strip()]
    last = lines[-1].strip() if lines else ""
    m = re.match(r"^([A-Za-z_][\w.]*)\s*(:|$)", last)
    etype = m.group(1).split(".")[-1] if m else "UnknownError"
    inner = ""
    for l in lines:
        fm = re.match(r'^\s*File "([^"]+)", line (\d+)', l)
        if fm:
            fn = fm.group(1)
            if fn.startswith(env.REPO.rstrip("/") + "/"):
                inner = os.path.relpath(fn, env.REPO)
    return etype, inner, last


def solo(module, cwd, bare=False):
    """-> (outcome 'ok' | exception type, detail dict).  bare: interpreter started with -S (no site module, so
    none of the start-up hooks of the environment - .pth files, sitecustomize - has imported anything first)"""
    code = "import sys; sys.path.insert(0, %r); import %s" % (env.REPO, module)
    if bare == "thread":      # the first import of the process is made by a worker thread (plugin loader, server worker)
        code = ("import sys, threading, traceback\nsys.path.insert(0, %r)\nbad = []\n"
                "def load():\n    try:\n        import %s\n    except BaseException:\n        traceback.print_exc()\n        bad.append(1)\n"
                "t = threading.Thread(target=load)\nt.start()\nt.join()\nsys.exit(1 if bad else 0)\n") % (env.REPO, module)
    rc, out, err = _run(code, cwd, {"OO": ("-OO",), "nostdout": ("nostdout",), "thread": (), "noenv": ("noenv",), "bb": ("-bb",)}.get(bare, ("-S",) if bare else ()))
    if rc == 0 and "Traceback (most recent call last)" not in err:
        return "ok", {}
    if rc == -999:
        return "Timeout", {"inner": "", "last": "import did not finish within %ss" % TIMEOUT, "rc": rc}
    etype, inner, last = _parse_failure(err)
    return etype, {"inner": inner, "last": last, "rc": rc}


def ordered(modules, cwd):
    """Import modules one after another in one fresh process -> [outcome] (or None on driver failure)."""
    code = ("import sys\nsys.path.insert(0, %r)\nfor m in %r:\n"
            "    try:\n        __import__(m)\n        r = 'ok'\n"
            "    except BaseException as ex:\n        r = type(ex).__name__\n"
            "    print('VPRESULT', m, r)\n    sys.stdout.flush()\n") % (env.REPO, list(modules))
    rc, out, err = _run(code, cwd)
    res = {}
    for l in out.splitlines():
        if l.startswith("VPRESULT "):
            _, m, r = l.split(" ", 2)
            res[m] = r
    return [res.get(m) for m in modules], rc, err


def solo_failures(module, rel, outcome, det):
    if outcome == "ok":
        return []
    own = det.get("inner") == rel
    if own or not det.get("inner"):
        sig = "import:%s:%s" % (module, outcome)
    else:      # the traceback ends in another ioflo file: that file is the root cause (reported once)
        sig = "import:%s@%s" % (outcome, det["inner"])
    what = ("`import %s` alone in a fresh interpreter fails (exit %s): %s [innermost ioflo file: %s]"
            % (module, det.get("rc"), det.get("last"), det.get("inner") or "?"))
    return [(sig, what)]


def bare_failures(module, rel, outcome, det, bare_outcome, bare_det, flag=True):
    """The import outcome must not depend on what the interpreter start-up happened to import: with -S the
    outcome is the same, unless a third-party (non ioflo) module is simply not on the bare path."""
    if bare_outcome == outcome:
        return []
    last = bare_det.get("last", "")
    m = re.search(r"No module named '([^']+)'", last)
    if bare_outcome in ("ModuleNotFoundError", "ImportError") and m and m.group(1).split(".")[0] != "ioflo":
        return []
    inner = bare_det.get("inner")
    tag = {"OO": "import-OO", "nostdout": "import-nostdout", "thread": "import-thread", "noenv": "import-noenv", "bb": "import-bb"}.get(flag, "import-bare")
    sig = "%s:%s:%s" % (tag, module, bare_outcome) if (not inner or inner == rel) else "%s:%s@%s" % (tag, bare_outcome, inner)
    how = {"OO": "-OO (asserts and docstrings stripped)",
           "nostdout": "its standard output closed (sys.stdout is None, as under a daemon or pythonw)",
           "thread": "nothing special, the import being made by a worker thread",
           "noenv": "an empty environment (no HOME, PATH, LANG: env -i, an init unit, a container entry point)",
           "bb": "-bb (comparisons between bytes and str are errors)"}.get(
               flag, "-S (nothing preloaded by site / .pth hooks)")
    what = ("`import %s` alone gives %s in a normally started interpreter but %s in one started with %s: %s "
            "[innermost ioflo file: %s]" % (module, outcome, bare_outcome, how, last, inner or "?"))
    return [(sig, what)]


def plan(tier):
    shards = [{"part": "solo", "i": i, "n": 8} for i in range(8)]
    if tier == "quick":
        shards += [{"part": "order", "i": i, "count": 10} for i in range(4)]
    else:
        shards += [{"part": "order", "i": i, "count": 63} for i in range(16)]
    return shards


def work(shard, seed, tier):
    acc = Acc()
    mods = discover()
    cwd = tempfile.mkdtemp(prefix="vpc01")
    try:
        if shard["part"] == "solo":
            todo = [m for k, m in enumerate(mods) if k % shard["n"] == shard["i"]]
            with ThreadPoolExecutor(max_workers=3) as ex:
                results = list(ex.map(lambda m: solo(m[0], cwd), todo))
                bares = list(ex.map(lambda m: solo(m[0], cwd, bare=True), todo))
                opts = list(ex.map(lambda m: solo(m[0], cwd, bare="OO"), todo))
                nouts = list(ex.map(lambda m: solo(m[0], cwd, bare="nostdout"), todo))
                # quick: every package and a third of the modules (chosen by the seed); thorough: all
                ttodo = [m for k, m in enumerate(todo) if tier != "quick" or m[2] or (k + seed) % 3 == 0]
                thrs = list(ex.map(lambda m: solo(m[0], cwd, bare="thread"), ttodo))
                etodo = [m for k, m in enumerate(todo) if tier != "quick" or m[2] or (k + seed) % 3 == 1]
                envs = list(ex.map(lambda m: solo(m[0], cwd, bare="noenv"), etodo))
                btodo = [m for k, m in enumerate(todo) if tier != "quick" or m[2] or (k + seed) % 3 == 2]
                bbs = list(ex.map(lambda m: solo(m[0], cwd, bare="bb"), btodo))
            first = dict((m[0], r) for m, r in zip(todo, results))
            for (module, rel, is_init), (boutcome_, bdet_) in zip(btodo, bbs):
                outcome, det = first[module]
                acc.case(key=("solo-bb", module), nontrivial=nontrivial_module(rel, is_init),
                         classes=["solo-bb", "solo-bb:" + ("ok" if boutcome_ == "ok" else boutcome_)], sample=None)
                for sig, what in bare_failures(module, rel, outcome, det, boutcome_, bdet_, flag="bb"):
                    acc.fail(sig, what, {"solo": module, "bare": "bb"})
            for (module, rel, is_init), (eoutcome, edet) in zip(etodo, envs):
                outcome, det = first[module]
                acc.case(key=("solo-noenv", module), nontrivial=nontrivial_module(rel, is_init),
                         classes=["solo-noenv", "solo-noenv:" + ("ok" if eoutcome == "ok" else eoutcome)], sample=None)
                for sig, what in bare_failures(module, rel, outcome, det, eoutcome, edet, flag="noenv"):
                    acc.fail(sig, what, {"solo": module, "bare": "noenv"})
            for (module, rel, is_init), (toutcome, tdet) in zip(ttodo, thrs):
                outcome, det = first[module]
                acc.case(key=("solo-thread", module), nontrivial=nontrivial_module(rel, is_init),
                         classes=["solo-thread", "solo-thread:" + ("ok" if toutcome == "ok" else toutcome)], sample=None)
                for sig, what in bare_failures(module, rel, outcome, det, toutcome, tdet, flag="thread"):
                    acc.fail(sig, what, {"solo": module, "bare": "thread"})
            for (module, rel, is_init), (outcome, det), (noutcome, ndet) in zip(todo, results, nouts):
                acc.case(key=("solo-nostdout", module), nontrivial=nontrivial_module(rel, is_init),
                         classes=["solo-nostdout", "solo-nostdout:" + ("ok" if noutcome == "ok" else noutcome)], sample=None)
                for sig, what in bare_failures(module, rel, outcome, det, noutcome, ndet, flag="nostdout"):
                    acc.fail(sig, what, {"solo": module, "bare": "nostdout"})
            for (module, rel, is_init), (outcome, det), (ooutcome, odet) in zip(todo, results, opts):
                # the same import in an interpreter started with -OO (no asserts, no docstrings)
                acc.case(key=("solo-OO", module), nontrivial=nontrivial_module(rel, is_init),
                         classes=["solo-OO", "solo-OO:" + ("ok" if ooutcome == "ok" else ooutcome)], sample=None)
                for sig, what in bare_failures(module, rel, outcome, det, ooutcome, odet, flag="OO"):
                    acc.fail(sig, what, {"solo": module, "bare": "OO"})
            for (module, rel, is_init), (outcome, det), (boutcome, bdet) in zip(todo, results, bares):
                acc.case(key=("solo-bare", module), nontrivial=nontrivial_module(rel, is_init),
                         classes=["solo-bare", "solo-bare:" + ("ok" if boutcome == "ok" else boutcome)], sample=None)
                for sig, what in bare_failures(module, rel, outcome, det, boutcome, bdet):
                    acc.fail(sig, what, {"solo": module, "bare": True})
                acc.case(key=("solo", module), nontrivial=nontrivial_module(rel, is_init),
                         classes=["solo", "solo:" + ("ok" if outcome == "ok" else outcome),
                                  "solo:package" if is_init else "solo:module"],
                         sample={"import": module, "outcome": outcome})
                for sig, what in solo_failures(module, rel, outcome, det):
                    acc.fail(sig, what, {"solo": module})
            acc.exhaustive = True
            acc.extra["modules_discovered"] = len(mods) if shard["i"] == 0 else 0
            acc.note("solo part: every module under ioflo/ imported alone (exhaustive for the tree)")
            return acc

        names = [m[0] for m in mods]
        cache = {}

        def solo_cached(m):
            if m not in cache:
                cache[m] = solo(m, cwd)
            return cache[m]

        small = st.lists(st.sampled_from(names), min_size=2, max_size=12, unique=True).flatmap(
            lambda sub: st.permutations(sub))
        # a permutation of ALL modules orders every pair of modules one way or the other, so a handful of them
        # covers most ordered pairs; small subsets keep the prefixes short (few things imported before m)
        strat = st.one_of(small, small, st.permutations(names))

        def execute(order):
            order = list(order)
            fails = check_order(order, cwd, solo_cached)
            pk = set(".".join(m.split(".")[:2]) for m in order)
            return Outcome(fails, nontrivial=len(pk) >= 2, classes=["order", "order:full" if len(order) == len(names) else "order:subset"],
                           key=("order", order), sample={"order": order})

        campaign(acc, strat, execute, shard["count"], seed * 1000 + shard["i"],
                 to_case=lambda o: {"order": list(o)}, budget=Budget(600 if tier == "quick" else 2400),
                 shrink=False)
        acc.exhaustive = False
        return acc
    finally:
        shutil.rmtree(cwd, ignore_errors=True)


def check_order(order, cwd, solo_of):
    """Outcome of every module in the order == its solo outcome.

    A module that imports fine in the order needs no solo subprocess here: its solo import is
    checked by the (exhaustive) solo part, which reports it if it fails. Only modules that fail
    inside the order are imported alone again (cached) and compared."""
    got, rc, err = ordered(order, cwd)
    fails = []
    for k, (m, g) in enumerate(zip(order, got)):
        if g is None:
            fails.append(("order-driver:%s" % m, "import driver died before reporting %s (exit %s): %s"
                          % (m, rc, err.strip().splitlines()[-1:] or "")))
            break
        if g == "ok":
            continue
        s, det = solo_of(m)
        if g != s:
            fails.append(("order:%s:%s->%s" % (m, s, g),
                          "importing %s after %r gives %s but alone it gives %s" % (m, order[:k], g, s)))
    return fails


def replay(case):
    cwd = tempfile.mkdtemp(prefix="vpc01")
    try:
        if "solo" in case:
            info = dict((m, (rel, init)) for m, rel, init in discover())
            module = case["solo"]
            outcome, det = solo(module, cwd)
            rel = info.get(module, ("", False))[0]
            if case.get("bare"):
                boutcome, bdet = solo(module, cwd, bare=case["bare"])
                return bare_failures(module, rel, outcome, det, boutcome, bdet, flag=case["bare"])
            return solo_failures(module, rel, outcome, det)
        return check_order(list(case["order"]), cwd, lambda m: solo(m, cwd))
    finally:
        shutil.rmtree(cwd, ignore_errors=True)
