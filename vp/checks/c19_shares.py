"""C19 Share stamps, fields and decks follow their documented rules.

Generator: Hypothesis lists of operations on one Share (attached to a Store or not):
value assignment, update / change / create in keyword, dict and pair-list form, item
set / get / del, get with default, `in`, pop (with / without default), setdefault, clear,
stampNow, store time changes (changeStamp / advanceStamp with exact dyadic times), deck
push / pull / gulp / spew / extend with None elements. Field names come from valid public
identifiers and from invalid names (leading underscore, leading digit, dash, blank, empty,
trailing newline).

Oracle: a model (insertion-ordered dict + stamp + deque) interpreted side by side; after
every step items / keys / values / len / iteration / value / stamp / deck contents must equal
the model, return values and exception kinds must match.
"""
import re
from collections import deque

from hypothesis import strategies as st

from vp.core.acc import Acc
from vp.core.hyp import campaign, Outcome, Budget

PROPERTY = "C19"
LEVEL = "exploration"
RULE = ("Hypothesis-generated operation histories (up to 40 steps quick / 60 thorough) on one Share, with or without "
        "a Store: value=, update/change/create (kw, dict, pairs), item set/get/del, get, in, pop, setdefault, clear, "
        "stampNow, store changeStamp/advanceStamp (multiples of 0.125), deck push/pull/gulp/spew/extend with None; "
        "field names from valid identifiers and invalid names (_x, 1a, a-b, '', 'a b', 'a\\n'); interpreted against "
        "the Share and an ordered-dict + stamp + deque model, all observations compared after every step. "
        "Non-trivial = the history has a store time change between two stamping writes and at least one rejected "
        "field name; distinct = distinct (setup, operation list)")
ASSUMPTIONS = [
    "A public identifier is an ASCII letter followed by ASCII letters, digits or underscores (Data docstring); names of "
    "Data's own attributes (_sift, _change, __dict__, ...) are not generated (documented as allowed)",
    "An invalid field name must raise AttributeError or KeyError and add no field; operations carrying an invalid name "
    "carry only that name (atomicity of multi-field calls is not demanded); after a rejected update() the stamp may be "
    "either the old one or the store's current time",
    "Item assignment, setdefault, del, pop and clear do not touch the stamp (source: 'don't update stamp here since "
    "used by change'); stampNow sets it to the store's time (None without store)",
    "push/extend may add None (aliases of deque.append/extend), so spew is compared with the FIFO model: None is "
    "returned for an empty deck or when a None element pushed that way is at the head",
    "pull on an empty deck raises IndexError (alias of deque.popleft)",
]
META = {
    "level": LEVEL,
    "text": "Thousands of generated interleavings of every documented Share/Deck mutator and accessor with store time "
            "changes are compared step by step with an independent ordered-dict/stamp/deque model, including all "
            "observation methods after every step.",
    "note": "Trusts the harness model and the reading of the docstrings listed in the assumptions. Holds on the explored histories only.",
    "technique": "model-based operation-history testing (Hypothesis op lists vs ordered-dict + stamp + deque model)",
    "design_ref": "DESIGN.md section 3, C19",
}

VALID = ["value", "value", "a", "a", "b", "b", "x1", "Abc", "c_d"]
INVALID = ["_x", "1a", "a-b", "", "a b", "a\n"]
NAMECLASS = {"_x": "underscore", "1a": "digit", "a-b": "dash", "": "empty", "a b": "blank", "a\n": "newline"}
_IDENT = re.compile(r"[A-Za-z][A-Za-z0-9_]*")


def valid(name):
    return _IDENT.fullmatch(name) is not None


# ------------------------------------------------------------------------------ generator
def op_strategy():
    vname = st.sampled_from(VALID)
    iname = st.sampled_from(INVALID)
    anyname = st.one_of(vname, vname, vname, vname, iname)
    val = st.one_of(st.integers(0, 9), st.integers(0, 9), st.none(), st.sampled_from(["s", ""]))
    elem = st.one_of(st.integers(0, 9), st.integers(0, 9), st.none())
    form = st.sampled_from(["kw", "dict", "pairs", "mixed", "mixeddict"])
    multi = st.lists(st.tuples(vname, val).map(list), min_size=1, max_size=3)
    single_bad = st.tuples(iname, val).map(lambda kv: [list(kv)])
    items = st.one_of(multi, multi, multi, multi, single_bad)

    def fielded(name):
        return st.builds(lambda f, it: {"op": name, "form": f, "items": it}, form, items)

    def keyed(name):
        return st.builds(lambda k: {"op": name, "k": k}, anyname)

    ops = [
        st.builds(lambda v: {"op": "value", "v": v}, val),
        fielded("update"), fielded("update"), fielded("change"), fielded("create"), fielded("create"),
        st.builds(lambda k, v: {"op": "set", "k": k, "v": v}, anyname, val),
        keyed("get"), keyed("has"), keyed("del"), keyed("del"),
        st.builds(lambda k, d: {"op": "getd", "k": k, "d": d}, anyname, val),
        st.builds(lambda k, d: {"op": "pop", "k": k, "d": d}, anyname, st.one_of(st.none(), val.map(lambda v: [v]))),
        st.builds(lambda k, v: {"op": "setdefault", "k": k, "v": v}, anyname, val),
        st.just({"op": "clear"}),
        st.just({"op": "stampNow"}),
        st.builds(lambda d: {"op": "tick", "d": d}, st.integers(1, 8)),
        st.builds(lambda d: {"op": "tick", "d": d}, st.integers(1, 8)),
        st.builds(lambda d: {"op": "advance", "d": d}, st.integers(1, 8)),
        st.builds(lambda e: {"op": "push", "e": e}, elem),
        st.just({"op": "pull"}),
        st.builds(lambda e: {"op": "gulp", "e": e}, elem),
        st.just({"op": "spew"}), st.just({"op": "spew"}),
        st.builds(lambda es: {"op": "extend", "es": es}, st.lists(elem, max_size=3)),
    ]
    return st.one_of(*ops)


def case_strategy(max_steps):
    op = op_strategy()
    ops = st.integers(1, max_steps).flatmap(lambda n: st.lists(op, min_size=n, max_size=n))
    setup = st.sampled_from([
        {"store": True, "stamp0": 0.0, "via": "create"},
        {"store": True, "stamp0": 0.0, "via": "create"},
        {"store": True, "stamp0": None, "via": "create"},
        {"store": True, "stamp0": 1.5, "via": "ctor"},
        {"store": False, "stamp0": None, "via": "ctor"},
        {"store": False, "stamp0": None, "via": "ctor", "sharestamp": 2.5},
    ])
    return st.builds(lambda s, o: {"setup": s, "ops": o}, setup, ops)


# ------------------------------------------------------------------------------ interpreter
def _call_fielded(method, form, items):
    pairs = [tuple(kv) for kv in items]
    if form == "kw":
        return method(**dict(pairs))
    if form == "dict":
        return method(dict(pairs))
    if form in ("mixed", "mixeddict"):
        # one call with a positional argument AND keyword arguments (positional fields first, keywords last)
        h = max(1, len(pairs) // 2)
        head = dict(pairs[:h]) if form == "mixeddict" else pairs[:h]
        return method(head, **dict(pairs[h:]))
    return method(pairs)


def _observe(share):
    """All observations of the share; an exception in one of them is itself an observation."""
    out = {}
    for name, fn in (("items", lambda: list(share.items())), ("keys", lambda: list(share.keys())),
                     ("values", lambda: list(share.values())), ("len", lambda: len(share)),
                     ("iter", lambda: list(share)), ("value", lambda: share.value),
                     ("stamp", lambda: share.stamp), ("deck", lambda: list(share.deck))):
        try:
            out[name] = fn()
        except Exception as ex:
            out[name] = "raised %s" % type(ex).__name__
    return out


def _same(a, b):
    """Equality that does not confuse 0 / 0.0 / False or 1 / True and keeps list order."""
    if isinstance(a, (list, tuple)) and isinstance(b, (list, tuple)):
        return len(a) == len(b) and all(_same(x, y) for x, y in zip(a, b))
    return type(a) is type(b) and a == b


def run_case(case):
    from vp.core import env
    env.quiet_ioflo()
    from ioflo.base import storing

    setup, ops = case["setup"], case["ops"]
    storing.Store.Clear()
    store = None
    now = None
    if setup["store"]:
        store = storing.Store(stamp=setup["stamp0"])
        now = setup["stamp0"]
        if setup["via"] == "create":
            share = store.create("c19.share")
        else:
            share = storing.Share(name="c19.share", store=store)
    else:
        share = storing.Share(name="c19.share", stamp=setup.get("sharestamp"))
    fields = {}
    stamp = setup.get("sharestamp") if not setup["store"] else None
    deck = deque()

    fails = []
    labels = set()
    rejected = 0
    stamping_writes = 0      # stamping writes seen so far
    advanced_since = False   # a time change happened after the last stamping write
    spaced = False           # two stamping writes with a time change in between

    def stamped():
        nonlocal stamping_writes, advanced_since, spaced
        if stamping_writes and advanced_since:
            spaced = True
        stamping_writes += 1
        advanced_since = False

    MISSING = object()

    for step, op in enumerate(ops):
        name = op["op"]
        what = "step %d: %s %r" % (step, name, {k: v for k, v in op.items() if k != "op"})
        exp_exc = None          # tuple of acceptable exception types, when the op must raise
        exp_ret = MISSING
        lenient_stamp = False
        badname = None

        # ---------------- model
        if name == "value":
            fields["value"] = op["v"]
            stamp = now
            stamped()
        elif name in ("update", "change", "create"):
            items = [tuple(kv) for kv in op["items"]]
            bad = [k for k, _ in items if not valid(k) and k not in fields]
            if bad:
                badname = bad[0]
                exp_exc = (AttributeError, KeyError)
                lenient_stamp = name == "update"
            else:
                added = False
                seen = dict(items) if op["form"] in ("kw", "dict") else None
                seq = list(seen.items()) if seen is not None else items
                if op["form"] in ("mixed", "mixeddict"):
                    h = max(1, len(items) // 2)
                    head = list(dict(items[:h]).items()) if op["form"] == "mixeddict" else items[:h]
                    seq = head + list(dict(items[h:]).items())
                    if len(items) > h:
                        labels.add("positional+keyword-call")
                for k, v in seq:
                    if name == "create":
                        if k not in fields:
                            fields[k] = v
                            added = True
                    else:
                        fields[k] = v
                if name == "update" or (name == "create" and added):
                    stamp = now
                    stamped()
                labels.add("%s:%s" % (name, "noadd" if name == "create" and not added else "ok"))
            exp_ret = share if not bad else MISSING
        elif name == "set":
            if op["k"] in fields or valid(op["k"]):
                fields[op["k"]] = op["v"]
            else:
                badname = op["k"]
                exp_exc = (AttributeError, KeyError)
        elif name == "get":
            if op["k"] in fields:
                exp_ret = fields[op["k"]]
            else:
                exp_exc = (KeyError,)
        elif name == "getd":
            exp_ret = fields.get(op["k"], op["d"])
        elif name == "has":
            exp_ret = op["k"] in fields
        elif name == "del":
            if op["k"] in fields:
                del fields[op["k"]]
                labels.add("del:ok")
            else:
                exp_exc = (KeyError,)
        elif name == "pop":
            if op["k"] in fields:
                exp_ret = fields.pop(op["k"])
                labels.add("pop:ok")
            elif op["d"] is not None:
                exp_ret = op["d"][0]
            else:
                exp_exc = (KeyError,)
        elif name == "setdefault":
            if op["k"] in fields:
                exp_ret = fields[op["k"]]
            elif valid(op["k"]):
                fields[op["k"]] = op["v"]
                exp_ret = op["v"]
            else:
                badname = op["k"]
                exp_exc = (AttributeError, KeyError)
        elif name == "clear":
            fields.clear()
        elif name == "stampNow":
            stamp = now
            exp_ret = now
            stamped()
        elif name in ("tick", "advance"):
            if store is None:
                labels.add("tick:nostore")
                continue
            if name == "advance" and now is None:
                exp_exc = (TypeError,)      # documented: advanceStamp re-raises TypeError
            else:
                now = (now if now is not None else 0.0) + op["d"] * 0.125
                advanced_since = True
        elif name == "push":
            deck.append(op["e"])
        elif name == "pull":
            if deck:
                exp_ret = deck.popleft()
            else:
                exp_exc = (IndexError,)
        elif name == "gulp":
            if op["e"] is not None:
                deck.append(op["e"])
            else:
                labels.add("gulp:none")
        elif name == "spew":
            if deck:
                exp_ret = deck.popleft()
                labels.add("spew:elem")
            else:
                exp_ret = None
                labels.add("spew:empty")
        elif name == "extend":
            deck.extend(op["es"])

        # ---------------- real
        raised = None
        ret = MISSING
        try:
            if name == "value":
                share.value = op["v"]
            elif name in ("update", "change", "create"):
                ret = _call_fielded(getattr(share, name), op["form"], op["items"])
            elif name == "set":
                share[op["k"]] = op["v"]
            elif name == "get":
                ret = share[op["k"]]
            elif name == "getd":
                ret = share.get(op["k"], op["d"])
            elif name == "has":
                ret = op["k"] in share
            elif name == "del":
                del share[op["k"]]
            elif name == "pop":
                ret = share.pop(op["k"], *(op["d"] or []))
            elif name == "setdefault":
                ret = share.setdefault(op["k"], op["v"])
            elif name == "clear":
                share.clear()
            elif name == "stampNow":
                ret = share.stampNow()
            elif name == "tick":
                store.changeStamp(now)
            elif name == "advance":
                store.advanceStamp(op["d"] * 0.125)
            elif name == "push":
                share.push(op["e"])
            elif name == "pull":
                ret = share.pull()
            elif name == "gulp":
                share.deck.gulp(op["e"])
            elif name == "spew":
                ret = share.deck.spew()
            elif name == "extend":
                share.deck.extend(op["es"])
        except Exception as ex:
            raised = ex

        # ---------------- compare outcome
        if exp_exc is not None:
            if badname is not None:
                labels.add("badname:%s:%s" % (name, NAMECLASS[badname]))
            if raised is None:
                if badname is not None:
                    fails.append(("invalid-name-accepted@%s:%s" % (name, NAMECLASS[badname]),
                                  "%s: field name %r is not a public identifier but was accepted (fields now %r)"
                                  % (what, badname, _observe(share)["items"])))
                else:
                    fails.append(("no-exception@%s" % name, "%s should raise %s, returned %r"
                                  % (what, "/".join(t.__name__ for t in exp_exc), ret)))
                break
            if not isinstance(raised, exp_exc):
                fails.append(("wrong-exception@%s:%s" % (name, type(raised).__name__),
                              "%s raised %r, expected %s" % (what, raised, "/".join(t.__name__ for t in exp_exc))))
                break
            if badname is not None:
                rejected += 1
        else:
            if raised is not None:
                fails.append(("raises@%s:%s" % (name, type(raised).__name__), "%s raised %r" % (what, raised)))
                break
            if exp_ret is not MISSING:
                ok = (ret is exp_ret) if exp_ret is share else _same(ret, exp_ret)
                if not ok:
                    fails.append(("return@%s" % name, "%s returned %r, expected %r" % (what, ret, exp_ret)))
                    break

        # ---------------- compare all observations
        obs = _observe(share)
        if lenient_stamp and raised is not None and obs["stamp"] is not stamp and _same(obs["stamp"], now):
            stamp = now       # a rejected update may or may not have stamped
        exp = {"items": [(k, v) for k, v in fields.items()], "keys": list(fields), "values": list(fields.values()),
               "len": len(fields), "iter": list(fields), "value": fields.get("value"), "stamp": stamp,
               "deck": list(deck)}
        bad = [k for k in ("items", "keys", "values", "len", "iter", "value", "stamp", "deck")
               if not _same(obs[k], exp[k])]
        if bad:
            aspect = "stamp" if bad == ["stamp"] else ("deck" if bad == ["deck"] else "fields")
            detail = obs[bad[0]]
            if isinstance(detail, str) and detail.startswith("raised"):
                aspect += "-" + detail.replace(" ", "-")
            fails.append(("state-after@%s:%s" % (name, aspect),
                          "%s: %s" % (what, "; ".join("%s is %r, model %r" % (k, obs[k], exp[k]) for k in bad[:3]))))
            break
        if store is not None and not _same(store.stamp, now):
            fails.append(("store-stamp@%s" % name, "%s: store.stamp is %r, expected %r" % (what, store.stamp, now)))
            break
        labels.add("op:" + name)

    nontrivial = spaced and rejected > 0
    if spaced:
        labels.add("has:spaced-writes")
    if rejected:
        labels.add("has:rejected-name")
    labels.add("setup:%s" % ("nostore" if not setup["store"] else ("store-t0=%s" % setup["stamp0"])))
    return fails, {"nontrivial": nontrivial, "labels": sorted(labels)}


# ------------------------------------------------------------------------------ harness glue
def plan(tier):
    n = 8 if tier == "quick" else 16
    return [{"i": i} for i in range(n)]


def work(shard, seed, tier):
    acc = Acc()
    n = 350 if tier == "quick" else 3000
    steps = 40 if tier == "quick" else 60

    def execute(case):
        fails, info = run_case(case)
        classes = list(info["labels"])
        k = len(case["ops"])
        classes.append("steps<=10" if k <= 10 else ("steps<=40" if k <= 40 else "steps<=60"))
        if info["nontrivial"]:
            classes.append("nontrivial")
        return Outcome(fails, nontrivial=info["nontrivial"], classes=classes, key=case,
                       sample={"setup": case["setup"], "ops": case["ops"][:8], "steps": k})

    campaign(acc, case_strategy(steps), execute, n, seed * 1000 + shard["i"],
             budget=Budget(100 if tier == "quick" else 540))
    return acc


def replay(case):
    fails, _ = run_case(case)
    return fails
