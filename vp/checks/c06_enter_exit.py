"""C06 Frame enter and exit actions are properly bracketed and ordered.

Two families.
(1) Hypothesis programs (frame forests, transitions to self / ancestors / descendants / other
subtrees, plain and conditional auxiliaries, stop/abort bids, actions in every context).
Oracle = history invariants on the real trace: per frame enter/exit alternate starting with
enter; exits are bottom-up; at every tick boundary the entered-not-exited frames of every
framer equal the full outline of its active frame (running framers, active auxiliaries,
including frames suspended below a conditional aux) and are empty otherwise; every taken
transition produces exactly: transit acts, exits bottom-up from the first difference (or from
the target if it is in the entered outline), re-exits bottom-up and re-enters top-down on the
shared ancestors, enters top-down of the rest of the target's outline; stop/abort exits every
entered frame bottom-up. Plus the reference differential.
(2) The outline-difference function itself: exhaustively enumerated frame forests built from
real framing.Frame objects, ALL (current frame, target frame) pairs, compared with the
declarative definition (longest common prefix not containing the target).
"""
import itertools

from vp.core.acc import Acc
from vp.flo.profcheck import ProfileCheck, count_events
from vp.flo.engine import all_events
from vp.flo.inv import Static

PROPERTY = "C06"
LEVEL = "exploration"
PROFILE = {"driver_cmp": True, "driver": True, "aux_policy": "clean", "auxes": (0, 2), "frames": (2, 7), "depth": 4, "slaves": (0, 1),
           "aux_owner": "taskable", "aux_place": "first", "let_in_aux": False, "aux_completes": True,
           "kinds": {"data": 6, "go": 9, "let": 1, "timeout": 1, "repeat": 1, "aux": 2, "auxif": 3, "bid": 2, "done": 2, "fiat": 1},
           # marker conditions give transitions transit actions (which must run before the exits)
           "one_marker_per_act": True,
           "needs": {"cmp": 4, "bool": 0, "elapsed": 2, "recurred": 5, "done": 1, "status": 0, "auxdone": 1, "updated": 2, "changed": 2}}


def _shapes(prog, r):
    """classify taken transitions: forced re-entry / to ancestor / to descendant / other subtree / while suspended"""
    S = Static(prog)
    out = set()
    suspended = {}
    for t, i, e in all_events(r["real"]):
        if e[0] == "state":
            F = e[1]
            if F in S.framers and e[3] is not None:
                suspended[F] = len(e[4]) < len(S.outline(F, e[3]))
        if e[0] == "act" and e[5] == "go" and e[6] is True:
            F, X, line = e[1], e[2], e[4]
            far = S.far_of(F, X, line)
            if far == X:
                out.add("forced-reentry")
            elif far in S.head(F, X):
                out.add("to-ancestor")
            elif X in S.head(F, far):
                out.add("to-descendant")
            else:
                out.add("other-subtree")
            if suspended.get(F):
                out.add("while-suspended")
    return out


def nontrivial(prog, r):
    sh = _shapes(prog, r)
    return bool(sh & {"forced-reentry", "to-ancestor", "to-descendant", "while-suspended"})


def classes(prog, r):
    return sorted(_shapes(prog, r)) or ["no-transition-taken"]


CHECK = ProfileCheck(PROFILE, ["c06"], nontrivial, classes, directed=__import__("vp.flo.gen", fromlist=["x"]).suspend_scenario, directed_share=2)


# ------------------------------------------------------------------ ExEn family
def forests(n):
    """all forests on n labelled frames declared in order 0..n-1 where a parent is any other frame
    (no cycles), with children order = declaration order of attachment (primary child = first)."""
    for parents in itertools.product(*[[None] + [j for j in range(n) if j != i] for i in range(n)]):
        ok = True
        for i in range(n):
            seen = set()
            x = i
            while x is not None:
                if x in seen:
                    ok = False
                    break
                seen.add(x)
                x = parents[x]
            if not ok:
                break
        if ok:
            yield parents


def exen_case(parents, primaries=None):
    """Build real Frame objects for the forest and compare Framer.ExEn with the declarative spec
    for all (current, far) pairs. -> list of failures, number of pairs"""
    from ioflo.base import framing, storing
    from ioflo.aid.odicting import odict
    framing.Frame.Names = odict()
    framing.Frame.Counter = 0
    store = storing.Store()
    n = len(parents)
    frames = [framing.Frame(name="f%d" % i, store=store) for i in range(n)]
    for i, p in enumerate(parents):
        if p is not None:
            frames[i].over = frames[p]
            frames[p].unders.append(frames[i])
    if primaries:
        for p, c in primaries:
            frames[p].under = frames[c]
    for f in frames:
        f.traceOutline()
    fails = []
    pairs = 0

    def outline(f):
        up = []
        x = f
        while x is not None:
            up.append(x)
            x = x.over
        up.reverse()
        x = f.unders[0] if f.unders else None
        while x is not None:
            up.append(x)
            x = x.unders[0] if x.unders else None
        return up
    for cur in frames:
        nears = outline(cur)
        if [x.name for x in cur.outline] != [x.name for x in nears]:
            fails.append(("traceOutline", "forest %r: outline of %s = %r, expected %r" % (
                parents, cur.name, [x.name for x in cur.outline], [x.name for x in nears])))
        for far in frames:
            pairs += 1
            fars = outline(far)
            k = 0
            while k < len(nears) and k < len(fars) and nears[k] is fars[k] and nears[k] is not far:
                k += 1
            exp = (nears[k:], fars[k:], nears[:k])
            got = framing.Framer.ExEn(list(nears), far)
            if [[x.name for x in l] for l in got] != [[x.name for x in l] for l in exp]:
                fails.append(("exen", "forest parents=%r primaries=%r current=%s far=%s: ExEn=%r expected %r" % (
                    parents, primaries, cur.name, far.name, [[x.name for x in l] for l in got], [[x.name for x in l] for l in exp])))
    return fails, pairs


def plan(tier):
    shards = CHECK.plan(tier)
    nmax = 5 if tier == "quick" else 6
    k = 4 if tier == "quick" else 16
    shards += [{"part": "exen", "nmax": nmax, "i": i, "n": k} for i in range(k)]
    return shards


def work(shard, seed, tier):
    if shard["part"] != "exen":
        return CHECK.work(shard, seed, tier)
    acc = Acc()
    idx = 0
    for n in range(1, shard["nmax"] + 1):
        for parents in forests(n):
            idx += 1
            if idx % shard["n"] != shard["i"]:
                continue
            fails, pairs = exen_case(parents)
            nt = any(p is not None for p in parents) and n >= 3
            acc.case(key=("exen", parents), nontrivial=nt, classes=["exen-forest-n%d" % n], n=1,
                     sample={"forest_parents": list(parents), "pairs": pairs} if idx % 5000 == 1 else None)
            acc.extra["exen_pairs"] = acc.extra.get("exen_pairs", 0) + pairs
            for sig, what in fails:
                acc.fail(sig, what, {"exen": {"parents": list(parents)}})
    acc.exhaustive = True
    acc.note("ExEn: all forests with <= %d frames x all (current, target) pairs enumerated" % shard["nmax"])
    return acc


def replay(case):
    if "exen" in case:
        fails, pairs = exen_case(tuple(case["exen"]["parents"]))
        return fails
    return CHECK.replay(case)


RULE = ("(1) Hypothesis-generated programs (frame forests, all transition shapes, plain/conditional auxes, stop/abort): enter/exit bracketing, "
        "tick-boundary entered-set and transition-order invariants + reference differential; non-trivial = a taken transition that is a forced "
        "re-entry, goes to an ancestor/descendant, or happens while a conditional aux suspends. (2) exhaustive: all frame forests with <= 5 "
        "(quick) / 6 (thorough) frames x all (current, target) pairs through Framer.ExEn vs the declarative outline difference; non-trivial = "
        "forest with >= 3 frames and nesting. distinct = distinct program AST / forest")
ASSUMPTIONS = ["a transition whose target lies strictly below the main frame of a running conditional aux is refused (adopted from the tree; the statement does not cover it)",
               "ExEn family covers full outlines (outline of a frame), not truncated lists"]
META = {"level": LEVEL,
        "text": "Bracketing, tick-boundary and ordering invariants are evaluated on every event of thousands of generated runs, and the pure outline-difference function is checked on every pair of outlines of every small forest.",
        "note": "The entered-set invariant uses ioflo's own report of each framer's active frame and status at tick boundaries.",
        "technique": "Hypothesis program generation + history invariants; exhaustive enumeration of forests for the ExEn function vs declarative spec",
        "design_ref": "DESIGN.md section 3, C06"}
