"""C33 Server-sent events parse the same for any split and line ending.

Generator (vp.net.httpgen.sse_stream): event streams constructed line by line together with
their ground truth: comments, multi-line data, ids, retries (valid and invalid), event names,
unknown fields, fields without colon, values with leading blanks / colons / non-ASCII, a line
ending per line from {LF, CR, CRLF} (uniform or mixed; never an LF directly after a CR-ended
line, which is a CRLF by the SSE rules). Streams of <= 48 bytes are parsed under EVERY split
into <= 3 pieces; longer ones under every single cut plus drawn splits of up to 8 pieces
biased to the line-end offsets.

Driven (a) directly: httping.EventSource over a bytearray extended piece by piece with
.parse() after each piece; (b) through clienting.Respondent receiving a text/event-stream
response (unframed until-close and chunked, every piece = one chunk).

Oracle: events (id, name, data), retry and last event id equal the ground truth for the
whole delivery and for every split.
"""
import traceback

from hypothesis import strategies as st

from vp.core.acc import Acc
from vp.core.hyp import campaign, Outcome, Budget
from vp.net import httpgen

PROPERTY = "C33"
LEVEL = "exploration"
RULE = ("Hypothesis-constructed SSE streams with ground truth (vp.net.httpgen.sse_stream): comments, "
        "multi-line data, ids, retries, event names, unknown fields, fields without colon, per-line "
        "endings LF/CR/CRLF uniform or mixed; streams <= 48 bytes under EVERY split into <= 3 pieces, "
        "longer ones under every single cut + 10 drawn splits of up to 8 pieces biased to line ends; "
        "EventSource driven directly and through Respondent (until-close and chunked); oracle = events, "
        "retry, last event id equal construction-time ground truth for every split. non-trivial = mixed "
        "line endings, or a CRLF in the stream (some split then falls between CR and LF); "
        "distinct = distinct (stream bytes, split set, via)")
ASSUMPTIONS = [
    "SSE field rules as in the EventSource docstring / WHATWG: ':' lines are comments, one blank after "
    "the colon is removed, unknown field names ignored, data lines joined by LF, id persists across "
    "events, retry accepted only when all ASCII digits, blank line dispatches when data is not empty",
    "kept out of the generated domain because the rules and the code's docstrings do not settle them: "
    "an event whose only data line is empty, an 'id' after the last blank line, a stream ending in a "
    "bare CR (closed with a comment line), a BOM, NUL in ids, retry values int() accepts but the SSE "
    "rule rejects (sign, blanks, underscores)",
    "an event's id is the last id seen so far; None and '' are both read as 'no id yet'",
]
META = {
    "level": LEVEL,
    "text": "Constructed streams under every <=3-piece split (short) or all single cuts + drawn "
            "multi-cuts (long), three delivery paths, compared with construction-time ground truth.",
    "note": "Trusts the harness's line-by-line ground truth bookkeeping of the SSE field rules.",
    "technique": "grammar-based generation with ground truth + exhaustive/biased split schedules "
                 "(metamorphic over splits and line endings)",
    "design_ref": "DESIGN.md section 3, C33",
}

SMALL = 48
NDRAWN = 10
HEAD_STREAM = b"HTTP/1.1 200 OK\r\nContent-Type: text/event-stream\r\nCache-Control: no-cache\r\n\r\n"
HEAD_CHUNKED = (b"HTTP/1.1 200 OK\r\nContent-Type: text/event-stream\r\n"
                b"Transfer-Encoding: chunked\r\n\r\n")


def exc_sig(ex):
    site = "?"
    for fs in traceback.extract_tb(ex.__traceback__):
        if "/ioflo/" in fs.filename:
            site = "%s:%s" % (fs.filename.rsplit("/", 1)[-1], fs.name)
    return "%s@%s" % (type(ex).__name__, site)


def _norm_events(events):
    return [[e["id"] if e["id"] is not None else "", e["name"], e["data"]] for e in events]


def drive(spec, cuts):
    """-> observation dict(events, retry, leid) or dict(exc=...)"""
    from ioflo.aio.http import httping, clienting
    via = spec["via"]
    parts = httpgen.pieces(bytes(spec["wire"]), cuts)
    try:
        if via == "direct":
            es = httping.EventSource()
            for piece in parts:
                es.raw.extend(piece)
                es.parse()
            es.parse()
            return {"events": _norm_events(es.events), "retry": es.retry, "leid": es.leid or ""}
        r = clienting.Respondent(msg=bytearray(), method="GET")
        r.msg.extend(HEAD_STREAM if via == "stream" else HEAD_CHUNKED)
        r.parse()
        for piece in parts:
            if via == "chunked":
                if not piece:
                    r.parse()
                    continue
                piece = b"%x\r\n" % len(piece) + piece + b"\r\n"
            r.msg.extend(piece)
            r.parse()
        r.parse()
        default = clienting.Respondent.Retry
        return {"events": _norm_events(r.events), "retry": None if r.retry == default else r.retry,
                "leid": r.leid or "", "evented": bool(r.evented)}
    except Exception as ex:
        return {"exc": exc_sig(ex), "excmsg": "%s: %s" % (type(ex).__name__, ex)}


def split_lists(spec):
    total = len(spec["wire"])
    if isinstance(spec["splits"], dict):      # bulk streams: only the listed deliveries
        return [list(c) for c in spec["splits"]["only"]]
    if spec["splits"] == "all3":
        return httpgen.all_cuts(total)
    return [[c] for c in range(total + 1)] + [list(c) for c in spec["splits"]]


def _first_diff(a, b):
    for i, (x, y) in enumerate(zip(a, b)):
        if x != y:
            return "event %d is %r, sent %r" % (i, x, y)
    return "%d events, sent %d (next: %r)" % (len(a), len(b), (a[len(b):] or b[len(a):])[0])


def check_case(spec):
    exp_events = [[e[0] if e[0] is not None else "", e[1], e[2]] for e in spec["events"]]
    exp = {"events": exp_events, "retry": spec["retry"], "leid": spec["leid"] or ""}
    if spec["via"] != "direct":
        exp["evented"] = True
    fails = []
    seen = set()
    nsplits = 0
    lists = [[]] + list(split_lists(spec))
    whole = None
    for cuts in lists:
        nsplits += 1
        obs = drive(spec, cuts)
        if whole is None:
            whole = obs
        if obs == exp or (cuts and obs == whole):    # same deviation as the whole delivery: reported there
            continue
        label = "whole" if not cuts else "split"
        if "exc" in obs:
            sig, what = obs["exc"], "%s delivery %r raised %s" % (label, cuts, obs["excmsg"])
        elif obs["events"] != exp["events"]:
            sig = "%s:events" % label
            what = "delivery cut at %r: %s" % (cuts, _first_diff(obs["events"], exp["events"]))
        else:
            k = [k for k in sorted(exp) if obs.get(k) != exp[k]][0]
            sig = "%s:%s" % (label, k)
            what = "delivery cut at %r: %s is %r, sent %r" % (cuts, k, obs.get(k), exp[k])
        if sig not in seen:
            seen.add(sig)
            fails.append((sig, what))
    classes = ["via:" + spec["via"], "splits:exhaustive3" if spec["splits"] == "all3" else "splits:singles+drawn",
               "events:%d" % min(len(exp_events), 3)]
    if spec["mixed"]:
        classes.append("eol:mixed")
    else:
        classes.append("eol:uniform-" + {"\n": "LF", "\r": "CR", "\r\n": "CRLF"}[spec["lines"][0][1]])
    if spec["retry"] is not None:
        classes.append("retry")
    if spec["leid"] is not None:
        classes.append("id")
    if any(len([1 for x in e[2].split("\n")]) > 1 for e in exp_events):
        classes.append("multi-line-data")
    if any(t and not t.startswith(":") and ":" not in t for t, _ in spec["lines"]):
        classes.append("field-without-colon")
    if any(t.startswith(":") for t, _ in spec["lines"]):
        classes.append("comment")
    nontrivial = bool(spec["mixed"] or spec["has_crlf"])
    return fails, classes, nontrivial, nsplits


@st.composite
def cases(draw, via, small):
    spec = draw(httpgen.sse_stream(small))
    spec["via"] = via
    total = len(spec["wire"])
    if total <= SMALL:
        spec["splits"] = "all3"
    else:
        marks = []
        pos = 0
        for text, eol in spec["lines"]:
            pos += len(text.encode("utf-8"))
            for k in range(len(eol) + 1):
                marks.append(pos + k)
            pos += len(eol)
        spec["splits"] = [draw(httpgen.cuts_for(total, marks)) for _ in range(NDRAWN)]
    return spec


@st.composite
def bulk_cases(draw, via):
    """A long stream (more than the 64 KiB line limit) of many short events, delivered whole, in a few big pieces
    and in 4 KiB pieces: a limit that is meant for one line must not depend on how much is buffered."""
    eols = draw(st.sampled_from([["\n"], ["\r\n"], ["\r"], ["\n", "\r\n"], ["\r", "\n", "\r\n", "\r\n"]]))
    nev = draw(st.integers(1500, 2200))
    pad = draw(st.integers(8, 24))
    lines, events = [], []
    k = 0

    def add(text):
        nonlocal k
        eol = eols[k % len(eols)]
        # a CR followed by the LF of the next (empty) line would read as one CRLF: keep such pairs apart
        if lines and lines[-1][1] == "\r" and text == "" and eol.startswith("\n"):
            eol_prev = lines[-1]
            lines[-1] = (eol_prev[0], "\r\n")
        lines.append((text, eol))
        k += 1
    for i in range(nev):
        add("id: e%d" % i)
        add("data: " + ("p%d " % i) + "x" * pad)
        add("")
        events.append(["e%d" % i, "", ("p%d " % i) + "x" * pad])
    wire = "".join(t + e for t, e in lines).encode("utf-8")
    total = len(wire)
    only = [[total // 2], [66000] if total > 66000 else [total // 3], [10, total - 10], list(range(4096, total, 4096)),
            [draw(st.integers(1, total - 1))]]
    return {"wire": wire, "lines": lines, "events": events, "retry": None, "leid": "e%d" % (nev - 1), "via": via,
            "mixed": len(set(eols)) > 1, "has_crlf": "\r\n" in eols, "splits": {"only": only}, "bulk": True}


def plan(tier):
    n = 1 if tier == "quick" else 4
    shards = []
    shards.append({"part": "bulk", "i": 700, "n": 3 if tier == "quick" else 12})
    if tier == "thorough":
        shards += [{"part": "atheris", "target": "c33-direct", "seconds": 180, "i": 900},
                   {"part": "atheris", "target": "c33-chunked", "seconds": 180, "i": 901}]
    for via in ("direct", "direct", "stream", "chunked"):
        for small in (True, False):
            for _ in range(n):
                shards.append({"via": via, "small": small, "i": len(shards)})
    return shards


def work(shard, seed, tier):
    from vp.core import env
    env.quiet_ioflo()
    acc = Acc()
    if shard.get("part") == "atheris":
        from vp.fuzz.fuzz_http import run_campaign
        run_campaign(acc, shard["target"], shard["seconds"], seed, max_len=16384)
        return acc
    if shard.get("part") == "bulk":
        n = shard["n"]
    elif tier == "quick":
        n = 60 if shard["small"] else 120
    else:
        n = 500 if shard["small"] else 1200
    tot = {"splits": 0}

    def execute(spec):
        fails, classes, nontrivial, nsplits = check_case(spec)
        tot["splits"] += nsplits
        key = (bytes(spec["wire"]), repr(spec["splits"]), spec["via"])
        sample = {"via": spec["via"], "wire": bytes(spec["wire"])[:160], "events": spec["events"][:3],
                  "retry": spec["retry"], "leid": spec["leid"],
                  "splits": spec["splits"] if spec["splits"] == "all3" else
                  (spec["splits"][:2] if isinstance(spec["splits"], list) else "bulk")}
        if spec.get("bulk"):
            classes = classes + ["bulk-stream-over-64KiB"]
        return Outcome(fails, nontrivial=nontrivial or bool(spec.get("bulk")), classes=classes, key=key, sample=sample)

    if shard.get("part") == "bulk":
        campaign(acc, st.sampled_from(["direct", "stream", "chunked"]).flatmap(bulk_cases), execute, n, seed * 1000 + shard["i"],
                 budget=Budget(120 if tier == "quick" else 480), shrink=False)
        acc.extra["split_parses"] = tot["splits"]
        return acc
    campaign(acc, cases(shard["via"], shard["small"]), execute, n, seed * 1000 + shard["i"],
             budget=Budget(120 if tier == "quick" else 480))
    acc.extra["split_parses"] = tot["splits"]
    return acc


def replay(case):
    from vp.core import env
    env.quiet_ioflo()
    fails, _, _, _ = check_case(case)
    return fails
