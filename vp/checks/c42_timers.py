"""C42 Timer / MonoTimer / StoreTimer against a controlled clock.

Generator: histories of clock moves (forward steps, standstills, backward jumps, absolute sets) interleaved
with property reads, restart(start, duration), repeat() and extend(extension), for
  timer      ioflo.aid.timing.Timer          clock = fake `time` object installed as ioflo.aid.timing.time
  mono       MonoTimer(retro=False)          same fake clock
  monoretro  MonoTimer(retro=True)           same fake clock
  store      StoreTimer                      clock = .stamp of a timing.Stamper or a real base.storing.Store
(a) every sequence of exactly L operations over a 13-operation alphabet (L = 4 quick, 5 thorough) and
(b) Hypothesis histories of up to 40 operations.  All times are multiples of 1/8 below 2**20 so every float
operation in the timers and in the model is exact.

Oracle: the model stated by the property: elapsed = max(0, now-start), remaining = max(0, stop-now), expired iff
now >= stop, restart/repeat/extend return and set (start, stop) with repeat starting at the previous stop and
extend keeping the start; a MonoTimer compares the clock with the last reading it saw on every operation:
with retro it shifts start and stop by the backward jump before doing anything else (so elapsed never
decreases while the start is kept), without retro the operation raises TimerRetroError and changes nothing.
"""
import itertools

from hypothesis import strategies as st

from vp.core.acc import Acc
from vp.core.hyp import campaign, Outcome, Budget

PROPERTY = "C42"
LEVEL = "exploration"
RULE = ("per timer kind (Timer, MonoTimer retro False/True, StoreTimer on Stamper and on Store): every sequence of "
        "exactly L operations (L=4 quick, 5 thorough) over a 13-operation alphabet plus Hypothesis histories of <= 40 "
        "operations (clock forward/standstill/backward/absolute, reads, restart, repeat, extend) on an exact dyadic "
        "time grid; after every operation the return value / exception and .start/.stop/.duration are compared with "
        "the model; non-trivial = at least one timer operation runs after the clock moved backwards, or repeat() "
        "is called on an expired timer; distinct = distinct (kind, initial clock, duration, operation list)")
ASSUMPTIONS = [
    "the clock is what the timer reads: ioflo.aid.timing.time.time() for Timer/MonoTimer (a fake object is installed "
    "for the duration of a case), store.stamp for StoreTimer (never None)",
    "clock values, starts, durations and extensions are non-negative multiples of 1/8 below 2**20 (exact in binary "
    "floating point); extend() is only driven with extensions >= -duration",
    "a MonoTimer checks for a retrograde clock on every operation (reads, restart, repeat, extend) against the last "
    "clock value it has seen; without retro every operation raises TimerRetroError until the clock has caught up with "
    "that value, and the failed operation leaves start/stop/duration unchanged",
    "in two thirds of the MonoTimer(retro) histories backward jumps are limited so that the shifted start stays >= 0 "
    "(restart() applies abs() to start; real time.time() values are ~1e9 so this never matters outside the small test "
    "clock); in the remaining third jumps are unlimited and extend()/repeat() are not driven while the compensated "
    "start/stop is negative (reads and plain restarts are)",
    "restart(start=s) takes s in the current clock domain; repeat()/extend() of a compensating MonoTimer first apply a "
    "pending backward jump and then restart from the (shifted) previous stop / keep the (shifted) start",
]
META = {
    "level": "exploration",
    "text": "Model-based testing under a fully controlled, exact clock: all operation sequences of length 4 (5) over "
            "a small alphabet and thousands of longer random histories with backward jumps are compared with the model "
            "after every step. Absence of divergence is shown for the explored histories only.",
    "note": "Trusts the harness timer model, which is a transcription of the property statement.",
    "technique": "model-based stateful testing with a fake clock (bounded-exhaustive + Hypothesis histories)",
    "design_ref": "DESIGN.md section 3, C42",
}

KINDS = ("timer", "mono", "monoretro", "store", "store-real")
_M = {}


def mods():
    if not _M:
        from ioflo.aid import timing
        from ioflo.base import excepting, storing
        _M.update(timing=timing, excepting=excepting, storing=storing)
    return _M


class FakeTime(object):
    """Stands in for the `time` module inside ioflo.aid.timing."""

    def __init__(self, now):
        self.now = float(now)

    def time(self):
        return self.now


class Retro(Exception):
    """model: TimerRetroError expected"""


class Model(object):
    def __init__(self, kind, now, duration):
        self.kind = kind
        self.mono = kind in ("mono", "monoretro")
        self.retro = kind == "monoretro"
        self.now = now
        self.latest = now
        self.start = now
        self.duration = abs(duration)
        self.stop = self.start + self.duration

    def update(self):
        if not self.mono:
            self.latest = self.now
            return
        delta = self.now - self.latest
        if delta < 0:
            if not self.retro:
                raise Retro()
            self.start += delta
            self.stop += delta
        self.latest = self.now

    def elapsed(self):
        self.update()
        return max(0.0, self.latest - self.start)

    def remaining(self):
        self.update()
        return max(0.0, self.stop - self.latest)

    def expired(self):
        self.update()
        return self.latest >= self.stop

    def restart(self, start=None, duration=None):
        self.update()
        self.start = abs(start) if start is not None else self.latest
        if duration is not None:
            self.duration = abs(duration)
        self.stop = self.start + self.duration
        return (self.start, self.stop)

    def repeat(self):
        self.update()
        return self.restart(start=self.stop)

    def extend(self, extension=None):
        self.update()
        if extension is None:
            extension = self.duration
        return self.restart(start=self.start, duration=self.duration + extension)


class Feats(object):
    def __init__(self):
        self.back = False
        self.negative_start = False
        self.skipped_abs = 0
        self.back_observed = False
        self.pending_back_mutation = False
        self.repeat_expired = False
        self.retro_error = False
        self.standstill = False
        self.steps = 0


def run_case(case):
    """-> (failures, Feats)"""
    M = mods()
    timing = M["timing"]
    kind = case["kind"]
    feats = Feats()
    clock0 = float(case["clock0"])
    duration = float(case["duration"])
    fake = FakeTime(clock0)
    saved = timing.time
    store = None
    if kind not in KINDS:
        raise ValueError("unknown timer kind %r" % (kind,))
    try:
        timing.time = fake
        if kind == "store":
            store = timing.Stamper(stamp=clock0)
        elif kind == "store-real":
            M["storing"].Store.Clear()      # class-level name registry, as Builder.build does
            store = M["storing"].Store(stamp=clock0)
        try:
            if kind == "timer":
                real = timing.Timer(duration=duration)
            elif kind == "mono":
                real = timing.MonoTimer(duration=duration, retro=False)
            elif kind == "monoretro":
                real = timing.MonoTimer(duration=duration, retro=True)
            else:
                real = timing.StoreTimer(store, duration=duration)
        except Exception as ex:
            return [("%s.__init__:raises-%s" % (kind, type(ex).__name__),
                     "constructing the timer (clock %r, duration %r) raised %r" % (clock0, duration, ex))], feats
        m = Model(kind, clock0, duration)
        fails = _drive(case, kind, real, m, fake, store, feats, M)
    finally:
        timing.time = saved
        if kind == "store-real":
            M["storing"].Store.Clear()
    return fails, feats


def _set_clock(kind, fake, store, m, new, how):
    m.now = new
    if store is None:
        fake.now = new
    elif how == "adv" and kind == "store":
        store.advance(new - store.stamp)
    elif how == "adv":
        store.advanceStamp(new - store.stamp)
    elif kind == "store":
        store.change(new)
    else:
        store.changeStamp(new)


def _drive(case, kind, real, m, fake, store, feats, M):
    RetroError = M["excepting"].TimerRetroError
    short = {"timer": "Timer", "mono": "MonoTimer", "monoretro": "MonoTimer(retro)", "store": "StoreTimer",
             "store-real": "StoreTimer"}[kind]

    def state(ctx):
        got = (real.start, real.stop, real.duration)
        exp = (m.start, m.stop, m.duration)
        if got != exp:
            return [("%s.%s:state" % (short, ctx[0]), "after %s at clock %r: (start, stop, duration) = %r, model %r"
                     % (ctx[1], m.now, got, exp))]
        return []

    bad = state(("__init__", "construction"))
    if bad:
        return bad
    last_elapsed = None
    for op in case["ops"]:
        feats.steps += 1
        name = op[0]
        if name in ("adv", "back", "set"):
            old = m.now
            if name == "adv":
                new = old + float(op[1])
            elif name == "back":
                new = max(0.0, old - float(op[1]))
            else:
                new = float(op[1])
            if m.retro and new < m.latest and not case.get("deep"):
                # keep the compensated start non-negative: restart() applies abs() to its start argument (harmless
                # for time.time() ~ 1e9, but on this small clock a shifted start below zero would be flipped)
                new = max(new, m.latest - m.start)
            if new < old:
                feats.back = True
            elif new == old:
                feats.standstill = True
            _set_clock(kind, fake, store, m, new, "adv" if name == "adv" else "set")
            continue
        pending_back = m.mono and m.now < m.latest
        if case.get("deep") and m.retro:
            # histories with unlimited backward jumps: the compensated start (stop) may be negative; reads and plain
            # restarts are well defined then, but extend() / repeat() pass it through restart()'s abs(): not driven
            shift = min(0.0, m.now - m.latest)
            if m.start + shift < 0:
                feats.negative_start = True
            if (name == "extend" and m.start + shift < 0) or (name == "repeat" and m.stop + shift < 0):
                feats.skipped_abs += 1
                continue
        if feats.back:
            feats.back_observed = True      # a timer operation runs after the clock has gone backwards
        calls = []
        if name == "read":
            which = op[1]
            for w in (("elapsed", "remaining", "expired") if which == "all" else (which,)):
                calls.append((w, lambda w=w: getattr(real, w), lambda w=w: getattr(m, w)()))
        elif name == "restart":
            kw = {}
            if op[1] is not None:
                kw["start"] = float(op[1])
            if op[2] is not None:
                kw["duration"] = float(op[2])
            calls.append(("restart", lambda: real.restart(**kw), lambda: m.restart(**kw)))
            last_elapsed = None
        elif name == "repeat":
            if m.now >= m.stop and not pending_back:
                feats.repeat_expired = True
            if pending_back and m.retro:
                feats.pending_back_mutation = True
            calls.append(("repeat", lambda: real.repeat(), lambda: m.repeat()))
            last_elapsed = None
        elif name == "extend":
            ext = op[1]
            if ext is not None:
                ext = max(float(ext), -m.duration)
            if pending_back and m.retro:
                feats.pending_back_mutation = True
            if ext is None:
                calls.append(("extend", lambda: real.extend(), lambda: m.extend()))
            else:
                calls.append(("extend", lambda: real.extend(ext), lambda: m.extend(ext)))
        else:
            raise ValueError("unknown op %r" % (op,))
        for label, fr, fm in calls:
            ctx = "%s %r" % (label, op)
            try:
                exp = ("ret", fm())
            except Retro:
                exp = ("retro",)
                feats.retro_error = True
            try:
                got = ("ret", fr())
            except Exception as ex:
                got = ("raise", ex)
            if exp[0] == "retro":
                if got[0] != "raise":
                    return [("%s.%s:no-TimerRetroError" % (short, label),
                             "%s at clock %r after the clock went back from %r: returned %r, expected TimerRetroError"
                             % (ctx, m.now, m.latest, got[1]))]
                if not isinstance(got[1], RetroError):
                    return [("%s.%s:raises-%s" % (short, label, type(got[1]).__name__),
                             "%s at clock %r: raised %r, expected TimerRetroError" % (ctx, m.now, got[1]))]
            elif got[0] == "raise":
                return [("%s.%s:raises-%s" % (short, label, type(got[1]).__name__),
                         "%s at clock %r (start %r stop %r): raised %r, model returns %r"
                         % (ctx, m.now, m.start, m.stop, got[1], exp[1]))]
            elif got[1] != exp[1] or type(got[1]) is not type(exp[1]):
                sig = "%s.%s:value%s" % (short, label, "-after-unobserved-back-jump" if pending_back else "")
                return [(sig, "%s at clock %r: %r, model %r (model start %r stop %r)"
                         % (ctx, m.now, got[1], exp[1], m.start, m.stop))]
            if label == "elapsed" and exp[0] == "ret":
                if m.retro and last_elapsed is not None and got[1] < last_elapsed:
                    return [("%s.elapsed:decreased" % short, "elapsed went from %r to %r at clock %r although start was kept"
                             % (last_elapsed, got[1], m.now))]
                last_elapsed = got[1]
            bad = state((label + ("-after-unobserved-back-jump" if pending_back else ""), ctx))
            if bad:
                return bad
    return []


# --------------------------------------------------------------------------------- exhaustive alphabet
ALPHABET = [["adv", 1.0], ["adv", 4.0], ["adv", 0.0], ["back", 2.0], ["back", 16.0], ["read", "all"], ["restart", None, None],
            ["restart", None, 2.0], ["restart", 6.0, None], ["repeat"], ["extend", None], ["extend", -1.0], ["extend", 2.5]]


# --------------------------------------------------------------------------------- random histories
def grid(lo, hi):
    return st.integers(int(lo * 8), int(hi * 8)).map(lambda k: k / 8.0)


def case_strategy(kind):
    small = grid(0, 6)
    op = st.one_of(
        st.tuples(st.just("adv"), st.one_of(small, small, grid(0, 200))),
        st.tuples(st.just("adv"), st.just(0.0)),
        st.tuples(st.just("back"), st.one_of(small, small, grid(0, 2000))),
        st.tuples(st.just("set"), st.one_of(grid(0, 40), grid(900, 1100))),
        st.tuples(st.just("read"), st.sampled_from(["elapsed", "remaining", "expired", "all", "all"])),
        st.tuples(st.just("read"), st.just("all")),
        st.tuples(st.just("restart"), st.one_of(st.none(), st.none(), grid(0, 40), grid(900, 1100)),
                  st.one_of(st.none(), small, grid(0, 100))),
        st.just(("repeat",)), st.just(("repeat",)),
        st.tuples(st.just("extend"), st.one_of(st.none(), small, grid(-6, 0), grid(-100, 100))),
    )
    clock0 = st.one_of(st.just(0.0), grid(0, 40), grid(990, 1010))
    duration = st.one_of(st.just(0.0), small, small, grid(0, 100))
    ops = st.one_of(st.lists(op, min_size=1, max_size=8), st.lists(op, min_size=9, max_size=40))
    deep = st.sampled_from([False, False, True]) if kind == "monoretro" else st.just(False)
    return st.builds(lambda c, d, o, dp: {"kind": kind, "clock0": c, "duration": d, "ops": [list(x) for x in o], "deep": dp},
                     clock0, duration, ops, deep)


def outcome(case):
    fails, feats = run_case(case)
    kind = case["kind"]
    nt = feats.back_observed or feats.repeat_expired
    n = len(case["ops"])
    cls = [kind, "%s/len%s" % (kind, "<=8" if n <= 8 else "<=40")]
    for flag, label in ((feats.back_observed, "operation-after-backward-jump"), (feats.repeat_expired, "repeat-after-expiry"),
                        (feats.retro_error, "TimerRetroError-expected"), (feats.standstill, "standstill"),
                        (feats.pending_back_mutation, "repeat/extend-with-unobserved-back-jump"),
                        (feats.negative_start, "compensated-start-below-zero")):
        if flag:
            cls.append("%s/%s" % (kind, label))
    return Outcome(fails, nontrivial=nt, classes=cls, key=case, sample=case)


# --------------------------------------------------------------------------------- plan / work / replay
def plan(tier):
    q = tier == "quick"
    shards = []
    for kind in KINDS:
        nexh = 1 if q else 4
        shards += [{"part": "exh", "kind": kind, "i": i, "n": nexh} for i in range(nexh)]
        nr = 1 if q else 4
        shards += [{"part": "rand", "kind": kind, "i": i} for i in range(nr)]
    return shards


def work(shard, seed, tier):
    acc = Acc()
    mods()
    kind = shard["kind"]
    if shard["part"] == "exh":
        L = 4 if tier == "quick" else 5
        if kind == "store-real" and tier != "quick":
            L = 4   # a real Store per case is ~50x more expensive to build than a Stamper
        n = 0
        for first in range(shard["i"], len(ALPHABET), shard["n"]):
            for rest in itertools.product(ALPHABET, repeat=L - 1):
                case = {"kind": kind, "clock0": 8.0, "duration": 4.0, "ops": [ALPHABET[first]] + list(rest)}
                out = outcome(case)
                n += 1
                acc.case(key=case, nontrivial=out.nontrivial, classes=[kind, kind + "/exhaustive"] + out.classes[2:],
                         sample=case if n % 4999 == 1 else None)
                for sig, what in out.failures:
                    acc.fail(sig, what, case)
        acc.exhaustive = True
        acc.note("every sequence of exactly %d operations over the %d-operation alphabet (clock 8.0, duration 4.0) per "
                 "timer kind%s" % (4 if tier == "quick" else 5, len(ALPHABET),
                                   "" if tier == "quick" else " (4 for StoreTimer on a real Store)"))
        return acc
    n = (400 if kind == "store-real" else 1000) if tier == "quick" else (4000 if kind == "store-real" else 10000)
    idx = KINDS.index(kind) * 100 + shard["i"]
    campaign(acc, case_strategy(kind), outcome, n, seed * 1000 + idx, budget=Budget(100 if tier == "quick" else 1500),
             max_sigs=6, shrink_examples=300)
    return acc


def replay(case):
    return run_case(case)[0]
