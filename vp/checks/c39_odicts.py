"""C39 odict / lodict / modict / oset behave like their reference models.

Generator: for each of the four containers (a) bounded-exhaustive operation sequences
(every sequence of exactly L operations from a small concrete alphabet over 2 keys, from an
empty and from a populated start; L = 3 quick, 4 thorough; all shorter sequences are
covered as prefixes because the state is compared after every step) and (b) Hypothesis
generated histories of up to 30 operations over a small key universe (mixed-case spellings
for lodict).

Oracle: reference models written in the harness (dict + key list; the same with folded
keys; dict of value lists + key list; list of unique elements).  After every step the
return value / exception type of the call and the complete observable state (items, keys,
values, iteration order, the iter* variants, len, membership and lookups of every key the
history mentions) are compared.  A case stops at its first divergence.
"""
import itertools
import pickle

from hypothesis import strategies as st

from vp.core.acc import Acc
from vp.core.env import cpu_watchdog, Hang
from vp.core.hyp import campaign, Outcome, Budget

PROPERTY = "C39"
LEVEL = "exploration"
RULE = ("per container (odict, lodict, modict, oset): every sequence of exactly L operations (L=3 quick, "
        "L=4 thorough) over a concrete alphabet on 2 keys from an empty and a populated start, plus Hypothesis "
        "histories of <= 30 operations over <= 11 key spellings; after every step return value / exception type "
        "and full observable state are compared with a harness reference model; non-trivial = the history "
        "removes a key (del/pop/popitem/discard/clear/...) and later inserts it again, or (lodict) uses a key "
        "spelling containing upper-case letters; distinct = distinct (container, start, operation list)")
ASSUMPTIONS = [
    "odict/lodict/modict update/create/constructor apply their arguments as sequential assignments in the "
    "iteration order of the argument (docstring pseudo-code); for plain dicts and keyword arguments that is "
    "the language-guaranteed insertion order",
    "odict.reorder(other) = update the values and move the keys of `other` to the end in other's order "
    "(behaviour adopted from the tree: method name + code; the docstring only promises the value update and "
    "ValueError for a non-odict); reorder(self) changes nothing (source comment 'updating with self makes no changes')",
    "odict.insert index is generated inside 0..len only; pickle protocols 2..HIGHEST only "
    "(odict.__getnewargs__ docstring: protocol 2 is required)",
    "lodict: every method that takes keys folds them with str.lower (class docstring: 'ensures that all keys are "
    "lower case'); only str keys are generated; lodict.reorder(plain odict) is only driven with odicts that do not "
    "hold two spellings of the same folded key (result order undefined there)",
    "modict: only the operations modict defines or whose docstring applies to it are driven (append/add/[]=, [], "
    "get/getone incl. index/kind, getlist, replace, setdefault, pop incl. index, poplist/popall, popitem, "
    "poplistitem, del, clear, update, create, copy, fromkeys, has_key, the items/values views); the inherited "
    "insert / reorder / sift(fields) / pickle store raw values instead of value lists and are NOT covered",
    "oset: binary |,&,-,^ results are compared as sets and must be osets; iteration order of the result is "
    "demanded only for | (self then new elements of other) and - (order of self), as in test_osetting; "
    "oset == oset is order sensitive, oset == other iterable is set equality (osetting.oset.__eq__)",
    "stored values are ints (modict.get(kind=str) is the only cast used)",
]
META = {
    "level": "exploration",
    "text": "Model-based testing: every operation sequence of length <= 3 (quick) / 4 (thorough) over a concrete "
            "alphabet is enumerated and thousands of longer random histories are interpreted side by side against "
            "reference models, with the whole observable state compared after every step. Exploration level: "
            "absence of divergence is shown on the explored histories only.",
    "note": "Trusts the harness models (plain dict + list). Behaviours adopted from the tree are listed in assumptions.",
    "technique": "model-based stateful testing (bounded-exhaustive + Hypothesis operation histories vs reference models)",
    "design_ref": "DESIGN.md section 3, C39",
}

KINDS = ("odict", "lodict", "modict", "oset")
CASE_CPU_S = 2.0     # CPU-time watchdog per case (cases take well under a millisecond)
CONFIRM_CPU_S = 6.0  # a case that trips the watchdog is run a second time with this limit before it is reported
                     # (on a loaded VM stolen time is accounted as user time, so one trip alone proves nothing)
MAX_HANGS = 2        # per worker process: after that many hung cases the remaining cases are skipped
HANGS = 0
SENT = "<absent>"
PROTOS = list(range(2, pickle.HIGHEST_PROTOCOL + 1))


_CLS = {}


def _classes():
    """Imported lazily (after vp.core.env.use_repo selected the tree) and outside any watchdog."""
    if not _CLS:
        from ioflo.aid.odicting import odict, lodict, modict
        from ioflo.aid.osetting import oset
        _CLS.update({"odict": odict, "lodict": lodict, "modict": modict, "oset": oset})
    return _CLS


class Stop(Exception):
    """Internal: first divergence of a case."""

    def __init__(self, sig, what):
        Exception.__init__(self, sig)
        self.sig = sig
        self.what = what


def attempt(f):
    try:
        return ("ret", f())
    except Exception as ex:  # the call under test only
        return ("raise", ex)


def expect(kind, name, got, exp, ctx):
    """exp: ("ret", value) | ("raise", ExcType) | ("any",)"""
    if exp[0] == "raise":
        if got[0] != "raise":
            raise Stop("%s.%s:no-%s" % (kind, name, exp[1].__name__),
                       "%s: expected %s, returned %r" % (ctx, exp[1].__name__, got[1]))
        if not isinstance(got[1], exp[1]):
            raise Stop("%s.%s:raises-%s" % (kind, name, type(got[1]).__name__),
                       "%s: expected %s, raised %r" % (ctx, exp[1].__name__, got[1]))
        return None
    if got[0] == "raise":
        raise Stop("%s.%s:raises-%s" % (kind, name, type(got[1]).__name__),
                   "%s: raised %r, model expects %s" % (ctx, got[1], "return %r" % (exp[1],) if exp[0] == "ret" else "success"))
    if exp[0] == "ret":
        if got[1] != exp[1] or type(got[1]) is not type(exp[1]):
            raise Stop("%s.%s:return" % (kind, name), "%s: returned %r, model expects %r" % (ctx, got[1], exp[1]))
    return got[1]


# ------------------------------------------------------------------------- argument building
def arg_assignments(form, pairs, fold=False):
    """Sequence of (k, v) assignments an argument of this form stands for."""
    pairs = [(k, v) for k, v in pairs]
    if form in ("pairs", "tuple", "modict"):
        return pairs
    if form in ("dict", "odict", "kw"):
        return list(dict(pairs).items())
    if form == "lodict":
        return list(dict((k.lower(), v) for k, v in pairs).items())
    raise ValueError(form)


def build_arg(form, pairs):
    C = _classes()
    pairs = [(k, v) for k, v in pairs]
    if form == "pairs":
        return pairs
    if form == "tuple":
        return tuple(pairs)
    if form == "dict":
        return dict(pairs)
    if form in ("odict", "lodict", "modict"):
        return C[form](pairs)
    raise ValueError(form)


# ------------------------------------------------------------------------- models
class OModel(object):
    """dict + key list; fold=True folds keys (lodict)."""

    def __init__(self, fold=False):
        self.fold = fold
        self.d = {}
        self.order = []

    def k(self, key):
        return key.lower() if self.fold else key

    def has(self, key):
        return self.k(key) in self.d

    def set(self, key, v):
        key = self.k(key)
        if key not in self.d:
            self.order.append(key)
        self.d[key] = v

    def rem(self, key):
        key = self.k(key)
        del self.d[key]
        self.order.remove(key)

    def items(self):
        return [(k, self.d[k]) for k in self.order]

    def keyset(self):
        return set(self.order)


class MModel(object):
    """dict of value lists + key list."""

    def __init__(self):
        self.d = {}
        self.order = []

    def has(self, key):
        return key in self.d

    def add(self, key, v):
        if key not in self.d:
            self.order.append(key)
            self.d[key] = []
        self.d[key].append(v)

    def rem(self, key):
        del self.d[key]
        self.order.remove(key)

    def keyset(self):
        return set(self.order)


# ------------------------------------------------------------------------- state comparison
def state_odict(kind, real, m, probes):
    items = m.items()
    keys = [k for k, _ in items]
    vals = [v for _, v in items]
    obs = [
        ("items()", lambda: real.items(), items),
        ("keys()", lambda: real.keys(), keys),
        ("values()", lambda: real.values(), vals),
        ("list(iter)", lambda: list(real), keys),
        ("len", lambda: len(real), len(keys)),
        ("iterkeys", lambda: list(real.iterkeys()), keys),
        ("iteritems", lambda: list(real.iteritems()), items),
        ("itervalues", lambda: list(real.itervalues()), vals),
    ]
    for p in probes:
        obs.append(("%r in" % p, lambda p=p: p in real, m.has(p)))
        obs.append(("get(%r)" % p, lambda p=p: real.get(p, SENT), m.d.get(m.k(p), SENT)))
    return _observe(obs)


def state_modict(kind, real, m, probes):
    keys = list(m.order)
    lists = [list(m.d[k]) for k in keys]
    last = [l[-1] for l in lists]
    allv = [v for l in lists for v in l]
    alli = [(k, v) for k, l in zip(keys, lists) for v in l]
    obs = [
        ("items()", lambda: real.items(), list(zip(keys, last))),
        ("listitems()", lambda: real.listitems(), list(zip(keys, lists))),
        ("allitems()", lambda: real.allitems(), alli),
        ("values()", lambda: real.values(), last),
        ("listvalues()", lambda: real.listvalues(), lists),
        ("allvalues()", lambda: real.allvalues(), allv),
        ("iteritems", lambda: list(real.iteritems()), list(zip(keys, last))),
        ("iterlistitems", lambda: list(real.iterlistitems()), list(zip(keys, lists))),
        ("iterallitems", lambda: list(real.iterallitems()), alli),
        ("itervalues", lambda: list(real.itervalues()), last),
        ("iterlistvalues", lambda: list(real.iterlistvalues()), lists),
        ("iterallvalues", lambda: list(real.iterallvalues()), allv),
        ("keys()", lambda: real.keys(), keys),
        ("list(iter)", lambda: list(real), keys),
        ("len", lambda: len(real), len(keys)),
    ]
    for p in probes:
        obs.append(("%r in" % p, lambda p=p: p in real, m.has(p)))
        obs.append(("getlist(%r)" % p, lambda p=p: list(real.getlist(p)), list(m.d.get(p, []))))
        if m.has(p):
            obs.append(("[%r]" % p, lambda p=p: real[p], m.d[p][-1]))
    return _observe(obs)


def state_oset(kind, real, m, probes):
    cap = len(m) + 2   # a corrupted link list may be cyclic: never materialise more than the model holds + 2
    obs = [
        ("list(iter)", lambda: list(itertools.islice(iter(real), cap)), list(m)),
        ("list(reversed)", lambda: list(itertools.islice(reversed(real), cap)), list(reversed(m))),
        ("len", lambda: len(real), len(m)),
    ]
    for p in probes:
        obs.append(("%r in" % p, lambda p=p: p in real, p in m))
    return _observe(obs)


def _observe(obs):
    for name, f, exp in obs:
        got = attempt(f)
        if got[0] == "raise":
            return "%s raised %r, model has %r" % (name, got[1], exp)
        if got[1] != exp:
            return "%s = %r, model has %r" % (name, got[1], exp)
    return None


# ------------------------------------------------------------------------- interpreters
def _strings(x, out):
    if isinstance(x, str):
        out.add(x)
    elif isinstance(x, (list, tuple)):
        for y in x:
            _strings(y, out)
    return out


OPWORDS = set("""set del getitem get in pop popd popitem setdefault setdefault0 update create insert reorder sift
append copy pickle clear add replace getlist getone getkind popidx poplist poplistd popall poplistitem has_key
fromkeys discard remove ior iand isub ixor or and sub xor cmp rebuild pairs tuple dict odict lodict modict kw self
oset list le lt ge gt eq ne isdisjoint""".split())


def case_probes(case):
    s = _strings(case.get("init"), set()) | _strings(case.get("ops"), set())
    s -= OPWORDS
    return sorted(s)


class Feats(object):
    def __init__(self):
        self.removed = set()
        self.reinsert = False
        self.mixed = False
        self.ops = set()
        self.expected_raise = 0
        self.steps = 0
        self.skipped = False


def run_case(case):
    """-> (failures [(sig, what)], Feats)"""
    kind = case["kind"]
    feats = Feats()
    probes = case_probes(case)
    mixed = False
    if kind == "lodict":
        mixed = feats.mixed = any(p != p.lower() for p in probes)
        probes = sorted(set(probes) | set(p.upper() for p in probes) | set(p.lower() for p in probes))
    global HANGS
    _classes()                  # import ioflo before the CPU watchdog is armed
    if HANGS >= MAX_HANGS:      # the run is already a violation; do not spend 1 s CPU on every further case
        feats.skipped = True
        return [], feats
    try:
        try:
            with cpu_watchdog(CASE_CPU_S):
                _run_kind(kind, case, feats, probes)
        except Hang:
            feats = Feats()
            feats.mixed = mixed
            with cpu_watchdog(CONFIRM_CPU_S):
                _run_kind(kind, case, feats, probes)
    except Stop as s:
        return [(s.sig, "%s (step %d of %s)" % (s.what, feats.steps, kind))], feats
    except Hang:
        HANGS += 1
        op = case["ops"][feats.steps - 1][0] if feats.steps else "__init__"
        return [("%s.%s:hang" % (kind, op), "step %d %r did not finish within %s s CPU (a step normally takes "
                 "microseconds)" % (feats.steps, case["ops"][feats.steps - 1] if feats.steps else case.get("init"),
                                    CONFIRM_CPU_S))], feats
    return [], feats


def _run_kind(kind, case, feats, probes):
    if kind in ("odict", "lodict"):
        _run_odict(kind, case, feats, probes)
    elif kind == "modict":
        _run_modict(kind, case, feats, probes)
    else:
        _run_oset(kind, case, feats, probes)


def _track(feats, before, after):
    feats.removed |= (before - after)
    if (after - before) & feats.removed:
        feats.reinsert = True


def _check_state(kind, name, statef, real, m, probes, ctx):
    bad = statef(kind, real, m, probes)
    if bad:
        raise Stop("%s.%s:state" % (kind, name), "after %s: %s" % (ctx, bad))


def _apply_args(args, kw, fold):
    seq = []
    for form, pairs in args:
        seq.extend(arg_assignments(form, pairs, fold))
    seq.extend(arg_assignments("kw", kw))
    return seq


def _run_odict(kind, case, feats, probes):
    C = _classes()
    cls = C[kind]
    fold = kind == "lodict"
    m = OModel(fold)
    args, kw = case.get("init") or ([], [])
    got = attempt(lambda: cls(*[build_arg(f, p) for f, p in args], **dict((k, v) for k, v in kw)))
    for k, v in _apply_args(args, kw, fold):
        m.set(k, v)
    real = expect(kind, "__init__", got, ("any",), "%s(%r, **%r)" % (kind, args, kw))
    _check_state(kind, "__init__", state_odict, real, m, probes, "construction %r %r" % (args, kw))
    olds = []
    for op in case["ops"]:
        feats.steps += 1
        name = op[0]
        feats.ops.add(name)
        ctx = "%r on %r" % (op, m.items())
        before = m.keyset()
        if name == "set":
            _, k, v = op
            got = attempt(lambda: real.__setitem__(k, v))
            m.set(k, v)
            expect(kind, name, got, ("ret", None), ctx)
        elif name == "del":
            k = op[1]
            got = attempt(lambda: real.__delitem__(k))
            if m.has(k):
                m.rem(k)
                expect(kind, name, got, ("ret", None), ctx)
            else:
                feats.expected_raise += 1
                expect(kind, name, got, ("raise", KeyError), ctx)
        elif name == "getitem":
            k = op[1]
            got = attempt(lambda: real[k])
            if m.has(k):
                expect(kind, name, got, ("ret", m.d[m.k(k)]), ctx)
            else:
                feats.expected_raise += 1
                expect(kind, name, got, ("raise", KeyError), ctx)
        elif name == "get":
            _, k, dflt = op
            got = attempt(lambda: real.get(k, dflt))
            expect(kind, name, got, ("ret", m.d.get(m.k(k), dflt)), ctx)
        elif name == "in":
            k = op[1]
            got = attempt(lambda: k in real)
            expect(kind, name, got, ("ret", m.has(k)), ctx)
        elif name == "pop":
            k = op[1]
            got = attempt(lambda: real.pop(k))
            if m.has(k):
                v = m.d[m.k(k)]
                m.rem(k)
                expect(kind, name, got, ("ret", v), ctx)
            else:
                feats.expected_raise += 1
                expect(kind, name, got, ("raise", KeyError), ctx)
        elif name == "popd":
            _, k, dflt = op
            got = attempt(lambda: real.pop(k, dflt))
            if m.has(k):
                v = m.d[m.k(k)]
                m.rem(k)
                expect(kind, name, got, ("ret", v), ctx)
            else:
                expect(kind, name, got, ("ret", dflt), ctx)
        elif name == "popitem":
            got = attempt(lambda: real.popitem())
            if m.order:
                k = m.order[-1]
                v = m.d[k]
                m.rem(k)
                expect(kind, name, got, ("ret", (k, v)), ctx)
            else:
                feats.expected_raise += 1
                expect(kind, name, got, ("raise", KeyError), ctx)
        elif name == "setdefault":
            _, k, v = op
            got = attempt(lambda: real.setdefault(k, v))
            if m.has(k):
                expect(kind, name, got, ("ret", m.d[m.k(k)]), ctx)
            else:
                m.set(k, v)
                expect(kind, name, got, ("ret", v), ctx)
        elif name == "setdefault0":
            k = op[1]
            got = attempt(lambda: real.setdefault(k))
            if m.has(k):
                expect(kind, name, got, ("ret", m.d[m.k(k)]), ctx)
            else:
                m.set(k, None)
                expect(kind, name, got, ("ret", None), ctx)
        elif name in ("update", "create"):
            _, args, kw = op
            got = attempt(lambda: getattr(real, name)(*[build_arg(f, p) for f, p in args],
                                                      **dict((k, v) for k, v in kw)))
            for k, v in _apply_args(args, kw, fold):
                if name == "update" or not m.has(k):
                    m.set(k, v)
            expect(kind, name, got, ("ret", None), ctx)
        elif name == "insert":
            _, i, k, v = op
            idx = i % (len(m.order) + 1)
            got = attempt(lambda: real.insert(idx, k, v))
            if m.has(k):
                feats.expected_raise += 1
                expect(kind, name, got, ("raise", KeyError), ctx)
            else:
                m.d[m.k(k)] = v
                m.order.insert(idx, m.k(k))
                expect(kind, name, got, ("ret", None), ctx + " (index %d)" % idx)
        elif name == "reorder":
            _, form, pairs = op
            if form == "permuted":
                # `other` = another odict holding the current items in another order (equal as a dict, not the same
                # object): the keys must end up in other's order
                items = [[k, m.d[k]] for k in m.order]
                r = int(pairs)
                if items:
                    if r % 2:
                        items.reverse()
                    else:
                        j = (r // 2) % len(items) or 1
                        items = items[j:] + items[:j]
                form, pairs = "odict", items
                feats.permuted_reorder = getattr(feats, "permuted_reorder", 0) + 1
            if form == "self":
                got = attempt(lambda: real.reorder(real))
                expect(kind, "reorder-self", got, ("ret", None), ctx)
                _check_state(kind, "reorder-self", state_odict, real, m, probes, ctx)
            elif form in ("dict", "pairs"):
                feats.expected_raise += 1
                got = attempt(lambda: real.reorder(build_arg(form, pairs)))
                expect(kind, name, got, ("raise", ValueError), ctx)
            else:
                if fold and form == "odict":
                    # a plain odict holding two spellings of one folded key ('A' and 'a') has no defined
                    # meaning for a lodict: keep only the first spelling of every folded key
                    first = {}
                    for k, v in pairs:
                        first.setdefault(k.lower(), k)
                    pairs = [[k, v] for k, v in pairs if first[k.lower()] == k]
                got = attempt(lambda: real.reorder(build_arg(form, pairs)))
                for k, v in arg_assignments(form, pairs):
                    if m.has(k):
                        m.order.remove(m.k(k))
                        del m.d[m.k(k)]
                    m.set(k, v)
                expect(kind, name, got, ("ret", None), ctx)
        elif name == "sift":
            fields = op[1]
            got = attempt(lambda: real.sift(None if fields is None else list(fields)))
            if fields is None:
                exp = m.items()
            elif all(m.has(f) for f in fields):
                exp = list(dict((m.k(f), m.d[m.k(f)]) for f in fields).items())
            else:
                exp = None
            if exp is None:
                feats.expected_raise += 1
                expect(kind, name, got, ("raise", KeyError), ctx)
            else:
                res = expect(kind, name, got, ("any",), ctx)
                if type(res) is not cls:
                    raise Stop("%s.sift:type" % kind, "%s: result type %s" % (ctx, type(res).__name__))
                ri = attempt(lambda: res.items())
                if ri != ("ret", exp):
                    raise Stop("%s.sift:return" % kind, "%s: sift gave %r, model expects %r" % (ctx, ri[1], exp))
        elif name == "append":
            _, k, v = op
            got = attempt(lambda: real.append(k, v))
            if m.has(k):
                feats.expected_raise += 1
                expect(kind, name, got, ("raise", KeyError), ctx)
            else:
                m.set(k, v)
                expect(kind, name, got, ("ret", None), ctx)
        elif name == "copy":
            got = attempt(lambda: real.copy())
            new = expect(kind, name, got, ("any",), ctx)
            if type(new) is not cls or new is real:
                raise Stop("%s.copy:type" % kind, "%s: copy is %s%s" % (ctx, type(new).__name__,
                                                                          " (same object)" if new is real else ""))
            olds.append((real, m.items()))
            real = new
        elif name == "pickle":
            proto = op[1]
            got = attempt(lambda: pickle.loads(pickle.dumps(real, proto)))
            new = expect(kind, name, got, ("any",), ctx)
            if type(new) is not cls or new is real:
                raise Stop("%s.pickle:type" % kind, "%s: unpickled a %s" % (ctx, type(new).__name__))
            olds.append((real, m.items()))
            real = new
        elif name == "clear":
            got = attempt(lambda: real.clear())
            m.d.clear()
            del m.order[:]
            expect(kind, name, got, ("ret", None), ctx)
        else:
            raise ValueError("unknown op %r" % (op,))
        _check_state(kind, name, state_odict, real, m, probes, ctx)
        _track(feats, before, m.keyset())
    for old, items in olds:
        got = attempt(lambda: old.items())
        if got != ("ret", items):
            raise Stop("%s.copy:aliased" % kind, "original changed after its copy/unpickled clone was modified: "
                       "%r, had %r" % (got[1], items))


def _run_modict(kind, case, feats, probes):
    C = _classes()
    cls = C[kind]
    m = MModel()
    args, kw = case.get("init") or ([], [])
    got = attempt(lambda: cls(*[build_arg(f, p) for f, p in args], **dict((k, v) for k, v in kw)))
    for k, v in _apply_args(args, kw, False):
        m.add(k, v)
    real = expect(kind, "__init__", got, ("any",), "%s(%r, **%r)" % (kind, args, kw))
    _check_state(kind, "__init__", state_modict, real, m, probes, "construction %r %r" % (args, kw))
    olds = []
    for op in case["ops"]:
        feats.steps += 1
        name = op[0]
        feats.ops.add(name)
        ctx = "%r on %r" % (op, [(k, m.d[k]) for k in m.order])
        before = m.keyset()
        if name in ("set", "append", "add"):
            _, k, v = op
            if name == "set":
                got = attempt(lambda: real.__setitem__(k, v))
            else:
                got = attempt(lambda: getattr(real, name)(k, v))
            m.add(k, v)
            expect(kind, name, got, ("ret", None), ctx)
        elif name == "getitem":
            k = op[1]
            got = attempt(lambda: real[k])
            if m.has(k):
                expect(kind, name, got, ("ret", m.d[k][-1]), ctx)
            else:
                feats.expected_raise += 1
                expect(kind, name, got, ("raise", KeyError), ctx)
        elif name in ("get", "getone"):
            _, k, dflt, index = op
            if index is None:
                got = attempt(lambda: getattr(real, name)(k, dflt))
                index = -1
            else:
                got = attempt(lambda: getattr(real, name)(k, dflt, index=index))
            exp = dflt
            if m.has(k) and -len(m.d[k]) <= index < len(m.d[k]):
                exp = m.d[k][index]
            expect(kind, name, got, ("ret", exp), ctx)
        elif name == "getkind":
            _, k, dflt = op
            got = attempt(lambda: real.get(k, dflt, kind=str))
            expect(kind, name, got, ("ret", str(m.d[k][-1]) if m.has(k) else dflt), ctx)
        elif name == "getlist":
            k = op[1]
            got = attempt(lambda: list(real.getlist(k)))
            expect(kind, name, got, ("ret", list(m.d.get(k, []))), ctx)
        elif name == "in":
            k = op[1]
            got = attempt(lambda: k in real)
            expect(kind, name, got, ("ret", m.has(k)), ctx)
        elif name == "has_key":
            k = op[1]
            got = attempt(lambda: real.has_key(k))
            expect(kind, name, got, ("ret", m.has(k)), ctx)
        elif name == "replace":
            _, k, v = op
            got = attempt(lambda: real.replace(k, v))
            if not m.has(k):
                m.add(k, v)
            m.d[k] = [v]
            expect(kind, name, got, ("ret", None), ctx)
        elif name == "setdefault":
            _, k, v = op
            got = attempt(lambda: real.setdefault(k, v))
            if m.has(k):
                expect(kind, name, got, ("ret", m.d[k][-1]), ctx)
            else:
                m.add(k, v)
                expect(kind, name, got, ("ret", v), ctx)
        elif name == "del":
            k = op[1]
            got = attempt(lambda: real.__delitem__(k))
            if m.has(k):
                m.rem(k)
                expect(kind, name, got, ("ret", None), ctx)
            else:
                feats.expected_raise += 1
                expect(kind, name, got, ("raise", KeyError), ctx)
        elif name in ("pop", "popd", "popidx"):
            k = op[1]
            if name == "pop":
                got = attempt(lambda: real.pop(k))
            elif name == "popd":
                got = attempt(lambda: real.pop(k, op[2]))
            else:
                # index 0 (oldest) or -1 (newest): always valid for a non-empty value list
                got = attempt(lambda: real.pop(k, op[2], index=op[3]))
            if m.has(k):
                lst = m.d[k]
                m.rem(k)
                expect(kind, name, got, ("ret", lst[op[3]] if name == "popidx" else lst[-1]), ctx)
            elif name == "pop":
                feats.expected_raise += 1
                expect(kind, name, got, ("raise", KeyError), ctx)
            else:
                expect(kind, name, got, ("ret", op[2]), ctx)
        elif name in ("poplist", "popall", "poplistd"):
            k = op[1]
            if name == "poplistd":
                got = attempt(lambda: real.poplist(k, op[2]))
            else:
                got = attempt(lambda: getattr(real, name)(k))
            if m.has(k):
                lst = m.d[k]
                m.rem(k)
                expect(kind, name, got, ("ret", lst), ctx)
            elif name == "poplistd":
                expect(kind, name, got, ("ret", op[2]), ctx)
            else:
                feats.expected_raise += 1
                expect(kind, name, got, ("raise", KeyError), ctx)
        elif name in ("popitem", "poplistitem"):
            # ["popitem", how, index]  how: None -> no argument, True/False -> last=how
            how = op[1]
            index = op[2] if name == "popitem" else None
            kwa = {}
            if how is not None:
                kwa["last"] = how
            if index is not None:
                kwa["index"] = index
            got = attempt(lambda: getattr(real, name)(**kwa))
            if m.order:
                k = m.order[0] if how is False else m.order[-1]
                lst = m.d[k]
                m.rem(k)
                if name == "popitem":
                    expect(kind, name, got, ("ret", (k, lst[-1 if index is None else index])), ctx)
                else:
                    expect(kind, name, got, ("ret", (k, lst)), ctx)
            else:
                feats.expected_raise += 1
                expect(kind, name, got, ("raise", KeyError), ctx)
        elif name in ("update", "create"):
            _, args, kw = op
            got = attempt(lambda: getattr(real, name)(*[build_arg(f, p) for f, p in args],
                                                      **dict((k, v) for k, v in kw)))
            for k, v in _apply_args(args, kw, False):
                if name == "update" or not m.has(k):
                    m.add(k, v)
            expect(kind, name, got, ("ret", None), ctx)
        elif name == "copy":
            got = attempt(lambda: real.copy())
            new = expect(kind, name, got, ("any",), ctx)
            if type(new) is not cls or new is real:
                raise Stop("%s.copy:type" % kind, "%s: copy is %s" % (ctx, type(new).__name__))
            olds.append((real, [(k, list(m.d[k])) for k in m.order]))
            real = new
        elif name == "fromkeys":
            _, seq, dflt = op
            got = attempt(lambda: real.fromkeys(list(seq), dflt))
            res = expect(kind, name, got, ("any",), ctx)
            exp = [(k, [dflt] * list(seq).count(k)) for k in dict.fromkeys(seq)]
            ri = attempt(lambda: res.listitems())
            if type(res) is not cls or ri != ("ret", exp):
                raise Stop("%s.fromkeys:return" % kind, "%s: gave %s %r, model expects %r"
                           % (ctx, type(res).__name__, ri[1], exp))
        elif name == "clear":
            got = attempt(lambda: real.clear())
            m.d.clear()
            del m.order[:]
            expect(kind, name, got, ("ret", None), ctx)
        else:
            raise ValueError("unknown op %r" % (op,))
        _check_state(kind, name, state_modict, real, m, probes, ctx)
        _track(feats, before, m.keyset())
    for old, items in olds:
        got = attempt(lambda: old.listitems())
        if got != ("ret", items):
            raise Stop("%s.copy:aliased" % kind, "original changed after its copy was modified: %r, had %r"
                       % (got[1], items))


def _uniq(seq):
    return list(dict.fromkeys(seq))


def _run_oset(kind, case, feats, probes):
    C = _classes()
    cls = C[kind]
    init = case.get("init")
    if init is None:
        got = attempt(lambda: cls())
        m = []
    else:
        got = attempt(lambda: cls(list(init)))
        m = _uniq(init)
    real = expect(kind, "__init__", got, ("any",), "oset(%r)" % (init,))
    _check_state(kind, "__init__", state_oset, real, m, probes, "construction %r" % (init,))

    def other(form, elems):
        if form == "self":
            return real
        if form == "oset":
            return cls(list(elems))
        return list(elems)

    for op in case["ops"]:
        feats.steps += 1
        name = op[0]
        feats.ops.add(name)
        ctx = "%r on %r" % (op, m)
        before = set(m)
        if name == "add":
            k = op[1]
            got = attempt(lambda: real.add(k))
            if k not in m:
                m.append(k)
            expect(kind, name, got, ("ret", None), ctx)
        elif name == "discard":
            k = op[1]
            got = attempt(lambda: real.discard(k))
            if k in m:
                m.remove(k)
            expect(kind, name, got, ("ret", None), ctx)
        elif name == "remove":
            k = op[1]
            got = attempt(lambda: real.remove(k))
            if k in m:
                m.remove(k)
                expect(kind, name, got, ("ret", None), ctx)
            else:
                feats.expected_raise += 1
                expect(kind, name, got, ("raise", KeyError), ctx)
        elif name == "pop":
            how = op[1]
            if how is None:
                got = attempt(lambda: real.pop())
            else:
                got = attempt(lambda: real.pop(last=how))
            if m:
                k = m.pop(0) if how is False else m.pop()
                expect(kind, name, got, ("ret", k), ctx)
            else:
                feats.expected_raise += 1
                expect(kind, name, got, ("raise", KeyError), ctx)
        elif name == "clear":
            got = attempt(lambda: real.clear())
            del m[:]
            expect(kind, name, got, ("ret", None), ctx)
        elif name == "in":
            k = op[1]
            got = attempt(lambda: k in real)
            expect(kind, name, got, ("ret", k in m), ctx)
        elif name in ("ior", "iand", "isub", "ixor"):
            _, form, elems = op
            o = other(form, elems)
            es = list(m) if form == "self" else _uniq(elems)
            got = attempt(lambda: getattr(real, "__%s__" % name)(o))
            if name == "ior":
                m.extend(e for e in es if e not in m)
            elif name == "iand":
                m[:] = [e for e in m if e in es]
            elif name == "isub":
                m[:] = [e for e in m if e not in es]
            else:
                keep = [e for e in m if e not in es]
                new = [e for e in es if e not in m]
                m[:] = keep + new
            res = expect(kind, name, got, ("any",), ctx)
            if res is not real:
                raise Stop("%s.%s:return" % (kind, name), "%s: in-place operator returned another object %r" % (ctx, res))
        elif name in ("or", "and", "sub", "xor"):
            _, form, elems, keep = op
            o = other(form, elems)
            es = list(m) if form == "self" else _uniq(elems)
            got = attempt(lambda: getattr(real, "__%s__" % name)(o))
            if name == "or":
                exp = m + [e for e in es if e not in m]
            elif name == "and":
                exp = [e for e in m if e in es]
            elif name == "sub":
                exp = [e for e in m if e not in es]
            else:
                exp = [e for e in m if e not in es] + [e for e in es if e not in m]
            res = expect(kind, name, got, ("any",), ctx)
            if type(res) is not cls:
                raise Stop("%s.%s:type" % (kind, name), "%s: result is %r" % (ctx, res))
            rl = list(itertools.islice(iter(res), len(exp) + 2))
            ordered = name in ("or", "sub")
            if (rl != exp) if ordered else (sorted(rl, key=repr) != sorted(exp, key=repr)):
                raise Stop("%s.%s:return" % (kind, name), "%s: result %r, model expects %r%s"
                           % (ctx, rl, exp, "" if ordered else " (as a set)"))
            rr = list(itertools.islice(reversed(res), len(exp) + 2))
            if rr != rl[::-1] or len(res) != len(rl):
                raise Stop("%s.%s:links" % (kind, name), "%s: result iterates %r forward, %r backward, len %d"
                           % (ctx, rl, rr, len(res)))
            if keep and ordered:
                real = res
                m = exp
        elif name == "cmp":
            _, rel, form, elems = op
            o = other(form, elems)
            es = list(m) if form == "self" else _uniq(elems)
            sm, se = set(m), set(es)
            if rel == "le":
                got, exp = attempt(lambda: real <= o), sm <= se
            elif rel == "lt":
                got, exp = attempt(lambda: real < o), sm < se
            elif rel == "ge":
                got, exp = attempt(lambda: real >= o), sm >= se
            elif rel == "gt":
                got, exp = attempt(lambda: real > o), sm > se
            elif rel == "isdisjoint":
                got, exp = attempt(lambda: real.isdisjoint(o)), not (sm & se)
            elif rel == "eq":
                got, exp = attempt(lambda: real == o), (m == es if form != "list" else sm == se)
            else:
                got, exp = attempt(lambda: real != o), not (m == es if form != "list" else sm == se)
            expect(kind, "cmp-" + rel, got, ("ret", exp), ctx)
        elif name == "rebuild":
            got = attempt(lambda: cls(real))
            new = expect(kind, name, got, ("any",), ctx)
            if new is real or type(new) is not cls:
                raise Stop("%s.rebuild:type" % kind, "%s: oset(oset) gave %r" % (ctx, new))
            real = new
        else:
            raise ValueError("unknown op %r" % (op,))
        _check_state(kind, name, state_oset, real, m, probes, ctx)
        _track(feats, before, set(m))


# ------------------------------------------------------------------------- exhaustive alphabets
def alphabet(kind, step):
    """Concrete operations offered at position `step` (values depend on the step so that stale values show)."""
    v = 10 * (step + 1)
    if kind in ("odict", "lodict"):
        a, b = ("a", "b") if kind == "odict" else ("A", "b")
        a2 = "a"  # other spelling of a for lodict, same key for odict
        ops = [["set", a, v], ["set", b, v + 1], ["del", a2], ["del", b], ["pop", a], ["pop", b],
               ["popd", a2, -1], ["popitem"], ["setdefault", a, v], ["setdefault0", b],
               ["update", [["pairs", [[b, v], [a, v + 1]]]], []], ["update", [], [[a, v]]],
               ["update", [["dict", [[b, v]]]], []],
               ["create", [["pairs", [[a, v], [b, v + 1]]]], []], ["create", [], [[a, v]]],
               ["insert", 0, a, v], ["insert", 0, b, v], ["insert", 1, a, v],
               ["reorder", "odict", [[a, v]]], ["reorder", kind, [[b, v], [a2, v + 1]]], ["reorder", "self", []],
               ["sift", [b, a]], ["sift", [a]], ["sift", None], ["copy"], ["pickle", 2], ["clear"],
               ["append", a, v], ["append", b, v], ["getitem", a]]
        return ops
    if kind == "modict":
        a, b = "a", "b"
        return [["set", a, v], ["append", b, v], ["add", a, v + 1], ["del", a], ["del", b], ["pop", a], ["popd", b, -1],
                ["popidx", a, -1, 0], ["poplist", a], ["poplistd", b, -1], ["popitem", None, None],
                ["popitem", False, 0], ["poplistitem", None, None], ["poplistitem", False, None],
                ["replace", a, v], ["replace", b, v], ["setdefault", a, v], ["setdefault", b, v],
                ["get", a, -1, None], ["get", a, -1, 0], ["getkind", b, -1], ["getitem", a],
                ["update", [["pairs", [[a, v], [b, v + 1], [a, v + 2]]]], []], ["update", [["dict", [[b, v]]]], []],
                ["update", [["modict", [[a, v], [a, v + 1]]]], [[b, v + 2]]],
                ["create", [["pairs", [[a, v], [b, v + 1]]]], []], ["copy"], ["clear"], ["fromkeys", [b, a, b], v]]
    if kind == "oset":
        a, b, c = "a", "b", ""       # one falsy member
        return [["add", a], ["add", b], ["add", c], ["discard", a], ["discard", b], ["remove", a], ["remove", c],
                ["pop", None], ["pop", False], ["pop", True], ["clear"],
                ["ior", "list", [c, a]], ["ior", "oset", [b]], ["iand", "oset", [b, a]], ["iand", "list", [c]],
                ["isub", "oset", [a]], ["isub", "self", []], ["ixor", "oset", [a, c]], ["ixor", "list", [b, b]],
                ["ixor", "self", []],
                ["or", "oset", [c, a], True], ["sub", "oset", [b], True], ["and", "oset", [b, a], False],
                ["xor", "oset", [a, c], False], ["cmp", "eq", "oset", [a, b]], ["cmp", "le", "oset", [a, b]],
                ["rebuild"]]
    raise ValueError(kind)


def exh_inits(kind):
    if kind == "odict":
        return [[[], []], [[["pairs", [["a", 1], ["b", 2]]]], []]]
    if kind == "lodict":
        return [[[], []], [[["pairs", [["b", 1], ["A", 2]]]], []]]
    if kind == "modict":
        return [[[], []], [[["pairs", [["a", 1], ["b", 2], ["a", 3]]]], []]]
    return [None, ["a", "b"]]


# ------------------------------------------------------------------------- random histories
def strategies(kind):
    ints = st.integers(0, 99)
    if kind == "oset":
        el = st.sampled_from(["a", "b", "c", "d", "", 0, None, "e"])     # falsy members too
        elems = st.lists(el, max_size=5)
        form = st.sampled_from(["oset", "oset", "list", "self"])
        form2 = st.sampled_from(["oset", "oset", "oset", "list", "self"])
        op = st.one_of(
            st.tuples(st.just("add"), el), st.tuples(st.just("add"), el),
            st.tuples(st.just("discard"), el), st.tuples(st.just("remove"), el),
            st.tuples(st.just("pop"), st.sampled_from([None, True, False])),
            st.tuples(st.just("in"), el), st.just(("clear",)), st.just(("rebuild",)),
            st.tuples(st.sampled_from(["ior", "iand", "isub", "ixor"]), form, elems),
            st.tuples(st.sampled_from(["or", "and", "sub", "xor"]), form2, elems, st.booleans()),
            st.tuples(st.just("cmp"), st.sampled_from(["le", "lt", "ge", "gt", "isdisjoint"]),
                      st.sampled_from(["oset", "self"]), elems),
            st.tuples(st.just("cmp"), st.sampled_from(["eq", "ne"]), st.sampled_from(["oset", "list", "self"]), elems),
        )
        init = st.one_of(st.none(), st.lists(el, max_size=8))
        return init, op
    if kind == "odict":
        key = st.sampled_from(["a", "b", "c", "d", "e", "A"])
        forms = ["pairs", "tuple", "dict", "odict"]
        reforms = ["odict", "odict", "odict", "self", "dict", "pairs"]
    elif kind == "lodict":
        key = st.sampled_from(["a", "A", "b", "B", "c", "C", "ab", "Ab", "aB", "AB", "d"])
        forms = ["pairs", "tuple", "dict", "odict", "lodict"]
        reforms = ["odict", "lodict", "lodict", "self", "dict", "pairs"]
    else:
        key = st.sampled_from(["a", "b", "c", "d"])
        forms = ["pairs", "tuple", "dict", "odict", "modict"]
    pairs = st.lists(st.tuples(key, ints), max_size=4)
    arg = st.tuples(st.sampled_from(forms), pairs)
    args = st.lists(arg, max_size=2)
    # create(): a modict argument contributes only its newest values (odict.create reads a[k]); keep the
    # sequential-assignment model exact by not passing modicts to create
    cargs = st.lists(st.tuples(st.sampled_from([f for f in forms if f != "modict"]), pairs), max_size=2)
    kw = st.lists(st.tuples(key, ints), max_size=2)
    init = st.tuples(args, kw)
    if kind in ("odict", "lodict"):
        op = st.one_of(
            st.tuples(st.just("set"), key, ints), st.tuples(st.just("set"), key, ints),
            st.tuples(st.just("del"), key), st.tuples(st.just("getitem"), key),
            st.tuples(st.just("get"), key, ints), st.tuples(st.just("in"), key),
            st.tuples(st.just("pop"), key), st.tuples(st.just("popd"), key, ints), st.just(("popitem",)),
            st.tuples(st.just("setdefault"), key, ints), st.tuples(st.just("setdefault0"), key),
            st.tuples(st.just("update"), args, kw), st.tuples(st.just("create"), args, kw),
            st.tuples(st.just("insert"), st.integers(0, 7), key, ints),
            st.tuples(st.just("reorder"), st.sampled_from(reforms), pairs),
            st.tuples(st.just("reorder"), st.just("permuted"), st.integers(0, 7)),
            st.tuples(st.just("sift"), st.one_of(st.none(), st.lists(key, max_size=3))),
            st.tuples(st.just("append"), key, ints), st.just(("copy",)),
            st.tuples(st.just("pickle"), st.sampled_from(PROTOS)), st.just(("clear",)),
        )
        return init, op
    idx = st.sampled_from([None, -1, 0, 1, -2, 5])
    op = st.one_of(
        st.tuples(st.sampled_from(["set", "append", "add"]), key, ints),
        st.tuples(st.sampled_from(["set", "append", "add"]), key, ints),
        st.tuples(st.just("getitem"), key), st.tuples(st.sampled_from(["get", "getone"]), key, ints, idx),
        st.tuples(st.just("getkind"), key, ints), st.tuples(st.just("getlist"), key),
        st.tuples(st.sampled_from(["in", "has_key"]), key), st.tuples(st.just("replace"), key, ints),
        st.tuples(st.just("setdefault"), key, ints), st.tuples(st.just("del"), key),
        st.tuples(st.just("pop"), key), st.tuples(st.just("popd"), key, ints),
        st.tuples(st.just("popidx"), key, ints, st.sampled_from([0, -1])),
        st.tuples(st.sampled_from(["poplist", "popall"]), key), st.tuples(st.just("poplistd"), key, ints),
        st.tuples(st.just("popitem"), st.sampled_from([None, True, False]), st.sampled_from([None, 0, -1])),
        st.tuples(st.just("poplistitem"), st.sampled_from([None, True, False]), st.none()),
        st.tuples(st.just("update"), args, kw), st.tuples(st.just("create"), cargs, kw),
        st.just(("copy",)), st.just(("clear",)),
        st.tuples(st.just("fromkeys"), st.lists(key, max_size=4), ints),
    )
    return init, op


def _tolist(x):
    if isinstance(x, (list, tuple)):
        return [_tolist(y) for y in x]
    return x


def case_strategy(kind):
    init, op = strategies(kind)
    return st.builds(lambda i, ops: {"kind": kind, "init": _tolist(i), "ops": _tolist(ops)},
                     init, st.one_of(st.lists(op, min_size=1, max_size=6), st.lists(op, min_size=7, max_size=30)))


def outcome(case):
    fails, feats = run_case(case)
    kind = case["kind"]
    nt = feats.reinsert or feats.mixed
    n = len(case["ops"])
    classes = [kind, "%s/len%s" % (kind, "<=4" if n <= 4 else ("<=12" if n <= 12 else "<=30"))]
    if feats.reinsert:
        classes.append(kind + "/reinsert-after-removal")
    if feats.mixed:
        classes.append(kind + "/mixed-case-keys")
    if feats.skipped:
        return Outcome([], nontrivial=False, classes=[kind + "/skipped-after-%d-hangs" % MAX_HANGS], key=None, sample=case)
    if feats.expected_raise:
        classes.append(kind + "/expected-exception-seen")
    classes.extend("%s/op:%s" % (kind, o) for o in sorted(feats.ops))
    return Outcome(fails, nontrivial=nt, classes=classes, key=case, sample=case)


# ------------------------------------------------------------------------- plan / work / replay
def plan(tier):
    shards = []
    nexh = 2 if tier == "quick" else 8
    nrand = 2 if tier == "quick" else 8
    for kind in KINDS:
        shards += [{"part": "exh", "kind": kind, "i": i, "n": nexh} for i in range(nexh)]
        shards += [{"part": "rand", "kind": kind, "i": i} for i in range(nrand)]
    return shards


def work(shard, seed, tier):
    acc = Acc()
    kind = shard["kind"]
    if shard["part"] == "exh":
        L = 3 if tier == "quick" else 4
        alphas = [alphabet(kind, s) for s in range(L)]
        n = 0
        for init in exh_inits(kind):
            for first in range(shard["i"], len(alphas[0]), shard["n"]):
                for rest in itertools.product(*alphas[1:]):
                    case = {"kind": kind, "init": init, "ops": [alphas[0][first]] + list(rest)}
                    out = outcome(case)
                    n += 1
                    acc.case(key=case, nontrivial=out.nontrivial,
                             classes=[kind, kind + "/exhaustive"] +
                                     [c for c in out.classes if c.endswith(("/reinsert-after-removal", "/mixed-case-keys",
                                                                            "/expected-exception-seen"))],
                             sample=case if n % 997 == 1 else None)
                    for sig, what in out.failures:
                        acc.fail(sig, what, case)
        acc.exhaustive = True
        acc.note("every sequence of exactly %d operations over the concrete alphabets (%s) from an empty and a "
                 "populated start was executed" % (L, ", ".join("%s: %d ops" % (k, len(alphabet(k, 0))) for k in KINDS)))
        return acc
    n = 1000 if tier == "quick" else 5000
    idx = KINDS.index(kind) * 100 + shard["i"]
    campaign(acc, case_strategy(kind), outcome, n, seed * 1000 + idx,
             budget=Budget(100 if tier == "quick" else 1500), max_sigs=6, shrink_examples=300)
    return acc


def replay(case):
    case = {"kind": case["kind"], "init": case.get("init"), "ops": _tolist(case["ops"])}
    return run_case(case)[0]
