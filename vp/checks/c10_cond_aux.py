"""C10 A conditional auxiliary suspends the frames below its main frame.

Generator: conditional-aux profile: main frames at depth 0-3, conditions on shares / clocks
toggled by other framers, auxiliaries that complete in their first run, later (done me,
done-by-others) or never, transitions leaving the main frame from above or at it.
Oracle: history invariants (activation = enter + one run; while running: runs every tick, no
condition re-evaluation, no recur/precur of frames below the main frame, later clauses of the
main frame skipped; completion = fully exited, lower frames resume in the same tick without
enter events; exited with its main frame) + active-outline invariant (C05) + enter/exit
bookkeeping (C06) + reference differential.
"""
from vp.flo.profcheck import ProfileCheck
from vp.flo.engine import all_events

PROPERTY = "C10"
LEVEL = "exploration"
PROFILE = {"driver_cmp": True, "driver": True, "aux_owner": "taskable", "aux_place": "first", "taskables": (1, 2), "scheds": ["active"],
           "let_in_aux": False, "aux_completes": True, "aux_policy": "clean", "aux_modes": ["cond"], "auxes": (1, 3),
           "frames": (2, 4), "depth": 3, "slaves": (0, 0), "ticks": (6, 16),
           "kinds": {"data": 3, "go": 6, "let": 0, "timeout": 1, "repeat": 1, "aux": 0, "auxif": 3, "bid": 1, "done": 3, "fiat": 0},
           "needs": {"cmp": 5, "bool": 0, "elapsed": 2, "recurred": 5, "done": 1, "status": 0, "auxdone": 0}}


def _runs(r):
    """per (framer, line): list of auxif results in order"""
    out = {}
    for t, i, e in all_events(r["real"]):
        if e[0] == "act" and e[5] == "auxif":
            out.setdefault((e[1], e[4]), []).append(bool(e[6]))
    return out


def nontrivial(prog, r):
    for key, res in _runs(r).items():
        streak = 0
        for x in res:
            if x:
                streak += 1
            else:
                if streak >= 2:
                    return True
                streak = 0
    # or a main frame exit while it runs: an exitall of an aux framer right after a main-frame exit
    return False


def classes(prog, r):
    out = []
    runs = _runs(r)
    if not runs:
        return ["no-cond-aux-evaluated"]
    best = 0
    completed = False
    for res in runs.values():
        streak = 0
        for x in res:
            if x:
                streak += 1
                best = max(best, streak)
            else:
                if streak:
                    completed = True
                streak = 0
    out.append("ran>=2ticks" if best >= 2 else ("ran1tick" if best == 1 else "never-suspended"))
    if completed:
        out.append("completed-after-running")
    return out


CHECK = ProfileCheck(PROFILE, ["c10", "c05", "c06"], nontrivial, classes, directed=__import__("vp.flo.gen", fromlist=["x"]).cond_scenarios, directed_share=2)
RULE = ("Hypothesis-generated programs with conditional auxiliaries at several depths, toggling conditions, auxes completing immediately / later / never; "
        "history invariants on activation, suspension, completion and exit + C05/C06 invariants + reference differential. non-trivial = a "
        "conditional aux suspends for >= 2 consecutive runs and then completes; distinct = distinct program AST")
ASSUMPTIONS = ["each conditional aux framer is used by exactly one `aux .. if` clause (clean policy) so that 'running' is attributable",
               "a conditional aux marked done from outside its own run is cleaned up by its clause at the next evaluation (ioflo fix 0b71dc2)"]
META = {"level": LEVEL,
        "text": "Every evaluation of every conditional-aux clause in generated programs is checked against the stated activation / suspension / completion rules, together with the outline and enter/exit invariants, at every tick.",
        "note": "Attribution of 'running' relies on the clause's own truthy/falsy result events.",
        "technique": "Hypothesis program generation + history invariants on suspension + reference differential",
        "design_ref": "DESIGN.md section 3, C10"}
plan, work, replay = CHECK.plan, CHECK.work, CHECK.replay
