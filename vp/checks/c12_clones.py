"""C12 Cloned framers run like their originals and never share relative state.

Generator (Hypothesis draws the parameters of a script template): a driver framer counts
ticks in an absolute share; a moot framer M (2-4 frames; framer-relative and frame-relative
puts / incs in enter / recur / exit contexts; transitions on the driver's absolute counter,
`repeat`, `timeout`; optional `done me`; optionally a nested clone `aux N as t` of a second
moot N) is cloned by a main framer as named clones (`aux M as tag [via inode]`) and insular
clones (`aux M as mine`) in one or two frames, and optionally reared at run time
(`rear M as mine be aux in frame F`, 1-3 times) and razed (`raze all|first|last in frame F`)
at generated ticks, with the main framer leaving and re-entering the frames.
Oracle:
 (a) metamorphic: for every clone (static or reared) a second script is built in which M is a
     plain auxiliary (`framer M be aux`, `aux M` in the clone's frame, every other clone clause
     replaced by a placeholder line so that line numbers are unchanged); the clone's complete
     event history (frames entered/exited/recurred, actions, conditions, per tick) with the
     clone name mapped to M must equal M's history in that script, and the clone's relative
     store data (paths mapped the same way) must equal M's;
 (b) relative store paths of distinct clones are pairwise disjoint and every relative share
     mentioned by M exists once per clone;
 (c) raze: exactly the razeable (reared) insular clones selected by all|first|last in the
     named frame disappear from the framer registry and produce no event afterwards; static
     insular and named clones are untouched and still run when their frame is re-entered.
"""
from hypothesis import strategies as st

from vp.core.acc import Acc
from vp.core.hyp import campaign, Outcome, Budget
from vp.flo.run import run_text
from vp.flo.engine import all_events

PROPERTY = "C12"
LEVEL = "exploration"

PLACEHOLDER = "print x"


@st.composite
def template(draw):
    nfr = draw(st.integers(2, 4))
    body = []
    for i in range(nfr):
        acts = []
        for _ in range(draw(st.integers(0, 3))):
            ctx = draw(st.sampled_from(["enter", "recur", "exit"]))
            k = draw(st.sampled_from(["putf", "incf", "putfr", "incm", "incm", "putr"]))
            v = draw(st.integers(1, 3))
            acts.append([ctx, k, v])
        if i + 1 < nfr:
            tr = draw(st.sampled_from([["abs", draw(st.integers(1, 9))], ["repeat", draw(st.integers(0, 3))],
                                       ["timeout", draw(st.sampled_from(["0.125", "0.25", "0.375"]))], ["cnt", draw(st.integers(1, 4))],
                                       ["m", draw(st.integers(1, 4))],
                                       ["elapsed", draw(st.sampled_from(["0.125", "0.25", "0.5"]))], ["recurred", draw(st.integers(1, 4))],
                                       # the implicit framer relative goal: `set elapsed|recurred to x` + `if .. >= goal`
                                       ["goal", draw(st.sampled_from(["elapsed", "recurred"])), draw(st.integers(1, 4))],
                                       ["markgate", draw(st.integers(2, 10)), draw(st.sampled_from(["changed", "updated"]))]]))
        else:
            tr = draw(st.sampled_from([None, ["done"], ["loop", draw(st.integers(2, 9))]]))
        acts_done = draw(st.booleans()) if i + 1 == nfr else False
        # an entry guard on clone-relative data: `let me if cnt of framer >= v` (a benter act, cloned with the frame)
        guard = draw(st.sampled_from([None, None, None, 1, 2, 4, 7])) if i > 0 else None
        body.append({"acts": acts, "tr": tr, "guard": guard})
    nested = draw(st.sampled_from([None, {"tag": "inner", "frame": draw(st.integers(0, nfr - 1)),
                                          "via": draw(st.sampled_from([None, "me.y", "y", "main"])),
                                          "twin": draw(st.sampled_from([None, "innertwo", "mine"]))}]))
    clones = []
    for j in range(draw(st.integers(1, 3))):
        clones.append({"frame": draw(st.sampled_from(["f1", "f1", "f2"])),
                       "tag": draw(st.sampled_from(["mine", "c%d" % j])),
                       "via": draw(st.sampled_from([None, "ino%d" % j, "me.ino%d" % j, "ino%d" % j]))})
    rear = None
    if draw(st.integers(0, 2)):
        rear = {"n": draw(st.integers(1, 3)), "raze": draw(st.sampled_from([None, "all", "first", "last", "last"])),
                "static_in_f4": draw(st.integers(0, 2)) > 0,
                # several raze verbs in one pass: more razes than reared clones are left
                "razes": draw(st.sampled_from([1, 1, 2, 3, 4])),
                # raze from an under frame of f4: the razed clones are still entered (and may have completed with `done me`)
                "inside": draw(st.booleans())}
    # inode-relative data (`m of me`) is only private to a clone when every clone has its own inode:
    # either the template uses it and then gives every static clone a distinct `via` (nested: me-relative)
    # and rears nothing, or it does not use it at all
    use_m = draw(st.booleans())
    if any(fr["tr"] and fr["tr"][0] == "markgate" for fr in body):
        # a reared clone is a NEW framer with fresh marks each time it is reared, the long lived original it is compared
        # with keeps the marks of its earlier entries: marker conditions are only compared for static clones
        if rear and draw(st.booleans()):
            for fr in body:
                if fr["tr"] and fr["tr"][0] == "markgate":
                    fr["tr"] = ["abs", fr["tr"][1]]
        else:
            rear = None
    # the moot may declare an inode of its own (`framer org be moot via box of framer`): every clone inherits it relative
    # to ITS OWN name, so inode-relative data is private to each clone - also to clones reared at run time
    orgvia = draw(st.booleans()) if (use_m and rear) else False
    if use_m and rear and not orgvia and draw(st.booleans()):
        use_m = False
    if use_m and orgvia:
        for j, c in enumerate(clones):
            c["via"] = "mine"     # (`via mine` keeps the moot's inode; no clause or another path would replace it)
        if nested:
            nested["via"] = "me.y"
    elif use_m:
        rear = None
        for j, c in enumerate(clones):
            c["via"] = draw(st.sampled_from(["ino%d" % j, "me.ino%d" % j]))
        if nested:
            nested["via"] = "me.y"
    else:
        for fr in body:
            fr["acts"] = [a for a in fr["acts"] if a[1] != "incm"]
            if fr["tr"] and fr["tr"][0] == "m":
                fr["tr"] = ["abs", fr["tr"][1]]
        if nested and nested.get("via") == "main":
            nested["via"] = None
    # frame hierarchy inside the cloned framer: an enclosing top frame, optionally with an explicit primary
    # under frame chosen with the `under` verb (the clone must start in the same outline as its original)
    hier = draw(st.sampled_from([None, None, {"under": None}, {"under": draw(st.integers(0, nfr - 1))},
                                 {"under": draw(st.integers(0, nfr - 1))}]))
    if hier:
        hier = dict(hier, re=draw(st.booleans()))
    # a second main framer that clones the same moot with an insular tag (its clone gets the same TAG as the first
    # insular clone of `main`, under another name): marks and other per-clone state must be kept per clone, not per tag
    second = draw(st.sampled_from([None, {"tb": draw(st.integers(1, 6)), "tb2": draw(st.integers(1, 6))}]))
    return {"body": body, "nested": nested, "clones": clones, "rear": rear, "use_m": use_m, "hier": hier,
            "second": second, "ek": draw(st.integers(1, 8)),
            "t1": draw(st.integers(1, 6)), "t2": draw(st.integers(1, 6)), "t3": draw(st.integers(1, 5)), "t4": draw(st.integers(1, 5)),
            "loop": draw(st.booleans()), "ticks": draw(st.integers(8, 26)), "mainvia": draw(st.booleans()), "orgvia": orgvia,
            "framevia": orgvia and draw(st.booleans())}


def moot_lines(name, body, nested, sched, use_m=False, hier=None, framevia=False):
    L = ["framer %s be %s" % (name, sched)]
    if hier:
        L.append("frame %sT" % name[0].upper())
        if hier.get("under") is not None:
            L.append("under %s%d" % (name[0].upper(), hier["under"]))
        # relative shares are initialised before they are read: with an explicit primary under the first body
        # frame may never be entered, so the initialisation sits in the top frame
        L += ["enter", "put 1 into top of framer", "put 0 into cnt of framer"]
        if use_m:
            L.append("put 0 into m of me")
        L += ["recur", "inc top of framer with 1"]
        if hier.get("re"):
            # re-exit / re-enter actions of the enclosing frame (run at every transition between its under frames)
            L += ["rexit", "inc top of framer with 10", "renter", "inc top of framer with 100", "exit", "inc top of framer with 1000"]
    for i, fr in enumerate(body):
        L.append("frame %s%d" % (name[0].upper(), i) + (" in %sT" % name[0].upper() if hier else "") +
                 (" via fr%d" % i if framevia else ""))
        if fr.get("guard") is not None and not hier:
            # (flat bodies only: there the guarded frame is never part of the first outline, whose entry checks run
            # before `cnt` is initialised)
            L.append("let me if cnt of framer >= %d" % fr["guard"])
        if i == 0 and not hier:
            L.append("put 0 into cnt of framer")   # relative shares are initialised before they are read
            if use_m:
                L.append("put 0 into m of me")
        if nested and nested["frame"] == i:
            L.append("aux inner0 as %s" % nested["tag"] + (" via %s" % nested["via"] if nested.get("via") else ""))
            if nested.get("twin"):
                # a second nested clone right next to the first one in the same frame
                L.append("aux inner0 as %s" % nested["twin"] + (" via %s2" % nested["via"] if nested.get("via") else ""))
        cur = "native"
        for ctx, k, v in fr["acts"]:
            if ctx != cur:
                L.append(ctx)
                cur = ctx
            if k == "putf":
                L.append("put %d into cnt of framer" % v)
            elif k == "incf":
                L.append("inc cnt of framer with %d" % v)
            elif k == "putfr":
                L.append("put %d into st of frame" % v)
            elif k == "incm":
                L.append("inc m of me with %d" % v)
            elif k == "putr":
                L.append("put %d into r" % v)
            else:
                L.append("inc st of frame with %d" % v)
        tr = fr["tr"]
        if tr:
            if tr[0] == "abs":
                L.append("go next if .d.a >= %d" % tr[1])
            elif tr[0] == "repeat":
                L.append("repeat %d" % tr[1])
            elif tr[0] == "timeout":
                L.append("timeout %s" % tr[1])
            elif tr[0] == "goal":
                if cur != "enter":
                    L.append("enter")
                    cur = "enter"
                L.append("set %s to %s" % (tr[1], 0.125 * tr[2] if tr[1] == "elapsed" else tr[2]))
                L.append("go next if %s >= goal" % tr[1])
            elif tr[0] == "elapsed":
                L.append("go next if elapsed >= %s" % tr[1])
            elif tr[0] == "recurred":
                L.append("go next if not recurred < %d" % tr[1])
            elif tr[0] == "cnt":
                L.append("go next if cnt of framer >= %d" % tr[1])
            elif tr[0] == "m":
                L.append("go next if m of me >= %d" % tr[1])
            elif tr[0] == "markgate":
                # the marker need is only evaluated from tick tr[1] on; what it reports depends on the mark taken
                # when THIS clone entered the frame
                L.append("go next if .d.a >= %d and .d.e is %s" % (tr[1], tr[2]))
            elif tr[0] == "done":
                L.append("native")
                L.append("done me")
            elif tr[0] == "loop":
                L.append("go %s0 if .d.a >= %d" % (name[0].upper(), tr[1]))
    return L


def script(tp, baseline=None):
    """baseline = None: the clone script. baseline = ("static", j) / ("rear",): script in which M is a plain
    aux used where that clone is; all other clone clauses are placeholders (same line count)."""
    L = ["house h", "init .d.a with 0", "init .d.e with 0", "framer drv be active in front", "frame drva", "recur", "inc .d.a with 1",
         "go drvb if .d.a >= %d" % tp.get("ek", 99), "frame drvb", "enter", "put 5 into .d.e", "recur", "inc .d.a with 1"]
    L += ["framer main be active first f1" + (" via top" if tp.get("mainvia") else "")]
    rear = tp["rear"]
    for fname in ("f1", "f2"):
        L.append("frame %s" % fname)
        for j, c in enumerate(tp["clones"]):
            if c["frame"] != fname:
                continue
            if baseline is None:
                s = "aux org as %s" % c["tag"]
                if c["via"]:
                    s += " via %s" % c["via"]
                L.append(s)
            elif baseline == ("static", j):
                L.append("aux org")
            else:
                L.append(PLACEHOLDER)
        L.append("go next if .d.a >= %d" % (tp["t1"] if fname == "f1" else tp["t1"] + tp["t2"]))
    # f3: rear, f4: holds reared clones, f5: raze then maybe loop back to f4 / f1
    L.append("frame f3")
    if rear:
        for i in range(rear["n"]):
            L.append("rear org as mine be aux in frame f4" if baseline is None else PLACEHOLDER)
    L.append("go next")
    L.append("frame f4")
    L.append("aux org" if baseline == ("rear",) else PLACEHOLDER)
    if rear and rear.get("static_in_f4"):
        L.append("aux org as mine" + (" via mine" if tp.get("orgvia") else "") if baseline is None else PLACEHOLDER)
    inside = bool(rear and rear.get("inside"))
    if inside:
        # the raze runs in an under frame of f4 while f4 (and so every clone it holds) stays entered
        L.append("frame f4a in f4")
    L.append("go next if elapsed >= %s" % (0.125 * tp["t3"]))
    L.append("frame f4b in f4" if inside else "frame f5")
    if rear and rear["raze"]:
        L.append("enter")
        for _ in range(rear.get("razes", 1)):
            L.append(("raze %s in frame f4" % rear["raze"]) if baseline is None else PLACEHOLDER)
    if inside:
        L.append("go next if elapsed >= 0.125")
        L.append("frame f5")
    L.append("go f4 if elapsed >= %s" % (0.125 * tp["t4"]) if tp["loop"] else "go f1 if elapsed >= %s" % (0.125 * tp["t4"]))
    sec = tp.get("second")
    if sec:
        L += ["framer mainb be active first g1", "frame g1", "go next if .d.a >= %d" % sec["tb"], "frame g2"]
        if baseline is None:
            L.append("aux org as mine" + (" via mine" if tp.get("orgvia") else (" via inob" if tp.get("use_m") else "")))
        elif baseline == ("second",):
            L.append("aux org")
        else:
            L.append(PLACEHOLDER)
        L += ["go next if .d.a >= %d" % (sec["tb"] + sec["tb2"]), "frame g3", "print g"]
    sched = "moot" if baseline is None else "aux"
    # (with an inode of the moot's own, its frames may have inodes too: `frame O0 via fr0` - plain relative data of a
    # frame then lives under framer inode + frame inode, in the clone as in the original)
    ml = moot_lines("org", tp["body"], tp["nested"], sched, tp.get("use_m"), tp.get("hier"), framevia=bool(tp.get("framevia")))
    if tp.get("orgvia"):
        ml[0] += " via box of framer"
    L += ml
    if tp.get("use_m"):
        L += ["framer inner0 be moot", "frame I0", "put 0 into m of me", "recur", "inc m of me with 1", "go next if m of me >= 3",
              "frame I1", "done me"]
    else:
        L += ["framer inner0 be moot", "frame I0", "put 0 into cnt of framer", "recur", "inc cnt of framer with 1",
              "go next if cnt of framer >= 3", "frame I1", "done me"]
    return "\n".join(L) + "\n"


def clone_names(tp):
    """expected framer names of the static clones, in clause order per main framer"""
    names = {}
    n_ins = 0
    for j, c in enumerate(tp["clones"]):
        if c["tag"] == "mine":
            n_ins += 1
    # insular tags are numbered in script order of the clauses (f1 clauses first, then f2, then f4)
    order = [j for f in ("f1", "f2") for j, c in enumerate(tp["clones"]) if c["frame"] == f]
    k = 0
    for j in order:
        c = tp["clones"][j]
        if c["tag"] == "mine":
            k += 1
            names[j] = "main_org%d" % k
        else:
            names[j] = "main_%s" % c["tag"]
    return names, k


def history(trace, prefix):
    """events of the framer `prefix` and of framers nested below it (prefix_...), with the prefix replaced by @"""
    out = []
    for t, i, e in all_events(trace):
        if len(e) > 1 and isinstance(e[1], str) and (e[1] == prefix or e[1].startswith(prefix + "_")):
            e2 = list(e)
            e2[1] = "@" + e[1][len(prefix):]
            out.append((t, e2))
    return out


def store_of(trace, prefix):
    out = {}
    for p, v in (trace.get("store") or {}).items():
        segs = p.split(".")
        if len(segs) > 1 and segs[0] == "framer" and (segs[1] == prefix or segs[1].startswith(prefix + "_")):
            segs[1] = "@" + segs[1][len(prefix):]
            if segs[2:3] == ["state"]:
                continue
            out[".".join(segs)] = v
    return out


def shift(hist, t0):
    return [(t - t0, e) for t, e in hist]


def check_case(tp):
    fails = []
    info = {"clones": 0, "reared": 0, "razed": 0, "concurrent": False}
    ticks = tp["ticks"]
    t = run_text(script(tp), ticks)
    if t["build"] != "True":
        return [("build-%s" % t["build"], "clone script did not build: %s %s\n%s" % (t["build"], t["detail"], script(tp)))], info
    if t.get("exc"):
        return [("run-exception-%s" % t["exc"], "Skedder.run raised %s %s\n%s" % (t["exc"], t.get("exc_detail"), script(tp)))], info
    names, nins = clone_names(tp)
    # (a) static clones vs plain-aux baseline
    seen_prefixes = []
    for j, name in names.items():
        info["clones"] += 1
        b = run_text(script(tp, ("static", j)), ticks)
        if b["build"] != "True" or b.get("exc"):
            fails.append(("baseline-build", "baseline script for clone %d did not build/run: %s %s %s\n%s" % (
                j, b["build"], b["detail"], b.get("exc"), script(tp, ("static", j)))))
            continue
        h1 = history(t, name)
        h2 = history(b, "org")
        if not h1 and h2:
            fails.append(("clone-missing", "clone %s (clause %d) produced no events; as a plain aux the original produces %d\n%s" % (name, j, len(h2), script(tp))))
            continue
        if h1 != h2:
            k = 0
            while k < min(len(h1), len(h2)) and h1[k] == h2[k]:
                k += 1
            fails.append(("clone-differs-from-original", "clone %s: event %d is %r, the original used as a plain aux in the same place gives %r\n%s" % (
                name, k, h1[k] if k < len(h1) else None, h2[k] if k < len(h2) else None, script(tp))))
        s1, s2 = store_of(t, name), store_of(b, "org")
        if s1 != s2:
            fails.append(("clone-relative-data-differs", "clone %s relative store data %r, the original's %r\n%s" % (name, s1, s2, script(tp))))
        seen_prefixes.append(name)
    # (a2) the insular clone of the second main framer vs the original as its plain aux
    if tp.get("second"):
        info["second"] = True
        name = "mainb_org1"
        b = run_text(script(tp, ("second",)), ticks)
        if b["build"] != "True" or b.get("exc"):
            fails.append(("baseline-build", "baseline script for the clone of the second main framer did not build/run: %s %s %s\n%s" % (
                b["build"], b["detail"], b.get("exc"), script(tp, ("second",)))))
        else:
            h1 = history(t, name)
            h2 = history(b, "org")
            if h1 != h2:
                k = 0
                while k < min(len(h1), len(h2)) and h1[k] == h2[k]:
                    k += 1
                fails.append(("clone-differs-from-original", "clone %s (second main framer): event %d is %r, the original used as a plain aux in the same place gives %r\n%s" % (
                    name, k, h1[k] if k < len(h1) else None, h2[k] if k < len(h2) else None, script(tp))))
            s1, s2 = store_of(t, name), store_of(b, "org")
            if s1 != s2:
                fails.append(("clone-relative-data-differs", "clone %s relative store data %r, the original's %r\n%s" % (name, s1, s2, script(tp))))
            seen_prefixes.append(name)
    # (b) disjoint relative paths
    allp = {}
    for name in seen_prefixes:
        for p in (t.get("store") or {}):
            segs = p.split(".")
            if len(segs) > 1 and segs[0] == "framer" and segs[1] == name:
                allp.setdefault(p, []).append(name)
    for p, who in allp.items():
        if len(who) > 1:
            fails.append(("clones-share-path", "store path %s is used by clones %r" % (p, who)))
    if len(set(names.values())) != len(names):
        fails.append(("clone-name-collision", "clone names %r" % (names,)))
    # concurrency class: two clones in the same frame
    frames = [c["frame"] for c in tp["clones"]]
    info["concurrent"] = len(frames) != len(set(frames))
    # (c) rear / raze
    rear = tp["rear"]
    if rear:
        # reared clones are named main_org<k> continuing after the static insular tags of the framer
        rear_events = [(tk, e) for tk, i, e in all_events(t) if e[0] == "act" and e[5] == "rear"]
        raze_events = [(tk, e) for tk, i, e in all_events(t) if e[0] == "act" and e[5] == "raze"]
        candidates = sorted({e[1] for tk, i, e in all_events(t) if len(e) > 1 and isinstance(e[1], str) and e[1].startswith("main_org")
                             and "_" not in e[1][len("main_"):]} - set(names.values()))
        static_f4 = None
        if rear.get("static_in_f4"):
            static_f4 = "main_org%d" % (nins + 1)
            candidates = [c for c in candidates if c != static_f4]
        info["reared"] = len(candidates)
        if rear_events:
            b = run_text(script(tp, ("rear",)), ticks)
            if b["build"] == "True" and not b.get("exc"):
                h2 = history(b, "org")
                # a reared clone only lives from the first entry of f4 AFTER it was reared until it is razed;
                # compare its history with the original's history restricted to the same entries of f4
                for name in candidates:
                    h1 = history(t, name)
                    if not h1:
                        continue
                    t_first = h1[0][0]
                    t_last = h1[-1][0]
                    if rear.get("inside") and raze_events:
                        # razed while f4 stays entered: the original lives on and the freed name may be reared again;
                        # only the life before the first raze is compared
                        t_last = min(t_last, min(tk for tk, e in raze_events))
                    ref = [(tk, e) for tk, e in h2 if t_first <= tk <= t_last]
                    # razed in the middle of a tick: compare only complete ticks before the last one
                    h1c = [(tk, e) for tk, e in h1 if tk < t_last]
                    refc = [(tk, e) for tk, e in ref if tk < t_last]
                    if h1c != refc:
                        k = 0
                        while k < min(len(h1c), len(refc)) and h1c[k] == refc[k]:
                            k += 1
                        fails.append(("reared-clone-differs-from-original", "reared clone %s: event %d is %r, the original as a plain aux of f4 gives %r\n%s" % (
                            name, k, h1c[k] if k < len(h1c) else None, refc[k] if k < len(refc) else None, script(tp))))
        if raze_events and rear["raze"]:
            # model: reared clones in rear order; each raze removes all / first / last remaining reared clone
            order = []
            for tk, i, e in all_events(t):
                if e[0] == "enterall" and e[1] in candidates and e[1] not in order:
                    order.append(e[1])
            # clones reared but never entered keep their rear order by number
            for c in candidates:
                if c not in order:
                    order.append(c)
            order.sort(key=lambda n: int(n[len("main_org"):]))
            alive = list(order)
            # every rear after a raze adds new ones: replay rear/raze events in time order
            alive = []
            nxt = nins + (2 if rear.get("static_in_f4") else 1)
            razed_at = {}
            evs = [(tk, i, e) for tk, i, e in all_events(t) if e[0] == "act" and e[5] in ("rear", "raze")]
            evs.sort(key=lambda x: (x[0], x[1]))
            for tk, i, e in evs:
                if e[5] == "rear":
                    # name = first unused main_org<k>
                    k = 1
                    used = set(names.values()) | set(alive) | ({static_f4} if static_f4 else set())
                    while "main_org%d" % k in used:
                        k += 1
                    alive.append("main_org%d" % k)
                else:
                    if rear["raze"] == "all":
                        gone = list(alive)
                    elif rear["raze"] == "first":
                        gone = alive[:1]
                    else:
                        gone = alive[-1:]
                    for g in gone:
                        alive.remove(g)
                        razed_at.setdefault(g, []).append((tk, i))
                    info["razed"] += len(gone)
            final_names = set(t.get("names") or [])
            for g in set(candidates) | set(alive):
                pass
            for name in alive:
                if name not in final_names:
                    fails.append(("raze-removed-too-much", "reared clone %s should still exist after the run (registry %r)\n%s" % (name, sorted(final_names), script(tp))))
            for name in razed_at:
                if name in final_names and name not in alive:
                    fails.append(("razed-name-not-free", "razed clone %s is still registered (registry %r)\n%s" % (name, sorted(final_names), script(tp))))
            # a razed clone is out of the frame for good: whatever it had entered must have been exited, also when it
            # had already completed (`done me`) but was still entered with its main frame
            for name in sorted(razed_at):
                bal = {}
                for tk, e in history(t, name):
                    if e[0] == "f" and e[3] in ("enter", "exit"):
                        bal[(e[1], e[2])] = bal.get((e[1], e[2]), 0) + (1 if e[3] == "enter" else -1)
                left = sorted(k for k, v in bal.items() if v > 0)
                if left and name not in alive:
                    fails.append(("razed-clone-left-entered", "razed clone %s: frames %r were entered but never exited (exit actions not run)\n%s" % (
                        name, ["%s%s" % (name, a[1:]) + "." + b for a, b in left], script(tp))))
            for name in list(names.values()) + ([static_f4] if static_f4 else []):
                if name not in final_names:
                    fails.append(("raze-removed-non-razeable", "static clone %s disappeared from the registry %r\n%s" % (name, sorted(final_names), script(tp))))
    return fails, info


def plan(tier):
    n, count = (8, 40) if tier == "quick" else (16, 1500)
    return [{"i": i, "n": n, "count": count} for i in range(n)]


def work(shard, seed, tier):
    acc = Acc()

    def execute(tp):
        fails, info = check_case(tp)
        nt = info["concurrent"] or (info["reared"] > 0 and info["razed"] > 0)
        cl = ["clones=%d" % info["clones"]]
        if info["concurrent"]:
            cl.append("two-clones-one-frame")
        if info["reared"]:
            cl.append("reared")
        if info["razed"]:
            cl.append("razed")
        if tp["nested"]:
            cl.append("nested-clone")
        if info.get("second"):
            cl.append("second-main-framer-clone")
        if any(fr["tr"] and fr["tr"][0] == "markgate" for fr in tp["body"]):
            cl.append("marker-gated-transition")
        return Outcome(fails, nontrivial=nt, classes=cl, key=tp, sample={"script": script(tp)})
    campaign(acc, template(), execute, shard["count"], seed * 1000 + shard["i"], budget=Budget(200 if tier == "quick" else 1500),
             to_case=lambda tp: {"tp": tp}, shrink_examples=150)
    return acc


def replay(case):
    fails, info = check_case(case["tp"])
    return fails


RULE = ("Hypothesis-drawn parameters of a clone script template (moot framer with framer-/frame-relative data, 1-3 named/insular clones in 1-2 frames, optional "
        "nested clone, optional rear x1-3 and raze all|first|last, main framer looping through the frames); oracle = metamorphic comparison of every clone's "
        "event history and relative store data with the same framer used as a plain aux in the same place (second build, same line numbers), disjoint "
        "relative paths, and a rear/raze model of which clones remain registered. non-trivial = two clones of one original in the same frame, or a rear "
        "followed by a raze; distinct = distinct template parameters")
ASSUMPTIONS = ["clone bodies read only absolute shares written by the driver and their own relative shares, so 'the same inputs' is well defined",
               "clone names are derived as <main>_<tag> (named) and <main>_<original><n> (insular / reared)",
               "a reared clone is compared with the original over complete ticks of its own lifetime only"]
META = {"level": LEVEL,
        "text": "Each generated clone configuration is built twice (clone vs. the original used directly) through the real builder and run; complete per-tick histories and relative store data are compared, and rear/raze outcomes are checked against a small model.",
        "note": "One script template with drawn parameters rather than the free program grammar; clones nested two levels at most.",
        "technique": "Hypothesis-parameterised script template + metamorphic (clone vs direct aux) comparison of histories and store paths + rear/raze model",
        "design_ref": "DESIGN.md section 3, C12"}
