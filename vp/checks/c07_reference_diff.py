"""C07 Framer runs agree with a reference interpreter of FloScript semantics.

Generator: (a) Hypothesis-generated well-formed programs from the full grammar of
vp.flo.gen (houses with several active/inactive/aux/slave framers, nested frames,
go/timeout/repeat, needs on shares and clocks, let guards, actions in every context,
put/inc/copy/set, plain and conditional auxiliaries, bids, fiats, done);
(b) bounded-exhaustive enumeration of a micro-grammar (1 framer, <= 3 frames, all
nestings, <= 1 data act and <= 1 transition per frame from small alphabets).
Oracle: per-tick equality of the recorded event sequence (every executed act with its
context and result, every need evaluation, every frame enter/exit/renter/rexit/recur/
precur, every control sent to a tasker and the status + active outline it yields) and of
the end-of-tick state (status, desire, active frame, active outline, done, elapsed,
recurred, period of every framer; value and stamp of every share) between real ioflo and
the independent reference interpreter vp.flo.ref.
"""
import itertools

from vp.core.acc import Acc
from vp.core.hyp import campaign, Outcome, Budget
from vp.flo import gen
from vp.flo.engine import run_case, prog_key

PROPERTY = "C07"
LEVEL = "exploration"
RULE = ("Hypothesis-generated well-formed FloScript programs (vp.flo.gen full grammar, tick-bounded runs) plus "
        "bounded-exhaustive micro-grammar programs (1 framer, <=3 frames, all nestings, <=1 data act and <=1 "
        "transition per frame); oracle = event-by-event and state-by-state equality with the reference "
        "interpreter; non-trivial = the run takes >= 2 transitions and executes acts in >= 3 different "
        "contexts; distinct = distinct program AST")
ASSUMPTIONS = [
    "the reference interpreter vp.flo.ref is an independent re-statement of the documented semantics (DESIGN.md Appendix A); "
    "a misunderstanding shared by it and ioflo would be invisible (mitigated by the direct invariants of C05/C06/C08/C09/C10)",
    "all store shares used by generated programs are initialised with `init` (documented precondition of copy/inc/needs)",
    "tick periods and framer periods are dyadic so binary floats are exact (decimal periods are C02/C11's subject)",
    "children of a frame are ordered by the earliest declared frame of each child's subtree (ioflo resolves over-links in declaration order); generated programs declare parents first",
]
META = {
    "level": LEVEL,
    "text": "Differential testing against an executable reference semantics over thousands of generated programs per run plus an "
            "exhaustively enumerated micro-grammar: any divergence in action order, transition choice, outline, clocks or store "
            "values at any tick is reported with the program as replay.",
    "note": "Trusts the harness reference interpreter (written from docstrings/property statements, validated on the fixed tree); explores bounded program sizes and tick counts only.",
    "technique": "differential testing vs reference interpreter over Hypothesis-generated and bounded-exhaustive FloScript programs",
    "design_ref": "DESIGN.md section 3, C07",
}


SHARE_PROFILE = {"driver_cmp": True, "aux_share": True, "driver": True, "aux_policy": "clean",
                 "aux_modes": ["plain", "plain", "cond"], "auxes": (1, 3), "frames": (2, 6),
                 "kinds": {"go": 7, "aux": 4}, "needs": {"cmp": 8}}


def outcome_of(case):
    r = run_case(case)
    fails = []
    if r["diff"]:
        fails.append(r["diff"])
    f = r["feats"] or {}
    nt = f.get("go_true", 0) >= 2 and len(f.get("ctxs", [])) >= 3
    classes = []
    if f:
        classes.append("transitions>=2" if f["go_true"] >= 2 else ("transitions=1" if f["go_true"] == 1 else "transitions=0"))
        if f["auxif_true"]:
            classes.append("cond-aux-ran")
        if f["fiat"]:
            classes.append("fiat")
        if f["bid"]:
            classes.append("bid")
        if f["guard_false"]:
            classes.append("guard-refused")
        if f["renter"]:
            classes.append("renter/rexit")
        classes.append("ctxs=%d" % len(f["ctxs"]))
    return fails, nt, classes, r


# ------------------------------------------------------------------ micro grammar
def micro_space(nframes):
    names = ["a", "b", "c"][:nframes]
    overs = [[None]] + [[None] + names[:i] for i in range(1, nframes)]
    datas = [None] + [{"kind": "inc", "dst": ".n.a", "val": 1, "ctx": c} for c in ("enter", "recur", "exit")]
    per_frame = []
    for i, n in enumerate(names):
        trans = [None]
        needsets = [[], [{"kind": "cmp", "state": ".n.a", "op": ">=", "goal": 1, "neg": False}],
                    [{"kind": "cmp", "state": ".n.a", "op": ">=", "goal": 3, "neg": False}],
                    [{"kind": "elapsed", "op": ">=", "goal": 0.25, "neg": False}]]
        for far in names + ["me"]:
            for ns in needsets:
                trans.append({"kind": "go", "far": far, "needs": ns})
        if i + 1 < nframes:
            trans.append({"kind": "timeout", "t": "0.25"})
            trans.append({"kind": "repeat", "n": 2})
        per_frame.append(list(itertools.product(overs[i], datas, trans)))
    return names, per_frame


def micro_program(names, combo):
    frames = []
    for n, (over, data, tr) in zip(names, combo):
        acts = []
        if data:
            acts.append(dict(data))
        if tr:
            acts.append({k: (list(v) if isinstance(v, list) else v) for k, v in tr.items()})
        frames.append({"name": n, "over": over, "acts": acts})
    return {"period": "0.125", "ticks": 8, "inits": [[".n.a", 0]],
            "framers": [{"name": "m", "sched": "active", "order": None, "period": None, "first": None, "frames": frames}]}


def micro_size(nframes):
    names, per = micro_space(nframes)
    n = 1
    for p in per:
        n *= len(p)
    return n


def plan(tier):
    if tier == "quick":
        shards = [{"part": "rand", "i": i, "n": 8, "count": 120} for i in range(8)]
        shards += [{"part": "micro", "frames": 2, "i": i, "n": 4, "stride": 1} for i in range(4)]
        shards += [{"part": "micro", "frames": 3, "i": i, "n": 4, "stride": 1500} for i in range(4)]
    else:
        shards = [{"part": "rand", "i": i, "n": 16, "count": 6000} for i in range(16)]
        shards += [{"part": "micro", "frames": 2, "i": i, "n": 2, "stride": 1} for i in range(2)]
        shards += [{"part": "micro", "frames": 3, "i": i, "n": 30, "stride": 6} for i in range(30)]
    return shards


def work(shard, seed, tier):
    acc = Acc()
    budget = Budget(200 if tier == "quick" else 1500)
    if shard["part"] == "rand":
        def execute(prog):
            fails, nt, classes, r = outcome_of({"prog": prog})
            return Outcome(fails, nontrivial=nt, classes=classes, key=prog_key(prog),
                           sample={"script": r["text"], "ticks_run": r["real"].get("nticks")})
        # odd shards: every auxiliary really used, and plain originals listed by two frames of their
        # owner (direct transitions between two main frames of the same original)
        strat = gen.program(SHARE_PROFILE) if shard["i"] % 2 else gen.program()
        campaign(acc, strat, execute, shard["count"], seed * 1000 + shard["i"],
                 to_case=lambda p: {"prog": p}, budget=budget, shrink_examples=300)
        return acc
    names, per = micro_space(shard["frames"])
    stride = shard["stride"]
    total = 0
    # sampled slices start at an offset chosen by the seed; stride 1 = the whole space
    offset = (seed * 7919) % stride
    for idx, combo in enumerate(itertools.product(*per)):
        if stride > 1 and idx % stride != offset:
            continue
        total += 1
        if total % shard["n"] != shard["i"]:
            continue
        if budget.out():
            acc.budget_hit = True
            break
        prog = micro_program(names, combo)
        fails, nt, classes, r = outcome_of({"prog": prog})
        acc.case(key=prog_key(prog), nontrivial=nt, classes=["micro%d" % shard["frames"]] + classes,
                 sample={"script": r["text"]} if total % 997 == 1 else None)
        for sig, what in fails:
            acc.fail(sig, what, {"prog": prog})
    if stride == 1:
        acc.exhaustive = True
        acc.note("micro-grammar with %d frames enumerated completely (%d programs)" % (shard["frames"], micro_size(shard["frames"])))
    else:
        acc.note("micro-grammar with %d frames: every %d-th program of %d (offset from seed)" % (
            shard["frames"], stride, micro_size(shard["frames"])))
    return acc


def replay(case):
    fails, nt, classes, r = outcome_of(case)
    return fails
