"""C05 A running framer's active frames are exactly its active frame's outline.

Generator: Hypothesis programs with deep frame forests (nesting via `in`, several children),
transitions of every shape, conditional auxiliaries (dedicated aux framers) and stop/abort
bids. Oracle: after EVERY framer run (every control sent to a framer's runner, by the
scheduler or by a fiat) framer.actives is compared with the chain computed from the AST:
top ancestor .. active frame .. primary children .. leaf, cut at the main frame of a running
conditional auxiliary; stopped/aborted/readied framers must have none. Plus the reference
interpreter differential on the same programs.
"""
from vp.flo.profcheck import ProfileCheck, count_events

PROPERTY = "C05"
LEVEL = "exploration"
PROFILE = {"aux_policy": "clean", "auxes": (0, 2), "frames": (2, 8), "depth": 4, "acts": (0, 4), "slaves": (0, 1),
           "kinds": {"data": 3, "go": 8, "let": 1, "timeout": 1, "repeat": 1, "aux": 1, "auxif": 4, "bid": 3, "done": 2, "fiat": 2}}


def nontrivial(prog, r):
    deep = count_events(r, lambda e: e[0] == "state" and len(e[4]) >= 2)
    return r["feats"]["go_true"] >= 2 and deep > 0


def classes(prog, r):
    f = r["feats"]
    out = ["outline-changes>=2" if f["go_true"] >= 2 else "outline-changes<2"]
    if count_events(r, lambda e: e[0] == "state" and len(e[4]) >= 3):
        out.append("depth>=3")
    if f["auxif_true"]:
        out.append("suspended-outline")
    if count_events(r, lambda e: e[0] == "send" and e[2] in ("stop", "abort") and e[3] in ("stopped", "aborted")):
        out.append("stopped-or-aborted")
    return out


CHECK = ProfileCheck(PROFILE, ["c05"], nontrivial, classes, directed=__import__("vp.flo.gen", fromlist=["x"]).suspend_scenario, directed_share=2)
RULE = ("Hypothesis-generated programs (deep frame forests, transitions, conditional auxes, stop/abort bids); after every framer "
        "run actives is compared with the AST-computed outline (cut at a running conditional aux's main frame); + reference "
        "differential. non-trivial = the outline changes >= 2 times and reaches depth >= 2; distinct = distinct program AST")
ASSUMPTIONS = ["primary child = first attached child; generated programs declare parents before children",
               "a conditional aux counts as running from the run in which its clause returned truthy until it returns falsy or its main frame exits"]
META = {"level": LEVEL,
        "text": "Every framer run of thousands of generated programs is checked against an outline computed from the script's static structure, so any drift between the active frame and the active list (transitions, suspension, stop/abort) is caught at the tick it happens.",
        "note": "Uses ioflo's own report of the active frame to compute the expected list (the active frame itself is cross-checked by the C07 differential and the C06 enter/exit bookkeeping).",
        "technique": "Hypothesis program generation + per-run history invariant against AST-computed outline + reference differential",
        "design_ref": "DESIGN.md section 3, C05"}
plan, work, replay = CHECK.plan, CHECK.work, CHECK.replay
