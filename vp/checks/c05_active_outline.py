"""C05 A running framer's active frames are exactly its active frame's outline.

Generator: Hypothesis programs with deep frame forests (nesting via `in`, several children),
transitions of every shape, conditional auxiliaries (dedicated aux framers) and stop/abort
bids. Oracle: after EVERY framer run (every control sent to a framer's runner, by the
scheduler or by a fiat) framer.actives is compared with the chain computed from the AST:
top ancestor .. active frame .. primary children .. leaf, cut at the main frame of a running
conditional auxiliary; stopped/aborted/readied framers must have none. Plus the reference
interpreter differential on the same programs.
"""
from vp.flo.profcheck import ProfileCheck, count_events

PROPERTY = "C05"
LEVEL = "exploration"
PROFILE = {"aux_policy": "clean", "auxes": (0, 2), "frames": (2, 8), "depth": 4, "acts": (0, 4), "slaves": (0, 1),
           "kinds": {"data": 3, "go": 8, "let": 1, "timeout": 1, "repeat": 1, "aux": 1, "auxif": 4, "bid": 3, "done": 2, "fiat": 2}}


def nontrivial(prog, r):
    deep = count_events(r, lambda e: e[0] == "state" and len(e[4]) >= 2)
    return r["feats"]["go_true"] >= 2 and deep > 0


def classes(prog, r):
    f = r["feats"]
    out = ["outline-changes>=2" if f["go_true"] >= 2 else "outline-changes<2"]
    if count_events(r, lambda e: e[0] == "state" and len(e[4]) >= 3):
        out.append("depth>=3")
    if f["auxif_true"]:
        out.append("suspended-outline")
    if count_events(r, lambda e: e[0] == "send" and e[2] in ("stop", "abort") and e[3] in ("stopped", "aborted")):
        out.append("stopped-or-aborted")
    return out


CHECK = ProfileCheck(PROFILE, ["c05"], nontrivial, classes, directed=__import__("vp.flo.gen", fromlist=["x"]).suspend_scenario, directed_share=2)
RULE = ("Hypothesis-generated programs (deep frame forests, transitions, conditional auxes, stop/abort bids); after every framer "
        "run actives is compared with the AST-computed outline (cut at a running conditional aux's main frame); + reference "
        "differential. non-trivial = the outline changes >= 2 times and reaches depth >= 2; distinct = distinct program AST")
ASSUMPTIONS = ["primary child = first attached child; generated programs declare parents before children",
               "a conditional aux counts as running from the run in which its clause returned truthy until it returns falsy or its main frame exits"]
META = {"level": LEVEL,
        "text": "Every framer run of thousands of generated programs is checked against an outline computed from the script's static structure, so any drift between the active frame and the active list (transitions, suspension, stop/abort) is caught at the tick it happens.",
        "note": "Uses ioflo's own report of the active frame to compute the expected list (the active frame itself is cross-checked by the C07 differential and the C06 enter/exit bookkeeping).",
        "technique": "Hypothesis program generation + per-run history invariant against AST-computed outline + reference differential",
        "design_ref": "DESIGN.md section 3, C05"}
# ------------------------------------------------------------------ the `under` verb (primary child override)
import itertools

from vp.core.acc import Acc

UNDER_FRAMES = ["work", "a", "b", "c", "d"]     # a, b, c in work; d in b


def under_script(order, target):
    L = ["house h", "framer main be active first work"]
    for f in order:
        if f == "work":
            L += ["frame work", "under %s" % target]
        elif f == "d":
            L.append("frame d in b")
        else:
            L.append("frame %s in work" % f)
    return "\n".join(L) + "\n"


def check_under(case):
    """Frame `work` names its primary child with `under <target>`; the frames are declared in any order (parent before,
    between or after its children). The active outline of the framer must run through the named child, down its own
    primary chain. -> failures"""
    from vp.flo.run import run_text
    text = under_script(case["order"], case["target"])
    tr = run_text(text, 3)
    if tr["build"] != "True" or tr.get("exc"):
        return [("under-build:%s" % (tr.get("exc") or tr["build"]), "build %s %s\n%s" % (tr["build"], tr.get("detail"), text))]
    want = ["work", case["target"]] + (["d"] if case["target"] == "b" else [])
    fails = []
    for k, tk in enumerate(tr["ticks"]):
        got = (tk["snap"]["framers"].get("main") or {}).get("actives")
        if got != want:
            fails.append(("under-override-not-primary", "frames declared in the order %r, `under %s` in frame work: after tick %d the "
                          "active frames are %r, the outline through the named primary child is %r\n%s"
                          % (case["order"], case["target"], k, got, want, text)))
            break
    return fails


def plan(tier):
    return CHECK.plan(tier) + [{"part": "under", "i": i, "n": 2} for i in range(2)]


def work(shard, seed, tier):
    if shard.get("part") != "under":
        return CHECK.work(shard, seed, tier)
    acc = Acc()
    k = 0
    for order in itertools.permutations(UNDER_FRAMES):
        for target in ("a", "b", "c"):
            k += 1
            if k % shard["n"] != shard["i"]:
                continue
            case = {"under": True, "order": list(order), "target": target}
            fails = check_under(case)
            acc.case(key=("under", order, target), nontrivial=order.index("work") > 0,
                     classes=["under-verb", "under:parent-declared-%s" % ("first" if order.index("work") == 0 else "after-children")],
                     sample={"script": under_script(order, target)} if k % 97 == 1 else None)
            for sig, what in fails:
                acc.fail(sig, what, case)
    acc.note("`under` override: all 120 declaration orders of 5 frames x 3 targets enumerated")
    return acc


def replay(case):
    if case.get("under"):
        return check_under(case)
    return CHECK.replay(case)
