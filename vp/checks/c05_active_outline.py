"""C05 A running framer's active frames are exactly its active frame's outline.

Generator: Hypothesis programs with deep frame forests (nesting via `in`, several children),
transitions of every shape, conditional auxiliaries (dedicated aux framers) and stop/abort
bids. Oracle: after EVERY framer run (every control sent to a framer's runner, by the
scheduler or by a fiat) framer.actives is compared with the chain computed from the AST:
top ancestor .. active frame .. primary children .. leaf, cut at the main frame of a running
conditional auxiliary; stopped/aborted/readied framers must have none. Plus the reference
interpreter differential on the same programs.
"""
from vp.flo.profcheck import ProfileCheck, count_events

PROPERTY = "C05"
LEVEL = "exploration"
PROFILE = {"aux_policy": "clean", "auxes": (0, 2), "frames": (2, 8), "depth": 4, "acts": (0, 4), "slaves": (0, 1),
           "kinds": {"data": 3, "go": 8, "let": 1, "timeout": 1, "repeat": 1, "aux": 1, "auxif": 4, "bid": 3, "done": 2, "fiat": 2}}


def nontrivial(prog, r):
    deep = count_events(r, lambda e: e[0] == "state" and len(e[4]) >= 2)
    return r["feats"]["go_true"] >= 2 and deep > 0


def classes(prog, r):
    f = r["feats"]
    out = ["outline-changes>=2" if f["go_true"] >= 2 else "outline-changes<2"]
    if count_events(r, lambda e: e[0] == "state" and len(e[4]) >= 3):
        out.append("depth>=3")
    if f["auxif_true"]:
        out.append("suspended-outline")
    if count_events(r, lambda e: e[0] == "send" and e[2] in ("stop", "abort") and e[3] in ("stopped", "aborted")):
        out.append("stopped-or-aborted")
    return out


CHECK = ProfileCheck(PROFILE, ["c05"], nontrivial, classes, directed=__import__("vp.flo.gen", fromlist=["x"]).suspend_scenario, directed_share=2)
RULE = ("Hypothesis-generated programs (deep frame forests, transitions, conditional auxes, stop/abort bids); after every framer "
        "run actives is compared with the AST-computed outline (cut at a running conditional aux's main frame); + reference "
        "differential. non-trivial = the outline changes >= 2 times and reaches depth >= 2; distinct = distinct program AST")
ASSUMPTIONS = ["primary child = first attached child; generated programs declare parents before children (the `under` and `forward` grids enumerate the other declaration orders)",
               "a conditional aux counts as running from the run in which its clause returned truthy until it returns falsy or its main frame exits"]
META = {"level": LEVEL,
        "text": "Every framer run of thousands of generated programs is checked against an outline computed from the script's static structure, so any drift between the active frame and the active list (transitions, suspension, stop/abort) is caught at the tick it happens.",
        "note": "Uses ioflo's own report of the active frame to compute the expected list (the active frame itself is cross-checked by the C07 differential and the C06 enter/exit bookkeeping).",
        "technique": "Hypothesis program generation + per-run history invariant against AST-computed outline + reference differential",
        "design_ref": "DESIGN.md section 3, C05"}
# ------------------------------------------------------------------ the `under` verb (primary child override)
import itertools

from vp.core.acc import Acc

UNDER_FRAMES = ["work", "a", "b", "c", "d"]     # a, b, c in work; d in b


def under_script(order, target):
    L = ["house h", "framer main be active first work"]
    for f in order:
        if f == "work":
            L += ["frame work", "under %s" % target]
        elif f == "d":
            L.append("frame d in b")
        else:
            L.append("frame %s in work" % f)
    return "\n".join(L) + "\n"


def check_under(case):
    """Frame `work` names its primary child with `under <target>`; the frames are declared in any order (parent before,
    between or after its children). The active outline of the framer must run through the named child, down its own
    primary chain. -> failures"""
    from vp.flo.run import run_text
    text = under_script(case["order"], case["target"])
    tr = run_text(text, 3)
    if tr["build"] != "True" or tr.get("exc"):
        return [("under-build:%s" % (tr.get("exc") or tr["build"]), "build %s %s\n%s" % (tr["build"], tr.get("detail"), text))]
    want = ["work", case["target"]] + (["d"] if case["target"] == "b" else [])
    fails = []
    for k, tk in enumerate(tr["ticks"]):
        got = (tk["snap"]["framers"].get("main") or {}).get("actives")
        if got != want:
            fails.append(("under-override-not-primary", "frames declared in the order %r, `under %s` in frame work: after tick %d the "
                          "active frames are %r, the outline through the named primary child is %r\n%s"
                          % (case["order"], case["target"], k, got, want, text)))
            break
    return fails


# ------------------------------------------------------------------ frames declared before their over frames
FORWARD_FRAMES = ["top", "mid", "leaf", "side"]     # mid in top, leaf in mid, side in top


def forward_script(order, start, dur):
    L = ["house h", "framer main be active first mid"]
    for f in order:
        if f == "top":
            L += ["frame top", "go side if elapsed >= %s" % (0.125 * (start + dur + 3))]
        elif f == "mid":
            L += ["frame mid in top", "aux helper if recurred >= %d" % start]
        elif f == "leaf":
            L += ["frame leaf in mid", "print leaf"]
        else:
            L += ["frame side in top", "print side"]
    L += ["framer helper be aux", "frame h0", "go h1 if recurred >= %d" % dur, "frame h1", "done me"]
    return "\n".join(L) + "\n"


def check_forward(case):
    """The frames of one tree are declared in any order (a frame may name an over frame that is declared later); frame
    mid is the main frame of a conditional auxiliary that runs for a while. In every tick the active frames are the
    outline top > mid > leaf, cut behind mid while the auxiliary runs, then top > side - exactly as when every over
    frame is declared before its under frames (the canonical declaration order is the oracle). -> failures"""
    from vp.flo.run import run_text
    ticks = case["start"] + case["dur"] + 7
    text = forward_script(case["order"], case["start"], case["dur"])
    ref = forward_script(FORWARD_FRAMES, case["start"], case["dur"])
    tr, rr = run_text(text, ticks), run_text(ref, ticks)
    for t_, x in ((tr, text), (rr, ref)):
        if t_["build"] != "True" or t_.get("exc"):
            return [("forward-build:%s" % (t_.get("exc") or t_["build"]), "build %s %s\n%s" % (t_["build"], t_.get("detail"), x))]
    got = [(tk["snap"]["framers"].get("main") or {}).get("actives") for tk in tr["ticks"]]
    want = [(tk["snap"]["framers"].get("main") or {}).get("actives") for tk in rr["ticks"]]
    allowed = (["top", "mid", "leaf"], ["top", "mid"], ["top", "side"])
    bad = [a for a in want if a not in allowed]
    if bad or ["top", "mid"] not in want:
        return [("forward-oracle", "canonical declaration order gives %r\n%s" % (want, ref))]
    if got != want:
        k = next(i for i in range(len(want)) if i >= len(got) or got[i] != want[i])
        return [("outline-depends-on-declaration-order", "frames declared in the order %r (`mid in top` before `top`: %r): after tick %d "
                 "the active frames are %r; with every over frame declared first they are %r (whole run %r vs %r)\n%s"
                 % (case["order"], case["order"].index("mid") < case["order"].index("top"), k, got[k] if k < len(got) else None,
                    want[k], got, want, text))]
    return []


def plan(tier):
    return CHECK.plan(tier) + [{"part": "under", "i": i, "n": 2} for i in range(2)] + [{"part": "forward"}]


def work(shard, seed, tier):
    if shard.get("part") == "forward":
        acc = Acc()
        for order in itertools.permutations(FORWARD_FRAMES):
            for start, dur in ((1, 2), (2, 3), (3, 1)):
                case = {"forward": True, "order": list(order), "start": start, "dur": dur}
                fails = check_forward(case)
                fwd = order.index("mid") < order.index("top") or order.index("leaf") < order.index("mid")
                acc.case(key=("forward", order, start, dur), nontrivial=fwd,
                         classes=["declaration-order", "over-frame-declared-%s" % ("later" if fwd else "first")],
                         sample={"script": forward_script(order, start, dur)} if (order[0], start) == ("leaf", 2) and order[1] == "mid" else None)
                for sig, what in fails:
                    acc.fail(sig, what, case)
        acc.note("forward over links: all 24 declaration orders of 4 frames x 3 (start, duration) of the conditional auxiliary enumerated")
        return acc
    if shard.get("part") != "under":
        return CHECK.work(shard, seed, tier)
    acc = Acc()
    k = 0
    for order in itertools.permutations(UNDER_FRAMES):
        for target in ("a", "b", "c"):
            k += 1
            if k % shard["n"] != shard["i"]:
                continue
            case = {"under": True, "order": list(order), "target": target}
            fails = check_under(case)
            acc.case(key=("under", order, target), nontrivial=order.index("work") > 0,
                     classes=["under-verb", "under:parent-declared-%s" % ("first" if order.index("work") == 0 else "after-children")],
                     sample={"script": under_script(order, target)} if k % 97 == 1 else None)
            for sig, what in fails:
                acc.fail(sig, what, case)
    acc.note("`under` override: all 120 declaration orders of 5 frames x 3 targets enumerated")
    return acc


def replay(case):
    if case.get("under"):
        return check_under(case)
    if case.get("forward"):
        return check_forward(case)
    return CHECK.replay(case)
